//! Entry points for the coverage-guided (libFuzzer) targets under harness/fuzz: every target decodes the
//! fuzzer's bytes into the same raw draws the proptest generators consume, builds a case with the same
//! builder and applies the same oracle. `Err(detail)` = violation (the target panics on it).

use crate::checks;
use crate::engine::emu::{Baseline, Emu};
use crate::engine::run::*;
use crate::engine::stats::{verif_root, Findings};
use crate::engine::stepcase::*;
use crate::gen::Ent;
use std::cell::RefCell;
use std::sync::{Arc, OnceLock};

fn draws(data: &[u8], n: usize) -> Vec<u32> {
    let mut v: Vec<u32> = data.chunks(4).map(|c| {
        let mut b = [0u8; 4];
        b[..c.len()].copy_from_slice(c);
        u32::from_be_bytes(b)
    }).collect();
    v.resize(n, 0);
    v
}

static FINDINGS: OnceLock<Findings> = OnceLock::new();
static BASE: OnceLock<Arc<Baseline>> = OnceLock::new();
fn findings() -> &'static Findings {
    FINDINGS.get_or_init(|| Findings::load(&verif_root().join("known_findings.json")))
}
thread_local! {
    static EMU: RefCell<Option<Emu>> = RefCell::new(None);
}
fn with_emu<T>(f: impl FnOnce(&mut Emu) -> T) -> T {
    std::env::set_var("RUST_LIB_BACKTRACE", "0");
    EMU.with(|e| {
        let mut e = e.borrow_mut();
        if e.is_none() {
            *e = Some(Emu::new(BASE.get_or_init(Baseline::new)));
        }
        f(e.as_mut().unwrap())
    })
}
fn open_quirks_all() -> Vec<crate::refmodel::exec::Quirk> {
    crate::refmodel::exec::ALL_QUIRKS.iter().copied().filter(|q| findings().all.iter().any(|f| f.status == "open" && f.signature == quirk_sig(*q))).collect()
}

/// C07 + C15 (+ the semantics of whatever valid instruction the bytes encode): raw instruction words,
/// registers, CCR, bus bytes and code position straight from the fuzzer
pub fn step(data: &[u8]) -> Result<(), String> {
    if data.len() < 12 {
        return Ok(());
    }
    let d = draws(&data[10..], 24);
    let mut e = Ent::new(&d);
    let mut er = [0u32; 8];
    for r in er.iter_mut() {
        *r = match e.below(3) {
            0 => e.data_addr(&[crate::gen::Region::Ram, crate::gen::Region::Dram], 8, 1) | e.upper_byte(),
            1 => e.pick(&checks::c15::ADVERSARIAL),
            _ => e.u32(),
        };
    }
    let avoid: Vec<u32> = er.to_vec();
    let case = StepCase { code: data[..10].to_vec(), pc: e.code_addr(12, &avoid), er, ccr: e.u8(), patches: vec![], bus: e.bus_cfg(), irq: None, primer: None };
    with_emu(|emu| {
        let j = judge(emu, &case, &Aspects::STATE, &open_quirks_all());
        match j.verdict {
            Verdict::Fail(why) => Err(format!("{} ; {}", why, case.brief())),
            _ => Ok(()),
        }
    })
}

static QUIET: std::sync::atomic::AtomicBool = std::sync::atomic::AtomicBool::new(false);
/// fuzz processes: send the guest's console output (fd 1) to /dev/null once and for all (libFuzzer talks on fd 2)
pub fn quiet_forever() {
    if !QUIET.swap(true, std::sync::atomic::Ordering::Relaxed) {
        std::mem::forget(crate::engine::stdio::Redirect::start(false));
    }
}

/// Raw instruction *streams*: the first 40 bytes seed the start state (pointer registers into the data zones,
/// stack, CCR, bus setting, code placement), the rest (up to 96 bytes) is executed as code, instruction after
/// instruction on one emulator state in lockstep with the reference, until the stream ends, the reference
/// stops constraining the outcome (undefined encoding, odd target ...) or both sides fault. Oracle: after
/// every instruction registers, CCR, PC, written bytes; the whole memory at the end; the charge of every
/// instruction executed while the bus controller still has the start setting; no panic ever.
pub fn prog(data: &[u8]) -> Result<(), String> {
    use crate::engine::program::*;
    use crate::refmodel::exec::{total_cost, Outcome};
    if data.len() < 44 {
        return Ok(());
    }
    let d = draws(&data[..40], 24);
    let mut e = Ent::new(&d);
    let base = match e.below(3) {
        0 => 0xffc000 + 2 * e.below(0x400),
        1 => crate::gen::LOAD_BASE + 2 * e.below(0x400),
        _ => 0x5ffe00 + 2 * e.below(0xd0), // close to the end of DRAM: long streams run off the end
    };
    let mut er = [0u32; 8];
    for r in er.iter_mut().take(7) {
        *r = match e.below(4) {
            0 | 1 => e.data_addr(&[crate::gen::Region::Ram, crate::gen::Region::Dram, crate::gen::Region::Vector], 8, 2) | e.upper_byte(),
            2 => e.pick(&checks::c15::ADVERSARIAL),
            _ => e.u32(),
        };
    }
    er[7] = if e.chance(1, 2) { 0xfff400 + 4 * e.below(0x80) } else { 0x5e8000 + 4 * e.below(0x1000) } | e.upper_byte();
    let ccr = e.u8();
    let bus = e.bus_cfg();
    let code: Vec<u8> = data[40..].iter().copied().take(96).collect();
    let stop = base + (code.len() as u32 & !1);
    let prog = Prog { image: vec![(base, code)], er, ccr, pc: base, bus };
    let quirks = open_quirks_all();
    let _quiet = if QUIET.load(std::sync::atomic::Ordering::Relaxed) { None } else { Some(crate::engine::stdio::Redirect::start(false)) };
    with_emu(|emu| {
        let opts = LsOpts { quirks: &quirks, max_steps: 64, full_dram: false, compare_memory: true };
        let mut violation: Option<String> = None;
        let mut cfg_dirty = false;
        let out = lockstep(emu, &prog, &opts, &mut |v: &View| {
            if let Some(step) = v.last {
                if step.accesses.iter().any(|a| a.write && (0..a.size).any(|i| crate::engine::emu::is_bus_reg(a.addr.wrapping_add(i)))) {
                    cfg_dirty = true;
                }
                if !cfg_dirty && matches!(step.outcome, Outcome::Ok) && v.idx > 0 {
                    if let Some(exp) = total_cost(&step.cycles, &bus) {
                        if exp != v.last_states {
                            violation = Some(format!("instruction {} ({:?}) charged {} states; cycle table x cost rule under {:?} = {}", v.idx, step.decoded.class, v.last_states, bus, exp));
                            return Ctl::Stop;
                        }
                    }
                }
            }
            if v.pc == stop {
                return Ctl::Stop;
            }
            // a MES write call of megabytes (length word = whatever the stream left in memory) is a legitimate
            // request, but copying it per input exhausts the fuzzing engine's memory limit: streams end before it
            if (v.peek)(v.pc) == Some(0x57) && (v.peek)(v.pc.wrapping_add(1)) == Some(0x00) && v.er[0] == 104 {
                let a = v.er[1].wrapping_add(8);
                let len = (0..4).fold(0u32, |acc, i| (acc << 8) | (v.peek)(a.wrapping_add(i) & 0xff_ffff).unwrap_or(0xff) as u32);
                if len > 0x4000 {
                    return Ctl::Stop;
                }
            }
            Ctl::Step
        });
        if let Some(p) = out.panic {
            return Err(format!("emulator panicked: {} (stream at {:06x})", p, base));
        }
        if let Some(m) = violation {
            return Err(m);
        }
        match out.end {
            End::Mismatch(m) => Err(format!("{} (stream at {:06x}, {} steps)", m, base, out.steps)),
            _ => Ok(()),
        }
    })
}

pub fn elf(data: &[u8]) -> Result<(), String> {
    thread_local! {
        static LD: RefCell<Option<checks::c11::Loader>> = RefCell::new(None);
    }
    let d = draws(data, 900);
    LD.with(|l| {
        let mut l = l.borrow_mut();
        if l.is_none() {
            *l = Some(checks::c11::Loader::new(&format!("fuzz-{:?}", std::thread::current().id())));
        }
        let ld = l.as_mut().unwrap();
        let c12 = data.first().map(|b| b & 1 == 1).unwrap_or(false);
        let spec = checks::elfgen::build(&mut Ent::new(&d), &checks::elfgen::Opts { c12 });
        if c12 {
            checks::c11::check_c12(ld, &spec)
        } else {
            checks::c11::check_c11(ld, &spec)
        }
    })
}

pub fn timer(data: &[u8]) -> Result<(), String> {
    use checks::c17::Op;
    // two bytes per op, directly (the fuzzer mutates ops, not draws)
    let mut ops = vec![];
    let (mut tcr, mut ta, mut tb) = (0u8, 0u8, 0u8);
    for c in data.chunks(2).take(400) {
        let (k, v) = (c[0], *c.get(1).unwrap_or(&0));
        let cclr = |t: u8| (t >> 3) & 3 == 1 || (t >> 3) & 3 == 2;
        match k % 8 {
            0..=3 => ops.push(Op::Elapse(v.max(1))),
            4 => {
                let t = if v & 7 > 3 { v & 0xfb } else { v };
                if cclr(t) && (ta == 0 || tb == 0 || ta == tb) {
                    continue; // keep the stated precondition
                }
                tcr = t;
                ops.push(Op::Tcr(t));
            }
            5 => ops.push(Op::Tcnt(v)),
            6 => {
                if cclr(tcr) && (v == 0 || v == tb) {
                    continue;
                }
                ta = v;
                ops.push(Op::Tcora(v));
            }
            _ => {
                if k & 0x80 != 0 {
                    ops.push(Op::ClearFlags(v & 0xe0, v));
                } else {
                    if cclr(tcr) && (v == 0 || v == ta) {
                        continue;
                    }
                    tb = v;
                    ops.push(Op::Tcorb(v));
                }
            }
        }
    }
    if ops.is_empty() {
        return Ok(());
    }
    with_emu(|emu| checks::c17::judge_history(emu, &ops, None).map(|_| ()))
}

pub fn lines(data: &[u8]) -> Result<(), String> {
    let text = String::from_utf8_lossy(data);
    let lines: Vec<String> = text.split('\n').take(48).map(|s| s.chars().take(64).collect()).collect();
    let _quiet = crate::engine::stdio::Redirect::start(false);
    checks::c18::judge_lines_pub(&lines)
}

// ------------------------------------------------------------------ seed corpora (./check CORPUS)

/// Write small valid seed inputs for every fuzz target to <verif>/corpus/<target>/ (committed; the
/// campaigns also run from an empty corpus directory, libFuzzer merges both). Deterministic.
pub fn gen_corpus() -> i32 {
    use crate::refmodel::insn::{decode_bytes, Class};
    use std::collections::BTreeMap;
    let root = verif_root().join("corpus");
    let mut x: u32 = 0x1234_5678;
    let mut rnd = move || {
        x = x.wrapping_mul(1664525).wrapping_add(1013904223);
        (x >> 24) as u8
    };
    let write = |target: &str, name: &str, bytes: &[u8]| {
        let d = root.join(target);
        let _ = std::fs::create_dir_all(&d);
        std::fs::write(d.join(name), bytes).expect("write corpus file");
    };
    // fuzz_step: one example per decoded form (first encoding found in a structured sweep)
    let mut forms: BTreeMap<String, Vec<u8>> = BTreeMap::new();
    let b1s: Vec<u8> = (0..16u8).flat_map(|h| [h << 4, (h << 4) | 8, (h << 4) | 2, (h << 4) | 0xa]).collect();
    let b3s = [0x00u8, 0x12, 0x20, 0x80, 0xa0, 0xf9];
    // following words: a second prefix level (MOV.L @(d:24)), a 24-bit address/displacement, the store form
    const TAILS: [[u8; 6]; 3] = [[0x6b, 0x20, 0x00, 0x40, 0x12, 0x34], [0x00, 0x40, 0x12, 0x34, 0x56, 0x78], [0x6b, 0xa0, 0x00, 0x40, 0x12, 0x34]];
    for b0 in 0..=255u8 {
        for &b1 in &b1s {
            // one-word instruction (decodable from the first word alone): the following bytes do not matter
            let single = !matches!(decode_bytes(&[b0, b1]).class, Class::FetchFault);
            for b2 in 0..=255u8 {
                for (&b3, tail) in b3s.iter().flat_map(|b| TAILS.iter().map(move |t| (b, t))) {
                    let code = [b0, b1, b2, b3, tail[0], tail[1], tail[2], tail[3], tail[4], tail[5]];
                    let d = decode_bytes(&code);
                    let key = match &d.class {
                        Class::Impl(i) => format!("{:?}", i).chars().filter(|c| !c.is_ascii_digit()).collect::<String>(),
                        Class::Unimpl(n) => format!("unimpl {}", n),
                        _ => continue,
                    };
                    forms.entry(format!("{} len{}", key, d.len)).or_insert_with(|| code.to_vec());
                    if single {
                        break;
                    }
                }
                if single {
                    break;
                }
            }
        }
    }
    for (i, (_, code)) in forms.iter().enumerate() {
        let mut f = code.clone();
        for _ in 0..40 {
            f.push(rnd());
        }
        write("fuzz_step", &format!("form{:04}", i), &f);
    }
    // fuzz_elf: the bytes are the generator's draws; full-length random streams
    for i in 0..12 {
        let f: Vec<u8> = (0..3600).map(|_| rnd()).collect();
        write("fuzz_elf", &format!("draws{:02}", i), &f);
    }
    // fuzz_timer: (kind, value) pairs: program the compare registers and the clock, then run
    for i in 0..24u8 {
        let mut f = vec![6, rnd().max(1), 0x07, rnd().max(2), 4, (i % 3 + 1) | ((i % 4) << 3) | ((i & 7) << 5)];
        for _ in 0..120 {
            let k = rnd();
            f.push(if k < 200 { k % 4 } else { k });
            f.push(rnd());
        }
        write("fuzz_timer", &format!("ops{:02}", i), &f);
    }
    // fuzz_lines: lines from the C18 grammar
    for i in 0..24 {
        let d: Vec<u32> = (0..400).map(|_| u32::from_be_bytes([rnd(), rnd(), rnd(), rnd()])).collect();
        let lines = checks::c18::build_lines(&mut Ent::new(&d));
        let text: String = lines.iter().take(40).map(|l| format!("{}\n", l)).collect();
        write("fuzz_lines", &format!("lines{:02}", i), text.as_bytes());
    }
    // fuzz_prog: 40 state bytes + the code of generated instruction soups
    for i in 0..48 {
        let d: Vec<u32> = (0..700).map(|_| u32::from_be_bytes([rnd(), rnd(), rnd(), rnd()])).collect();
        let fl = [checks::soup::Flavor::All, checks::soup::Flavor::Mov, checks::soup::Flavor::Bit, checks::soup::Flavor::Ea][i % 4];
        let soup = checks::soup::build(&mut Ent::new(&d), fl);
        let mut f: Vec<u8> = (0..40).map(|_| rnd()).collect();
        f.extend(soup.prog.image[0].1.iter().take(96));
        write("fuzz_prog", &format!("soup{:02}", i), &f);
    }
    println!("corpus written: {} fuzz_step forms, 12 fuzz_elf, 24 fuzz_timer, 24 fuzz_lines, 48 fuzz_prog", forms.len());
    0
}
