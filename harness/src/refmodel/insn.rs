//! Instruction representation, exact decode table (DESIGN Appendix A) and its inverse (encoder).
//! Written from the H8/300H programming manual's instruction-code table, not from the emulator.

#[derive(Clone, Copy, Debug, PartialEq, Eq, Hash, PartialOrd, Ord)]
pub enum Sz {
    B,
    W,
    L,
}
impl Sz {
    pub fn bytes(self) -> u32 {
        match self {
            Sz::B => 1,
            Sz::W => 2,
            Sz::L => 4,
        }
    }
    pub fn bits(self) -> u32 {
        self.bytes() * 8
    }
    pub fn mask(self) -> u32 {
        match self {
            Sz::B => 0xff,
            Sz::W => 0xffff,
            Sz::L => 0xffff_ffff,
        }
    }
    pub fn msb(self) -> u32 {
        1 << (self.bits() - 1)
    }
    pub fn ch(self) -> char {
        match self {
            Sz::B => 'B',
            Sz::W => 'W',
            Sz::L => 'L',
        }
    }
}

/// Memory operand. Register numbers are 0-7 (ERn).
#[derive(Clone, Copy, Debug, PartialEq, Eq, Hash)]
pub enum Ea {
    Ind(u8),
    D16(u8, u16),
    D24(u8, u32),
    Post(u8),
    Pre(u8),
    A8(u8),
    A16(u16),
    A24(u32),
}
impl Ea {
    pub fn name(&self) -> &'static str {
        match self {
            Ea::Ind(_) => "@ERn",
            Ea::D16(..) => "@(d:16,ERn)",
            Ea::D24(..) => "@(d:24,ERn)",
            Ea::Post(_) => "@ERn+",
            Ea::Pre(_) => "@-ERn",
            Ea::A8(_) => "@aa:8",
            Ea::A16(_) => "@aa:16",
            Ea::A24(_) => "@aa:24",
        }
    }
    pub fn reg(&self) -> Option<u8> {
        match *self {
            Ea::Ind(r) | Ea::D16(r, _) | Ea::D24(r, _) | Ea::Post(r) | Ea::Pre(r) => Some(r),
            _ => None,
        }
    }
}

#[derive(Clone, Copy, Debug, PartialEq, Eq, Hash)]
pub enum AluOp {
    Add,
    Sub,
    Cmp,
    And,
    Or,
    Xor,
}
#[derive(Clone, Copy, Debug, PartialEq, Eq, Hash)]
pub enum UnOp {
    Neg,
    Not,
    Extu,
    Inc1,
    Inc2,
    Dec1,
    Dec2,
    Shll,
    Shal,
    Shlr,
    Shar,
    Rotxl,
    Rotl,
    Rotxr,
    Rotr,
}
#[derive(Clone, Copy, Debug, PartialEq, Eq, Hash)]
pub enum BitOp {
    Bset,
    Bnot,
    Bclr,
    Btst,
    Bst,
    Bist,
    Bld,
    Bild,
    Band,
    Biand,
    Bor,
    Bior,
    Bxor,
    Bixor,
}
impl BitOp {
    /// read-modify-write group (second word after 7D/7F) vs read-only group (7C/7E)
    pub fn is_rmw(self) -> bool {
        matches!(self, BitOp::Bset | BitOp::Bnot | BitOp::Bclr | BitOp::Bst | BitOp::Bist)
    }
    pub fn has_reg_form(self) -> bool {
        matches!(self, BitOp::Bset | BitOp::Bnot | BitOp::Bclr | BitOp::Btst)
    }
    pub const ALL: [BitOp; 14] = [
        BitOp::Bset,
        BitOp::Bnot,
        BitOp::Bclr,
        BitOp::Btst,
        BitOp::Bst,
        BitOp::Bist,
        BitOp::Bld,
        BitOp::Bild,
        BitOp::Band,
        BitOp::Biand,
        BitOp::Bor,
        BitOp::Bior,
        BitOp::Bxor,
        BitOp::Bixor,
    ];
}
#[derive(Clone, Copy, Debug, PartialEq, Eq, Hash)]
pub enum BitSel {
    Imm(u8),
    Reg(u8),
}
#[derive(Clone, Copy, Debug, PartialEq, Eq, Hash)]
pub enum BitTgt {
    Reg(u8),
    Ind(u8),
    A8(u8),
}
#[derive(Clone, Copy, Debug, PartialEq, Eq, Hash)]
pub enum Src {
    Imm(u32),
    Reg(u8),
}
#[derive(Clone, Copy, Debug, PartialEq, Eq, Hash)]
pub enum JTarget {
    Reg(u8),
    Abs(u32),
    MemInd(u8),
}

#[derive(Clone, Copy, Debug, PartialEq, Eq, Hash)]
pub enum Insn {
    MovRR { sz: Sz, s: u8, d: u8 },
    MovImm { sz: Sz, imm: u32, d: u8 },
    Load { sz: Sz, ea: Ea, d: u8 },
    Store { sz: Sz, s: u8, ea: Ea },
    Alu { op: AluOp, sz: Sz, src: Src, d: u8 },
    Addx { src: Src, d: u8 },
    Un { op: UnOp, sz: Sz, d: u8 },
    Adds { n: u8, d: u8 },
    Subs { n: u8, d: u8 },
    Mulxu { sz: Sz, s: u8, d: u8 },
    Divxu { sz: Sz, s: u8, d: u8 },
    Bit { op: BitOp, sel: BitSel, tgt: BitTgt },
    Bcc { cond: u8, disp: i32, wide: bool },
    Jmp(JTarget),
    Bsr { disp: i32, wide: bool },
    Jsr(JTarget),
    Rts,
    Rte,
    Trapa(u8),
    StcB { d: u8 },
    StcW { ea: Ea },
}

impl Insn {
    /// Name of the instruction *form* (mnemonic + addressing mode, no register numbers / values).
    pub fn form(&self) -> String {
        match *self {
            Insn::MovRR { sz, .. } => format!("MOV.{} Rs,Rd", sz.ch()),
            Insn::MovImm { sz, .. } => format!("MOV.{} #imm,Rd", sz.ch()),
            Insn::Load { sz, ea, .. } => format!("MOV.{} {},Rd", sz.ch(), ea.name()),
            Insn::Store { sz, ea, .. } => format!("MOV.{} Rs,{}", sz.ch(), ea.name()),
            Insn::Alu { op, sz, src, .. } => format!(
                "{}.{} {},Rd",
                format!("{:?}", op).to_uppercase(),
                sz.ch(),
                if matches!(src, Src::Imm(_)) { "#imm" } else { "Rs" }
            ),
            Insn::Addx { src, .. } => format!("ADDX {},Rd", if matches!(src, Src::Imm(_)) { "#imm" } else { "Rs" }),
            Insn::Un { op, sz, .. } => format!("{}.{} Rd", format!("{:?}", op).to_uppercase(), sz.ch()),
            Insn::Adds { n, .. } => format!("ADDS #{},ERd", n),
            Insn::Subs { n, .. } => format!("SUBS #{},ERd", n),
            Insn::Mulxu { sz, .. } => format!("MULXU.{} Rs,Rd", sz.ch()),
            Insn::Divxu { sz, .. } => format!("DIVXU.{} Rs,Rd", sz.ch()),
            Insn::Bit { op, sel, tgt } => format!(
                "{} {},{}",
                format!("{:?}", op).to_uppercase(),
                if matches!(sel, BitSel::Imm(_)) { "#i" } else { "Rn" },
                match tgt {
                    BitTgt::Reg(_) => "Rd",
                    BitTgt::Ind(_) => "@ERd",
                    BitTgt::A8(_) => "@aa:8",
                }
            ),
            Insn::Bcc { wide, .. } => format!("Bcc d:{}", if wide { 16 } else { 8 }),
            Insn::Jmp(t) => format!("JMP {}", jt_name(t)),
            Insn::Bsr { wide, .. } => format!("BSR d:{}", if wide { 16 } else { 8 }),
            Insn::Jsr(t) => format!("JSR {}", jt_name(t)),
            Insn::Rts => "RTS".into(),
            Insn::Rte => "RTE".into(),
            Insn::Trapa(0) => "TRAPA #0".into(),
            Insn::Trapa(_) => "TRAPA #n".into(),
            Insn::StcB { .. } => "STC CCR,Rd".into(),
            Insn::StcW { ea } => format!("STC.W CCR,{}", ea.name()),
        }
    }
    pub fn mem_ea(&self) -> Option<Ea> {
        match *self {
            Insn::Load { ea, .. } | Insn::Store { ea, .. } | Insn::StcW { ea } => Some(ea),
            Insn::Bit { tgt: BitTgt::Ind(r), .. } => Some(Ea::Ind(r)),
            Insn::Bit { tgt: BitTgt::A8(a), .. } => Some(Ea::A8(a)),
            _ => None,
        }
    }
}
fn jt_name(t: JTarget) -> &'static str {
    match t {
        JTarget::Reg(_) => "@ERn",
        JTarget::Abs(_) => "@aa:24",
        JTarget::MemInd(_) => "@@aa:8",
    }
}

#[derive(Clone, Debug, PartialEq)]
pub enum Class {
    /// a valid encoding of an instruction the emulator implements
    Impl(Insn),
    /// a valid encoding of an H8/300H instruction the emulator does not implement (must be rejected)
    Unimpl(&'static str),
    /// not in the conservative table: no constraint
    Undef,
    /// a needed instruction word could not be fetched (unmapped)
    FetchFault,
}
#[derive(Clone, Debug, PartialEq)]
pub struct Decoded {
    pub class: Class,
    /// encoded length in bytes (meaningful for Impl / Unimpl)
    pub len: u32,
}

#[inline]
fn n(w: u16, i: u32) -> u8 {
    ((w >> (4 * (3 - i))) & 0xf) as u8
}
fn undef() -> Decoded {
    Decoded { class: Class::Undef, len: 2 }
}
fn imp(i: Insn, len: u32) -> Decoded {
    Decoded { class: Class::Impl(i), len }
}
fn unimp(m: &'static str, len: u32) -> Decoded {
    Decoded { class: Class::Unimpl(m), len }
}

/// Decode one instruction. `word(i)` returns the i-th 16-bit word from the instruction's address
/// or None when it cannot be fetched.
pub fn decode(word: &dyn Fn(u32) -> Option<u16>) -> Decoded {
    macro_rules! w {
        ($i:expr) => {
            match word($i) {
                Some(x) => x,
                None => return Decoded { class: Class::FetchFault, len: 2 * $i },
            }
        };
    }
    let w0 = w!(0);
    let (ah, al, bh, bl) = (n(w0, 0), n(w0, 1), n(w0, 2), n(w0, 3));
    let b = (w0 & 0xff) as u8;
    let hi = (w0 >> 8) as u8;
    let er = |x: u8| x < 8; // nibble names an ERn (bit 3 clear)
    match hi {
        0x00 => {
            if w0 == 0 {
                unimp("NOP", 2)
            } else {
                undef()
            }
        }
        0x01 => match b {
            0x00 => {
                // MOV.L memory forms
                let w1 = w!(1);
                let (c, d, e) = (n(w1, 1) | (n(w1, 0) << 4), n(w1, 2), n(w1, 3));
                match c {
                    0x69 | 0x6d | 0x6f => {
                        if !er(e) {
                            return undef();
                        }
                        let load = d < 8;
                        let r = d & 7;
                        match c {
                            0x69 => {
                                if load {
                                    imp(Insn::Load { sz: Sz::L, ea: Ea::Ind(r), d: e }, 4)
                                } else {
                                    imp(Insn::Store { sz: Sz::L, s: e, ea: Ea::Ind(r) }, 4)
                                }
                            }
                            0x6d => {
                                if load {
                                    imp(Insn::Load { sz: Sz::L, ea: Ea::Post(r), d: e }, 4)
                                } else {
                                    imp(Insn::Store { sz: Sz::L, s: e, ea: Ea::Pre(r) }, 4)
                                }
                            }
                            _ => {
                                let w2 = w!(2);
                                if load {
                                    imp(Insn::Load { sz: Sz::L, ea: Ea::D16(r, w2), d: e }, 6)
                                } else {
                                    imp(Insn::Store { sz: Sz::L, s: e, ea: Ea::D16(r, w2) }, 6)
                                }
                            }
                        }
                    }
                    0x6b => {
                        if !er(e) {
                            return undef();
                        }
                        match d {
                            0x0 | 0x8 => {
                                let w2 = w!(2);
                                if d == 0 {
                                    imp(Insn::Load { sz: Sz::L, ea: Ea::A16(w2), d: e }, 6)
                                } else {
                                    imp(Insn::Store { sz: Sz::L, s: e, ea: Ea::A16(w2) }, 6)
                                }
                            }
                            0x2 | 0xa => {
                                let (w2, w3) = (w!(2), w!(3));
                                if w2 >> 8 != 0 {
                                    return undef();
                                }
                                let a = ((w2 as u32) << 16) | w3 as u32;
                                if d == 2 {
                                    imp(Insn::Load { sz: Sz::L, ea: Ea::A24(a), d: e }, 8)
                                } else {
                                    imp(Insn::Store { sz: Sz::L, s: e, ea: Ea::A24(a) }, 8)
                                }
                            }
                            _ => undef(),
                        }
                    }
                    0x78 => {
                        // 0100 78 0S 0 6B 2 0D 00d24 (load) / 0100 78 1D 0 6B A 0S 00d24 (store)
                        if e != 0 {
                            return undef();
                        }
                        let w2 = w!(2);
                        let (w3, w4) = (w!(3), w!(4));
                        if w3 >> 8 != 0 {
                            return undef();
                        }
                        let disp = ((w3 as u32) << 16) | w4 as u32;
                        let r2 = n(w2, 3);
                        if !er(r2) {
                            return undef();
                        }
                        if d < 8 && w2 & 0xfff0 == 0x6b20 {
                            imp(Insn::Load { sz: Sz::L, ea: Ea::D24(d, disp), d: r2 }, 10)
                        } else if d >= 8 && w2 & 0xfff0 == 0x6ba0 {
                            imp(Insn::Store { sz: Sz::L, s: r2, ea: Ea::D24(d & 7, disp) }, 10)
                        } else {
                            undef()
                        }
                    }
                    _ => undef(),
                }
            }
            0x40 => {
                // LDC.W / STC.W
                let w1 = w!(1);
                let (c, d, e) = ((w1 >> 8) as u8, n(w1, 2), n(w1, 3));
                match c {
                    0x69 | 0x6d | 0x6f => {
                        if e != 0 {
                            return undef();
                        }
                        let stc = d >= 8;
                        let r = d & 7;
                        match c {
                            0x69 => {
                                if stc {
                                    imp(Insn::StcW { ea: Ea::Ind(r) }, 4)
                                } else {
                                    unimp("LDC.W @ERs,CCR", 4)
                                }
                            }
                            0x6d => {
                                if stc {
                                    imp(Insn::StcW { ea: Ea::Pre(r) }, 4)
                                } else {
                                    unimp("LDC.W @ERs+,CCR", 4)
                                }
                            }
                            _ => {
                                let w2 = w!(2);
                                if stc {
                                    imp(Insn::StcW { ea: Ea::D16(r, w2) }, 6)
                                } else {
                                    unimp("LDC.W @(d:16,ERs),CCR", 6)
                                }
                            }
                        }
                    }
                    0x6b => match w1 & 0xff {
                        0x00 => {
                            let _ = w!(2);
                            unimp("LDC.W @aa:16,CCR", 6)
                        }
                        0x80 => {
                            let w2 = w!(2);
                            imp(Insn::StcW { ea: Ea::A16(w2) }, 6)
                        }
                        0x20 | 0xa0 => {
                            let (w2, w3) = (w!(2), w!(3));
                            if w2 >> 8 != 0 {
                                return undef();
                            }
                            if w1 & 0xff == 0x20 {
                                unimp("LDC.W @aa:24,CCR", 8)
                            } else {
                                imp(Insn::StcW { ea: Ea::A24(((w2 as u32) << 16) | w3 as u32) }, 8)
                            }
                        }
                        _ => undef(),
                    },
                    0x78 => {
                        if e != 0 || d >= 8 {
                            return undef();
                        }
                        let w2 = w!(2);
                        let (w3, w4) = (w!(3), w!(4));
                        if w3 >> 8 != 0 {
                            return undef();
                        }
                        let disp = ((w3 as u32) << 16) | w4 as u32;
                        match w2 {
                            0x6b20 => unimp("LDC.W @(d:24,ERs),CCR", 10),
                            0x6ba0 => imp(Insn::StcW { ea: Ea::D24(d, disp) }, 10),
                            _ => undef(),
                        }
                    }
                    _ => undef(),
                }
            }
            0x80 => unimp("SLEEP", 2),
            0xc0 => {
                let w1 = w!(1);
                match (w1 >> 8) as u8 {
                    0x50 => unimp("MULXS.B", 4),
                    0x52 if er(n(w1, 3)) => unimp("MULXS.W", 4),
                    _ => undef(),
                }
            }
            0xd0 => {
                let w1 = w!(1);
                match (w1 >> 8) as u8 {
                    0x51 => unimp("DIVXS.B", 4),
                    0x53 if er(n(w1, 3)) => unimp("DIVXS.W", 4),
                    _ => undef(),
                }
            }
            0xf0 => {
                let w1 = w!(1);
                let op = match (w1 >> 8) as u8 {
                    0x64 => AluOp::Or,
                    0x65 => AluOp::Xor,
                    0x66 => AluOp::And,
                    _ => return undef(),
                };
                let (s, d) = (n(w1, 2), n(w1, 3));
                if er(s) && er(d) {
                    imp(Insn::Alu { op, sz: Sz::L, src: Src::Reg(s), d }, 4)
                } else {
                    undef()
                }
            }
            _ => undef(),
        },
        0x02 => {
            if bh == 0 {
                imp(Insn::StcB { d: bl }, 2)
            } else {
                undef()
            }
        }
        0x03 => {
            if bh == 0 {
                unimp("LDC Rs,CCR", 2)
            } else {
                undef()
            }
        }
        0x04 => unimp("ORC", 2),
        0x05 => unimp("XORC", 2),
        0x06 => unimp("ANDC", 2),
        0x07 => unimp("LDC #imm,CCR", 2),
        0x08 => imp(Insn::Alu { op: AluOp::Add, sz: Sz::B, src: Src::Reg(bh), d: bl }, 2),
        0x09 => imp(Insn::Alu { op: AluOp::Add, sz: Sz::W, src: Src::Reg(bh), d: bl }, 2),
        0x0a => {
            if bh == 0 {
                imp(Insn::Un { op: UnOp::Inc1, sz: Sz::B, d: bl }, 2)
            } else if bh >= 8 && er(bl) {
                imp(Insn::Alu { op: AluOp::Add, sz: Sz::L, src: Src::Reg(bh & 7), d: bl }, 2)
            } else {
                undef()
            }
        }
        0x0b | 0x1b => {
            let inc = hi == 0x0b;
            match bh {
                0x0 | 0x8 | 0x9 if er(bl) => {
                    let k = match bh {
                        0 => 1,
                        8 => 2,
                        _ => 4,
                    };
                    if inc {
                        imp(Insn::Adds { n: k, d: bl }, 2)
                    } else {
                        imp(Insn::Subs { n: k, d: bl }, 2)
                    }
                }
                0x5 => imp(Insn::Un { op: if inc { UnOp::Inc1 } else { UnOp::Dec1 }, sz: Sz::W, d: bl }, 2),
                0xd => imp(Insn::Un { op: if inc { UnOp::Inc2 } else { UnOp::Dec2 }, sz: Sz::W, d: bl }, 2),
                0x7 if er(bl) => imp(Insn::Un { op: if inc { UnOp::Inc1 } else { UnOp::Dec1 }, sz: Sz::L, d: bl }, 2),
                0xf if er(bl) => imp(Insn::Un { op: if inc { UnOp::Inc2 } else { UnOp::Dec2 }, sz: Sz::L, d: bl }, 2),
                _ => undef(),
            }
        }
        0x0c => imp(Insn::MovRR { sz: Sz::B, s: bh, d: bl }, 2),
        0x0d => imp(Insn::MovRR { sz: Sz::W, s: bh, d: bl }, 2),
        0x0e => imp(Insn::Addx { src: Src::Reg(bh), d: bl }, 2),
        0x0f => {
            if bh == 0 {
                unimp("DAA", 2)
            } else if bh >= 8 && er(bl) {
                imp(Insn::MovRR { sz: Sz::L, s: bh & 7, d: bl }, 2)
            } else {
                undef()
            }
        }
        0x10..=0x13 => {
            let (lo, hi_op) = match hi {
                0x10 => (UnOp::Shll, UnOp::Shal),
                0x11 => (UnOp::Shlr, UnOp::Shar),
                0x12 => (UnOp::Rotxl, UnOp::Rotl),
                _ => (UnOp::Rotxr, UnOp::Rotr),
            };
            let op = if bh & 8 == 0 { lo } else { hi_op };
            match bh & 7 {
                0 => imp(Insn::Un { op, sz: Sz::B, d: bl }, 2),
                1 => imp(Insn::Un { op, sz: Sz::W, d: bl }, 2),
                3 if er(bl) => imp(Insn::Un { op, sz: Sz::L, d: bl }, 2),
                _ => undef(),
            }
        }
        0x14 => imp(Insn::Alu { op: AluOp::Or, sz: Sz::B, src: Src::Reg(bh), d: bl }, 2),
        0x15 => imp(Insn::Alu { op: AluOp::Xor, sz: Sz::B, src: Src::Reg(bh), d: bl }, 2),
        0x16 => imp(Insn::Alu { op: AluOp::And, sz: Sz::B, src: Src::Reg(bh), d: bl }, 2),
        0x17 => match bh {
            0x0 => imp(Insn::Un { op: UnOp::Not, sz: Sz::B, d: bl }, 2),
            0x1 => imp(Insn::Un { op: UnOp::Not, sz: Sz::W, d: bl }, 2),
            0x3 if er(bl) => imp(Insn::Un { op: UnOp::Not, sz: Sz::L, d: bl }, 2),
            0x5 => imp(Insn::Un { op: UnOp::Extu, sz: Sz::W, d: bl }, 2),
            0x7 if er(bl) => imp(Insn::Un { op: UnOp::Extu, sz: Sz::L, d: bl }, 2),
            0x8 => imp(Insn::Un { op: UnOp::Neg, sz: Sz::B, d: bl }, 2),
            0x9 => imp(Insn::Un { op: UnOp::Neg, sz: Sz::W, d: bl }, 2),
            0xb if er(bl) => imp(Insn::Un { op: UnOp::Neg, sz: Sz::L, d: bl }, 2),
            0xd => unimp("EXTS.W", 2),
            0xf if er(bl) => unimp("EXTS.L", 2),
            _ => undef(),
        },
        0x18 => imp(Insn::Alu { op: AluOp::Sub, sz: Sz::B, src: Src::Reg(bh), d: bl }, 2),
        0x19 => imp(Insn::Alu { op: AluOp::Sub, sz: Sz::W, src: Src::Reg(bh), d: bl }, 2),
        0x1a => {
            if bh == 0 {
                imp(Insn::Un { op: UnOp::Dec1, sz: Sz::B, d: bl }, 2)
            } else if bh >= 8 && er(bl) {
                imp(Insn::Alu { op: AluOp::Sub, sz: Sz::L, src: Src::Reg(bh & 7), d: bl }, 2)
            } else {
                undef()
            }
        }
        0x1c => imp(Insn::Alu { op: AluOp::Cmp, sz: Sz::B, src: Src::Reg(bh), d: bl }, 2),
        0x1d => imp(Insn::Alu { op: AluOp::Cmp, sz: Sz::W, src: Src::Reg(bh), d: bl }, 2),
        0x1e => unimp("SUBX Rs,Rd", 2),
        0x1f => {
            if bh == 0 {
                unimp("DAS", 2)
            } else if bh >= 8 && er(bl) {
                imp(Insn::Alu { op: AluOp::Cmp, sz: Sz::L, src: Src::Reg(bh & 7), d: bl }, 2)
            } else {
                undef()
            }
        }
        0x20..=0x2f => imp(Insn::Load { sz: Sz::B, ea: Ea::A8(b), d: al }, 2),
        0x30..=0x3f => imp(Insn::Store { sz: Sz::B, s: al, ea: Ea::A8(b) }, 2),
        0x40..=0x4f => imp(Insn::Bcc { cond: al, disp: (b as i8) as i32, wide: false }, 2),
        0x50 => imp(Insn::Mulxu { sz: Sz::B, s: bh, d: bl }, 2),
        0x51 => imp(Insn::Divxu { sz: Sz::B, s: bh, d: bl }, 2),
        0x52 if er(bl) => imp(Insn::Mulxu { sz: Sz::W, s: bh, d: bl }, 2),
        0x53 if er(bl) => imp(Insn::Divxu { sz: Sz::W, s: bh, d: bl }, 2),
        0x54 => {
            if b == 0x70 {
                imp(Insn::Rts, 2)
            } else {
                undef()
            }
        }
        0x55 => imp(Insn::Bsr { disp: (b as i8) as i32, wide: false }, 2),
        0x56 => {
            if b == 0x70 {
                imp(Insn::Rte, 2)
            } else {
                undef()
            }
        }
        0x57 => {
            if bl == 0 && bh < 4 {
                imp(Insn::Trapa(bh), 2)
            } else {
                undef()
            }
        }
        0x58 => {
            if bl != 0 {
                return undef();
            }
            let w1 = w!(1);
            imp(Insn::Bcc { cond: bh, disp: (w1 as i16) as i32, wide: true }, 4)
        }
        0x59 | 0x5d => {
            if bl == 0 && er(bh) {
                if hi == 0x59 {
                    imp(Insn::Jmp(JTarget::Reg(bh)), 2)
                } else {
                    imp(Insn::Jsr(JTarget::Reg(bh)), 2)
                }
            } else {
                undef()
            }
        }
        0x5a | 0x5e => {
            let w1 = w!(1);
            let a = ((b as u32) << 16) | w1 as u32;
            if hi == 0x5a {
                imp(Insn::Jmp(JTarget::Abs(a)), 4)
            } else {
                imp(Insn::Jsr(JTarget::Abs(a)), 4)
            }
        }
        0x5b => imp(Insn::Jmp(JTarget::MemInd(b)), 2),
        0x5f => imp(Insn::Jsr(JTarget::MemInd(b)), 2),
        0x5c => {
            if b != 0 {
                return undef();
            }
            let w1 = w!(1);
            imp(Insn::Bsr { disp: (w1 as i16) as i32, wide: true }, 4)
        }
        0x60..=0x63 | 0x67 | 0x70..=0x77 => match bit_second(hi, bh) {
            Some((op, sel)) => imp(Insn::Bit { op, sel, tgt: BitTgt::Reg(bl) }, 2),
            None => undef(),
        },
        0x64 => imp(Insn::Alu { op: AluOp::Or, sz: Sz::W, src: Src::Reg(bh), d: bl }, 2),
        0x65 => imp(Insn::Alu { op: AluOp::Xor, sz: Sz::W, src: Src::Reg(bh), d: bl }, 2),
        0x66 => imp(Insn::Alu { op: AluOp::And, sz: Sz::W, src: Src::Reg(bh), d: bl }, 2),
        0x68 | 0x69 | 0x6c | 0x6d | 0x6e | 0x6f => {
            let sz = if hi & 1 == 0 { Sz::B } else { Sz::W };
            let load = bh < 8;
            let r = bh & 7;
            match hi & 0xfe {
                0x68 => {
                    if load {
                        imp(Insn::Load { sz, ea: Ea::Ind(r), d: bl }, 2)
                    } else {
                        imp(Insn::Store { sz, s: bl, ea: Ea::Ind(r) }, 2)
                    }
                }
                0x6c => {
                    if load {
                        imp(Insn::Load { sz, ea: Ea::Post(r), d: bl }, 2)
                    } else {
                        imp(Insn::Store { sz, s: bl, ea: Ea::Pre(r) }, 2)
                    }
                }
                _ => {
                    let w1 = w!(1);
                    if load {
                        imp(Insn::Load { sz, ea: Ea::D16(r, w1), d: bl }, 4)
                    } else {
                        imp(Insn::Store { sz, s: bl, ea: Ea::D16(r, w1) }, 4)
                    }
                }
            }
        }
        0x6a | 0x6b => {
            let sz = if hi == 0x6a { Sz::B } else { Sz::W };
            match bh {
                0x0 | 0x8 => {
                    let w1 = w!(1);
                    if bh == 0 {
                        imp(Insn::Load { sz, ea: Ea::A16(w1), d: bl }, 4)
                    } else {
                        imp(Insn::Store { sz, s: bl, ea: Ea::A16(w1) }, 4)
                    }
                }
                0x2 | 0xa => {
                    let (w1, w2) = (w!(1), w!(2));
                    if w1 >> 8 != 0 {
                        return undef();
                    }
                    let a = ((w1 as u32) << 16) | w2 as u32;
                    if bh == 2 {
                        imp(Insn::Load { sz, ea: Ea::A24(a), d: bl }, 6)
                    } else {
                        imp(Insn::Store { sz, s: bl, ea: Ea::A24(a) }, 6)
                    }
                }
                0x4 if hi == 0x6a => unimp("MOVFPE", 4),
                0xc if hi == 0x6a => unimp("MOVTPE", 4),
                _ => undef(),
            }
        }
        0x78 => {
            // 78 0S 0  6A/6B 2 d  00d24   /  78 0D 0  6A/6B A s  00d24
            if bl != 0 || !er(bh) {
                return undef();
            }
            let w1 = w!(1);
            let sz = match (w1 >> 8) as u8 {
                0x6a => Sz::B,
                0x6b => Sz::W,
                _ => return undef(),
            };
            let (w2, w3) = (w!(2), w!(3));
            if w2 >> 8 != 0 {
                return undef();
            }
            let disp = ((w2 as u32) << 16) | w3 as u32;
            match n(w1, 2) {
                0x2 => imp(Insn::Load { sz, ea: Ea::D24(bh, disp), d: n(w1, 3) }, 8),
                0xa => imp(Insn::Store { sz, s: n(w1, 3), ea: Ea::D24(bh, disp) }, 8),
                _ => undef(),
            }
        }
        0x79 | 0x7a => {
            let sz = if hi == 0x79 { Sz::W } else { Sz::L };
            if sz == Sz::L && !er(bl) {
                return undef();
            }
            let imm = if sz == Sz::W {
                w!(1) as u32
            } else {
                let (a, c) = (w!(1), w!(2));
                ((a as u32) << 16) | c as u32
            };
            let len = if sz == Sz::W { 4 } else { 6 };
            let op = match bh {
                0 => return imp(Insn::MovImm { sz, imm, d: bl }, len),
                1 => AluOp::Add,
                2 => AluOp::Cmp,
                3 => AluOp::Sub,
                4 => AluOp::Or,
                5 => AluOp::Xor,
                6 => AluOp::And,
                _ => return undef(),
            };
            imp(Insn::Alu { op, sz, src: Src::Imm(imm), d: bl }, len)
        }
        0x7b => {
            let w1 = w!(1);
            if (w0 == 0x7b5c || w0 == 0x7bd4) && w1 == 0x598f {
                unimp("EEPMOV", 4)
            } else {
                undef()
            }
        }
        0x7c..=0x7f => {
            let tgt = if hi < 0x7e {
                if bl != 0 || !er(bh) {
                    return undef();
                }
                BitTgt::Ind(bh)
            } else {
                BitTgt::A8(b)
            };
            let w1 = w!(1);
            if n(w1, 3) != 0 {
                return undef();
            }
            match bit_second((w1 >> 8) as u8, n(w1, 2)) {
                Some((op, sel)) => {
                    let rmw_prefix = hi & 1 == 1;
                    if op.is_rmw() == rmw_prefix {
                        imp(Insn::Bit { op, sel, tgt }, 4)
                    } else {
                        undef()
                    }
                }
                None => undef(),
            }
        }
        0x80..=0x8f => imp(Insn::Alu { op: AluOp::Add, sz: Sz::B, src: Src::Imm(b as u32), d: al }, 2),
        0x90..=0x9f => imp(Insn::Addx { src: Src::Imm(b as u32), d: al }, 2),
        0xa0..=0xaf => imp(Insn::Alu { op: AluOp::Cmp, sz: Sz::B, src: Src::Imm(b as u32), d: al }, 2),
        0xb0..=0xbf => unimp("SUBX #imm,Rd", 2),
        0xc0..=0xcf => imp(Insn::Alu { op: AluOp::Or, sz: Sz::B, src: Src::Imm(b as u32), d: al }, 2),
        0xd0..=0xdf => imp(Insn::Alu { op: AluOp::Xor, sz: Sz::B, src: Src::Imm(b as u32), d: al }, 2),
        0xe0..=0xef => imp(Insn::Alu { op: AluOp::And, sz: Sz::B, src: Src::Imm(b as u32), d: al }, 2),
        0xf0..=0xff => imp(Insn::MovImm { sz: Sz::B, imm: b as u32, d: al }, 2),
        _ => {
            let _ = ah;
            undef()
        }
    }
}

/// (opcode byte, third nibble) -> bit operation and bit selector
fn bit_second(op: u8, x: u8) -> Option<(BitOp, BitSel)> {
    let imm = |o: BitOp| if x < 8 { Some((o, BitSel::Imm(x))) } else { None };
    let pair = |plain: BitOp, inv: BitOp| Some((if x < 8 { plain } else { inv }, BitSel::Imm(x & 7)));
    match op {
        0x60 => Some((BitOp::Bset, BitSel::Reg(x))),
        0x61 => Some((BitOp::Bnot, BitSel::Reg(x))),
        0x62 => Some((BitOp::Bclr, BitSel::Reg(x))),
        0x63 => Some((BitOp::Btst, BitSel::Reg(x))),
        0x67 => pair(BitOp::Bst, BitOp::Bist),
        0x70 => imm(BitOp::Bset),
        0x71 => imm(BitOp::Bnot),
        0x72 => imm(BitOp::Bclr),
        0x73 => imm(BitOp::Btst),
        0x74 => pair(BitOp::Bor, BitOp::Bior),
        0x75 => pair(BitOp::Bxor, BitOp::Bixor),
        0x76 => pair(BitOp::Band, BitOp::Biand),
        0x77 => pair(BitOp::Bld, BitOp::Bild),
        _ => None,
    }
}

fn bit_codes(op: BitOp, sel: BitSel) -> (u8, u8) {
    let x = match sel {
        BitSel::Imm(i) => i & 7,
        BitSel::Reg(r) => r & 15,
    };
    match (op, sel) {
        (BitOp::Bset, BitSel::Reg(_)) => (0x60, x),
        (BitOp::Bnot, BitSel::Reg(_)) => (0x61, x),
        (BitOp::Bclr, BitSel::Reg(_)) => (0x62, x),
        (BitOp::Btst, BitSel::Reg(_)) => (0x63, x),
        (BitOp::Bset, _) => (0x70, x),
        (BitOp::Bnot, _) => (0x71, x),
        (BitOp::Bclr, _) => (0x72, x),
        (BitOp::Btst, _) => (0x73, x),
        (BitOp::Bst, _) => (0x67, x),
        (BitOp::Bist, _) => (0x67, x | 8),
        (BitOp::Bor, _) => (0x74, x),
        (BitOp::Bior, _) => (0x74, x | 8),
        (BitOp::Bxor, _) => (0x75, x),
        (BitOp::Bixor, _) => (0x75, x | 8),
        (BitOp::Band, _) => (0x76, x),
        (BitOp::Biand, _) => (0x76, x | 8),
        (BitOp::Bld, _) => (0x77, x),
        (BitOp::Bild, _) => (0x77, x | 8),
    }
}

fn push16(v: &mut Vec<u8>, w: u16) {
    v.push((w >> 8) as u8);
    v.push(w as u8);
}
fn push32(v: &mut Vec<u8>, w: u32) {
    push16(v, (w >> 16) as u16);
    push16(v, w as u16);
}

/// The inverse of `decode` on `Class::Impl`: the canonical encoding of an instruction.
/// Panics on operand combinations that have no encoding (generators never produce them).
pub fn encode(i: &Insn) -> Vec<u8> {
    let mut v = Vec::with_capacity(10);
    let b2 = |v: &mut Vec<u8>, a: u8, hi: u8, lo: u8| {
        v.push(a);
        v.push((hi << 4) | (lo & 15));
    };
    match *i {
        Insn::MovRR { sz, s, d } => match sz {
            Sz::B => b2(&mut v, 0x0c, s, d),
            Sz::W => b2(&mut v, 0x0d, s, d),
            Sz::L => b2(&mut v, 0x0f, 8 | s, d & 7),
        },
        Insn::MovImm { sz, imm, d } => match sz {
            Sz::B => {
                v.push(0xf0 | d);
                v.push(imm as u8)
            }
            Sz::W => {
                b2(&mut v, 0x79, 0, d);
                push16(&mut v, imm as u16)
            }
            Sz::L => {
                b2(&mut v, 0x7a, 0, d & 7);
                push32(&mut v, imm)
            }
        },
        Insn::Load { sz, ea, d } => enc_mov(&mut v, sz, ea, d, true),
        Insn::Store { sz, s, ea } => enc_mov(&mut v, sz, ea, s, false),
        Insn::Alu { op, sz, src, d } => match (sz, src) {
            (Sz::B, Src::Imm(k)) => {
                let h = match op {
                    AluOp::Add => 0x80,
                    AluOp::Cmp => 0xa0,
                    AluOp::Or => 0xc0,
                    AluOp::Xor => 0xd0,
                    AluOp::And => 0xe0,
                    AluOp::Sub => panic!("no SUB.B #imm"),
                };
                v.push(h | d);
                v.push(k as u8);
            }
            (Sz::B, Src::Reg(s)) => {
                let h = match op {
                    AluOp::Add => 0x08,
                    AluOp::Sub => 0x18,
                    AluOp::Cmp => 0x1c,
                    AluOp::Or => 0x14,
                    AluOp::Xor => 0x15,
                    AluOp::And => 0x16,
                };
                b2(&mut v, h, s, d)
            }
            (Sz::W, Src::Reg(s)) => {
                let h = match op {
                    AluOp::Add => 0x09,
                    AluOp::Sub => 0x19,
                    AluOp::Cmp => 0x1d,
                    AluOp::Or => 0x64,
                    AluOp::Xor => 0x65,
                    AluOp::And => 0x66,
                };
                b2(&mut v, h, s, d)
            }
            (Sz::L, Src::Reg(s)) => match op {
                AluOp::Add => b2(&mut v, 0x0a, 8 | s, d & 7),
                AluOp::Sub => b2(&mut v, 0x1a, 8 | s, d & 7),
                AluOp::Cmp => b2(&mut v, 0x1f, 8 | s, d & 7),
                AluOp::Or | AluOp::Xor | AluOp::And => {
                    push16(&mut v, 0x01f0);
                    let h = match op {
                        AluOp::Or => 0x64,
                        AluOp::Xor => 0x65,
                        _ => 0x66,
                    };
                    b2(&mut v, h, s & 7, d & 7)
                }
            },
            (_, Src::Imm(k)) => {
                let x = match op {
                    AluOp::Add => 1,
                    AluOp::Cmp => 2,
                    AluOp::Sub => 3,
                    AluOp::Or => 4,
                    AluOp::Xor => 5,
                    AluOp::And => 6,
                };
                if sz == Sz::W {
                    b2(&mut v, 0x79, x, d);
                    push16(&mut v, k as u16)
                } else {
                    b2(&mut v, 0x7a, x, d & 7);
                    push32(&mut v, k)
                }
            }
        },
        Insn::Addx { src, d } => match src {
            Src::Imm(k) => {
                v.push(0x90 | d);
                v.push(k as u8)
            }
            Src::Reg(s) => b2(&mut v, 0x0e, s, d),
        },
        Insn::Un { op, sz, d } => {
            let szn = |sz: Sz| match sz {
                Sz::B => 0,
                Sz::W => 1,
                Sz::L => 3,
            };
            match op {
                UnOp::Shll => b2(&mut v, 0x10, szn(sz), d),
                UnOp::Shal => b2(&mut v, 0x10, 8 | szn(sz), d),
                UnOp::Shlr => b2(&mut v, 0x11, szn(sz), d),
                UnOp::Shar => b2(&mut v, 0x11, 8 | szn(sz), d),
                UnOp::Rotxl => b2(&mut v, 0x12, szn(sz), d),
                UnOp::Rotl => b2(&mut v, 0x12, 8 | szn(sz), d),
                UnOp::Rotxr => b2(&mut v, 0x13, szn(sz), d),
                UnOp::Rotr => b2(&mut v, 0x13, 8 | szn(sz), d),
                UnOp::Not => b2(&mut v, 0x17, szn(sz), d),
                UnOp::Neg => b2(&mut v, 0x17, 8 | szn(sz), d),
                UnOp::Extu => b2(&mut v, 0x17, if sz == Sz::W { 5 } else { 7 }, d),
                UnOp::Inc1 | UnOp::Inc2 | UnOp::Dec1 | UnOp::Dec2 => {
                    let inc = matches!(op, UnOp::Inc1 | UnOp::Inc2);
                    let two = matches!(op, UnOp::Inc2 | UnOp::Dec2);
                    match sz {
                        Sz::B => {
                            assert!(!two);
                            b2(&mut v, if inc { 0x0a } else { 0x1a }, 0, d)
                        }
                        Sz::W => b2(&mut v, if inc { 0x0b } else { 0x1b }, if two { 0xd } else { 0x5 }, d),
                        Sz::L => b2(&mut v, if inc { 0x0b } else { 0x1b }, if two { 0xf } else { 0x7 }, d & 7),
                    }
                }
            }
        }
        Insn::Adds { n, d } | Insn::Subs { n, d } => {
            let h = if matches!(i, Insn::Adds { .. }) { 0x0b } else { 0x1b };
            b2(
                &mut v,
                h,
                match n {
                    1 => 0,
                    2 => 8,
                    _ => 9,
                },
                d & 7,
            )
        }
        Insn::Mulxu { sz, s, d } => b2(&mut v, if sz == Sz::B { 0x50 } else { 0x52 }, s, d),
        Insn::Divxu { sz, s, d } => b2(&mut v, if sz == Sz::B { 0x51 } else { 0x53 }, s, d),
        Insn::Bit { op, sel, tgt } => {
            let (c, x) = bit_codes(op, sel);
            match tgt {
                BitTgt::Reg(r) => b2(&mut v, c, x, r),
                BitTgt::Ind(r) => {
                    b2(&mut v, if op.is_rmw() { 0x7d } else { 0x7c }, r & 7, 0);
                    b2(&mut v, c, x, 0)
                }
                BitTgt::A8(a) => {
                    v.push(if op.is_rmw() { 0x7f } else { 0x7e });
                    v.push(a);
                    b2(&mut v, c, x, 0)
                }
            }
        }
        Insn::Bcc { cond, disp, wide } => {
            if wide {
                b2(&mut v, 0x58, cond, 0);
                push16(&mut v, disp as i16 as u16)
            } else {
                v.push(0x40 | cond);
                v.push(disp as i8 as u8)
            }
        }
        Insn::Jmp(t) | Insn::Jsr(t) => {
            let jsr = matches!(i, Insn::Jsr(_));
            match t {
                JTarget::Reg(r) => b2(&mut v, if jsr { 0x5d } else { 0x59 }, r & 7, 0),
                JTarget::Abs(a) => {
                    v.push(if jsr { 0x5e } else { 0x5a });
                    v.push((a >> 16) as u8);
                    push16(&mut v, a as u16)
                }
                JTarget::MemInd(a) => {
                    v.push(if jsr { 0x5f } else { 0x5b });
                    v.push(a)
                }
            }
        }
        Insn::Bsr { disp, wide } => {
            if wide {
                push16(&mut v, 0x5c00);
                push16(&mut v, disp as i16 as u16)
            } else {
                v.push(0x55);
                v.push(disp as i8 as u8)
            }
        }
        Insn::Rts => push16(&mut v, 0x5470),
        Insn::Rte => push16(&mut v, 0x5670),
        Insn::Trapa(k) => b2(&mut v, 0x57, k & 3, 0),
        Insn::StcB { d } => b2(&mut v, 0x02, 0, d),
        Insn::StcW { ea } => {
            push16(&mut v, 0x0140);
            match ea {
                Ea::Ind(r) => b2(&mut v, 0x69, 8 | r, 0),
                Ea::Pre(r) => b2(&mut v, 0x6d, 8 | r, 0),
                Ea::D16(r, d) => {
                    b2(&mut v, 0x6f, 8 | r, 0);
                    push16(&mut v, d)
                }
                Ea::D24(r, d) => {
                    b2(&mut v, 0x78, r & 7, 0);
                    push16(&mut v, 0x6ba0);
                    push32(&mut v, d & 0xff_ffff)
                }
                Ea::A16(a) => {
                    push16(&mut v, 0x6b80);
                    push16(&mut v, a)
                }
                Ea::A24(a) => {
                    push16(&mut v, 0x6ba0);
                    push32(&mut v, a & 0xff_ffff)
                }
                _ => panic!("no such STC.W form"),
            }
        }
    }
    v
}

fn enc_mov(v: &mut Vec<u8>, sz: Sz, ea: Ea, reg: u8, load: bool) {
    let b2 = |v: &mut Vec<u8>, a: u8, hi: u8, lo: u8| {
        v.push(a);
        v.push((hi << 4) | (lo & 15));
    };
    let st = if load { 0 } else { 8 };
    if sz == Sz::L {
        push16(v, 0x0100);
        match ea {
            Ea::Ind(r) => b2(v, 0x69, st | r, reg & 7),
            Ea::Post(r) => {
                assert!(load);
                b2(v, 0x6d, r, reg & 7)
            }
            Ea::Pre(r) => {
                assert!(!load);
                b2(v, 0x6d, 8 | r, reg & 7)
            }
            Ea::D16(r, d) => {
                b2(v, 0x6f, st | r, reg & 7);
                push16(v, d)
            }
            Ea::D24(r, d) => {
                b2(v, 0x78, st | r, 0);
                b2(v, 0x6b, if load { 2 } else { 0xa }, reg & 7);
                push32(v, d & 0xff_ffff)
            }
            Ea::A16(a) => {
                b2(v, 0x6b, if load { 0 } else { 8 }, reg & 7);
                push16(v, a)
            }
            Ea::A24(a) => {
                b2(v, 0x6b, if load { 2 } else { 0xa }, reg & 7);
                push32(v, a & 0xff_ffff)
            }
            Ea::A8(_) => panic!("no MOV.L @aa:8"),
        }
        return;
    }
    let w = if sz == Sz::W { 1 } else { 0 };
    match ea {
        Ea::Ind(r) => b2(v, 0x68 | w, st | r, reg),
        Ea::Post(r) => {
            assert!(load);
            b2(v, 0x6c | w, r, reg)
        }
        Ea::Pre(r) => {
            assert!(!load);
            b2(v, 0x6c | w, 8 | r, reg)
        }
        Ea::D16(r, d) => {
            b2(v, 0x6e | w, st | r, reg);
            push16(v, d)
        }
        Ea::D24(r, d) => {
            b2(v, 0x78, r & 7, 0);
            b2(v, 0x6a | w, if load { 2 } else { 0xa }, reg);
            push32(v, d & 0xff_ffff)
        }
        Ea::A8(a) => {
            assert!(sz == Sz::B);
            v.push(if load { 0x20 } else { 0x30 } | (reg & 15));
            v.push(a)
        }
        Ea::A16(a) => {
            b2(v, 0x6a | w, if load { 0 } else { 8 }, reg);
            push16(v, a)
        }
        Ea::A24(a) => {
            b2(v, 0x6a | w, if load { 2 } else { 0xa }, reg);
            push32(v, a & 0xff_ffff)
        }
    }
}

/// decode a byte slice (helper for tests / generators)
pub fn decode_bytes(code: &[u8]) -> Decoded {
    decode(&|i| {
        let k = (2 * i) as usize;
        if k + 1 < code.len() {
            Some(((code[k] as u16) << 8) | code[k + 1] as u16)
        } else {
            None
        }
    })
}
