//! Architectural semantics of the implemented instructions (H8/300H programming manual) and the
//! advanced-mode bus-cycle table. Independent of the emulator's code.

use super::insn::*;
use std::collections::HashMap;

pub const MASK24: u32 = 0x00ff_ffff;

pub const F_C: u8 = 0x01;
pub const F_V: u8 = 0x02;
pub const F_Z: u8 = 0x04;
pub const F_N: u8 = 0x08;
pub const F_U: u8 = 0x10;
pub const F_H: u8 = 0x20;
pub const F_UI: u8 = 0x40;
pub const F_I: u8 = 0x80;

/// The five accessible ranges of the guest address space (property C09's statement).
pub const REGIONS: [(u32, u32, &str); 5] = [
    (0x000000, 0x0000ff, "vector"),
    (0x400000, 0x5fffff, "dram"),
    (0xfee000, 0xfee0ff, "io1"),
    (0xffbf20, 0xffff1f, "ram"),
    (0xffff20, 0xffffe9, "io2"),
];
pub fn mapped(addr: u32) -> bool {
    REGIONS.iter().any(|&(lo, hi, _)| addr >= lo && addr <= hi)
}
pub fn region_of(addr: u32) -> Option<&'static str> {
    REGIONS.iter().find(|&&(lo, hi, _)| addr >= lo && addr <= hi).map(|r| r.2)
}

/// Known deviations of the emulator that are recorded as *open* known findings. Switching one on
/// makes the reference reproduce exactly that defective behaviour (DESIGN 1.5).
#[derive(Clone, Copy, Debug, PartialEq, Eq, Hash, PartialOrd, Ord)]
pub enum Quirk {
    /// SHAL: V = old MSB instead of "MSB changed" (unit tests assert it)
    ShalVFromMsb,
    /// STC.W CCR,@-ERd implemented as post-increment (unit test asserts it)
    StcWordPostInc,
}
pub const ALL_QUIRKS: [Quirk; 2] = [Quirk::ShalVFromMsb, Quirk::StcWordPostInc];

#[derive(Clone, Copy, Debug, PartialEq, Eq, Hash)]
pub enum Kind {
    I,
    J,
    K,
    L,
    M,
    N,
}

#[derive(Clone, Copy, Debug, PartialEq, Eq)]
pub enum AccKind {
    Data,
    Stack,
    Vector,
}
#[derive(Clone, Copy, Debug, PartialEq, Eq)]
pub struct Access {
    pub addr: u32,
    pub size: u32,
    pub kind: AccKind,
    pub write: bool,
}

#[derive(Clone, Debug, PartialEq, Eq)]
pub enum Outcome {
    /// executed; post-state is in the RefState
    Ok,
    /// the instruction touches an inaccessible address: execution must report an error
    AccessFault(u32),
    /// valid encoding of an unimplemented instruction, or unsupported MES call: must report an error
    Reject(String),
    /// no constraint (undefined encoding, excluded operand combination)
    Unspecified(&'static str),
    /// instruction word not fetchable
    FetchFault,
}

#[derive(Clone, Debug, PartialEq, Eq)]
pub enum Event {
    Stdout(Vec<u8>),
}

pub struct Step {
    pub outcome: Outcome,
    pub decoded: Decoded,
    pub accesses: Vec<Access>,
    /// bytes whose value the reference does not constrain (e.g. top byte of a call frame)
    pub dont_care_mem: Vec<u32>,
    /// bit mask per register of bits the reference does not constrain
    pub dont_care_reg: [u32; 8],
    pub dont_care_ccr: u8,
    pub events: Vec<Event>,
    /// (kind, count, address the cycle is costed at) per DESIGN Appendix A
    pub cycles: Vec<(Kind, u32, u32)>,
    pub quirks_fired: Vec<Quirk>,
}

pub trait Base {
    fn get(&self, addr: u32) -> u8;
}
impl<F: Fn(u32) -> u8> Base for F {
    fn get(&self, addr: u32) -> u8 {
        self(addr)
    }
}

pub struct RefState<'a> {
    pub er: [u32; 8],
    pub ccr: u8,
    pub pc: u32,
    pub base: &'a dyn Base,
    pub overlay: HashMap<u32, u8>,
}

struct Fault(u32);

impl<'a> RefState<'a> {
    pub fn new(base: &'a dyn Base) -> Self {
        RefState { er: [0; 8], ccr: 0, pc: 0, base, overlay: HashMap::new() }
    }
    pub fn peek(&self, addr: u32) -> Option<u8> {
        if !mapped(addr) {
            return None;
        }
        Some(match self.overlay.get(&addr) {
            Some(v) => *v,
            None => self.base.get(addr),
        })
    }
    pub fn poke(&mut self, addr: u32, v: u8) {
        self.overlay.insert(addr, v);
    }
    pub fn peek_word(&self, addr: u32) -> Option<u16> {
        Some(((self.peek(addr)? as u16) << 8) | self.peek(addr.wrapping_add(1))? as u16)
    }
    pub fn rb(&self, r: u8) -> u32 {
        if r < 8 {
            (self.er[r as usize] >> 8) & 0xff
        } else {
            self.er[(r & 7) as usize] & 0xff
        }
    }
    pub fn rw(&self, r: u8) -> u32 {
        if r < 8 {
            self.er[r as usize] & 0xffff
        } else {
            self.er[(r & 7) as usize] >> 16
        }
    }
    pub fn reg(&self, sz: Sz, r: u8) -> u32 {
        match sz {
            Sz::B => self.rb(r),
            Sz::W => self.rw(r),
            Sz::L => self.er[(r & 7) as usize],
        }
    }
    pub fn set_reg(&mut self, sz: Sz, r: u8, v: u32) {
        let e = &mut self.er[(r & 7) as usize];
        match sz {
            Sz::B => {
                if r < 8 {
                    *e = (*e & 0xffff_00ff) | ((v & 0xff) << 8)
                } else {
                    *e = (*e & 0xffff_ff00) | (v & 0xff)
                }
            }
            Sz::W => {
                if r < 8 {
                    *e = (*e & 0xffff_0000) | (v & 0xffff)
                } else {
                    *e = (*e & 0x0000_ffff) | ((v & 0xffff) << 16)
                }
            }
            Sz::L => *e = v,
        }
    }
    /// the bits of ERn that a register operand (sz, r) occupies
    pub fn reg_bits(sz: Sz, r: u8) -> (usize, u32) {
        let i = (r & 7) as usize;
        match sz {
            Sz::B => (i, if r < 8 { 0xff00 } else { 0x00ff }),
            Sz::W => (i, if r < 8 { 0xffff } else { 0xffff_0000 }),
            Sz::L => (i, 0xffff_ffff),
        }
    }
    fn flag(&mut self, f: u8, on: bool) {
        if on {
            self.ccr |= f
        } else {
            self.ccr &= !f
        }
    }
    fn nz(&mut self, sz: Sz, v: u32) {
        self.flag(F_N, v & sz.msb() != 0);
        self.flag(F_Z, v & sz.mask() == 0);
    }

    fn read(&mut self, st: &mut Step, addr: u32, size: u32, kind: AccKind) -> Result<u32, Fault> {
        let addr = addr & MASK24;
        st.accesses.push(Access { addr, size, kind, write: false });
        let mut v = 0u32;
        for i in 0..size {
            let a = addr.wrapping_add(i);
            match self.peek(a) {
                Some(b) => v = (v << 8) | b as u32,
                None => return Err(Fault(a)),
            }
        }
        Ok(v)
    }
    fn write(&mut self, st: &mut Step, addr: u32, size: u32, v: u32, kind: AccKind) -> Result<(), Fault> {
        let addr = addr & MASK24;
        st.accesses.push(Access { addr, size, kind, write: true });
        for i in 0..size {
            let a = addr.wrapping_add(i);
            if !mapped(a) {
                return Err(Fault(a));
            }
        }
        for i in 0..size {
            let a = addr.wrapping_add(i);
            self.poke(a, (v >> (8 * (size - 1 - i))) as u8);
        }
        Ok(())
    }

    /// Effective address of a memory operand (DESIGN A.1 "EA rules"), applying the register
    /// side effect of @ERn+ / @-ERn.
    fn ea(&mut self, ea: Ea, sz: Sz) -> u32 {
        match ea {
            Ea::Ind(r) => self.er[r as usize] & MASK24,
            Ea::D16(r, d) => self.er[r as usize].wrapping_add((d as i16) as i32 as u32) & MASK24,
            Ea::D24(r, d) => {
                let d = if d & 0x80_0000 != 0 { d | 0xff00_0000 } else { d & MASK24 };
                self.er[r as usize].wrapping_add(d) & MASK24
            }
            Ea::Post(r) => {
                let a = self.er[r as usize] & MASK24;
                self.er[r as usize] = self.er[r as usize].wrapping_add(sz.bytes());
                a
            }
            Ea::Pre(r) => {
                self.er[r as usize] = self.er[r as usize].wrapping_sub(sz.bytes());
                self.er[r as usize] & MASK24
            }
            Ea::A8(a) => 0xffff00 | a as u32,
            Ea::A16(a) => ((a as i16) as i32 as u32) & MASK24,
            Ea::A24(a) => a & MASK24,
        }
    }
}

fn add_flags(sz: Sz, a: u32, b: u32, cin: u32) -> (u32, bool, bool, bool) {
    // returns (result, H, V, C)
    let m = sz.mask() as u64;
    let (a64, b64) = (a as u64 & m, b as u64 & m);
    let sum = a64 + b64 + cin as u64;
    let res = (sum & m) as u32;
    let hm: u64 = match sz {
        Sz::B => 0xf,
        Sz::W => 0xfff,
        Sz::L => 0x0fff_ffff,
    };
    let h = (a64 & hm) + (b64 & hm) + cin as u64 > hm;
    let c = sum > m;
    let msb = sz.msb();
    let v = (!(a ^ b) & (a ^ res) & msb) != 0;
    (res, h, v, c)
}
fn sub_flags(sz: Sz, a: u32, b: u32, bin: u32) -> (u32, bool, bool, bool) {
    let m = sz.mask() as u64;
    let (a64, b64) = (a as u64 & m, b as u64 & m);
    let res = (a64.wrapping_sub(b64).wrapping_sub(bin as u64) & m) as u32;
    let hm: u64 = match sz {
        Sz::B => 0xf,
        Sz::W => 0xfff,
        Sz::L => 0x0fff_ffff,
    };
    let h = (a64 & hm) < (b64 & hm) + bin as u64;
    let c = a64 < b64 + bin as u64;
    let msb = sz.msb();
    let v = ((a ^ b) & (a ^ res) & msb) != 0;
    (res, h, v, c)
}

pub fn cond_true(cond: u8, ccr: u8) -> bool {
    let (c, v, z, nn) = (ccr & F_C != 0, ccr & F_V != 0, ccr & F_Z != 0, ccr & F_N != 0);
    match cond & 15 {
        0 => true,
        1 => false,
        2 => !(c || z),
        3 => c || z,
        4 => !c,
        5 => c,
        6 => !z,
        7 => z,
        8 => !v,
        9 => v,
        10 => !nn,
        11 => nn,
        12 => nn == v,
        13 => nn != v,
        14 => !(z || (nn != v)),
        _ => z || (nn != v),
    }
}

/// Execute one instruction at `s.pc`. On `Outcome::Ok` the state `s` is the architectural post-state.
/// On any other outcome `s` is left in an unspecified intermediate state (callers compare nothing).
pub fn step(s: &mut RefState, quirks: &[Quirk]) -> Step {
    let pc0 = s.pc & MASK24 & !1;
    let dec = {
        let st: &RefState = s;
        decode(&|i| st.peek_word(pc0.wrapping_add(2 * i)))
    };
    let mut st = Step {
        outcome: Outcome::Ok,
        decoded: dec.clone(),
        accesses: vec![],
        dont_care_mem: vec![],
        dont_care_reg: [0; 8],
        dont_care_ccr: 0,
        events: vec![],
        cycles: vec![],
        quirks_fired: vec![],
    };
    let insn = match dec.class {
        Class::Impl(i) => i,
        Class::Unimpl(m) => {
            st.outcome = Outcome::Reject(m.to_string());
            return st;
        }
        Class::Undef => {
            st.outcome = Outcome::Unspecified("undefined encoding");
            return st;
        }
        Class::FetchFault => {
            st.outcome = Outcome::FetchFault;
            return st;
        }
    };
    // an odd PC: bit 0 is ignored by the fetch (the words come from pc & !1). Whether the emulator keeps the
    // bit in PC, clears it or refuses to execute is not constrained (callers compare PC without bit 0 and
    // accept an error); control-flow instructions (which store or derive values from PC) are left out.
    if s.pc & 1 != 0 && matches!(insn, Insn::Bcc { .. } | Insn::Jmp(_) | Insn::Bsr { .. } | Insn::Jsr(_) | Insn::Rts | Insn::Rte | Insn::Trapa(_)) {
        st.outcome = Outcome::Unspecified("control-flow instruction at an odd PC");
        return st;
    }
    let next = pc0.wrapping_add(dec.len) | (s.pc & 1);
    s.pc = next;
    let own = pc0;
    // instruction-fetch cycles: one per instruction word, except that every instruction that loads
    // PC also fetches at the target (I = 2 for all branch/jump/call/return/trap forms)
    let icount = match insn {
        Insn::Bcc { .. } | Insn::Jmp(_) | Insn::Bsr { .. } | Insn::Jsr(_) | Insn::Rts | Insn::Rte | Insn::Trapa(_) => 2,
        _ => dec.len / 2,
    };
    match exec_insn(s, &mut st, insn, next, own, icount, quirks) {
        Ok(()) => {}
        Err(Fault(a)) => st.outcome = Outcome::AccessFault(a),
    }
    st
}

fn exec_insn(s: &mut RefState, st: &mut Step, insn: Insn, next: u32, own: u32, icount: u32, quirks: &[Quirk]) -> Result<(), Fault> {
    use Kind::*;
    let q = |k: Quirk| quirks.contains(&k);
    st.cycles.push((I, icount, own));
    match insn {
        Insn::MovRR { sz, s: rs, d } => {
            let v = s.reg(sz, rs);
            s.set_reg(sz, d, v);
            s.nz(sz, v);
            s.flag(F_V, false);
        }
        Insn::MovImm { sz, imm, d } => {
            let v = imm & sz.mask();
            s.set_reg(sz, d, v);
            s.nz(sz, v);
            s.flag(F_V, false);
        }
        Insn::Load { sz, ea, d } => {
            if let Ea::Post(r) = ea {
                if (d & 7) == r && overlaps(sz, d) {
                    st.outcome = Outcome::Unspecified("data register overlaps address register");
                    return Ok(());
                }
            }
            let a = s.ea(ea, sz);
            let v = s.read(st, a, sz.bytes(), AccKind::Data)?;
            s.set_reg(sz, d, v);
            s.nz(sz, v);
            s.flag(F_V, false);
            mov_cycles(st, sz, ea, a, own);
        }
        Insn::Store { sz, s: rs, ea } => {
            if let Ea::Pre(r) = ea {
                if (rs & 7) == r && overlaps(sz, rs) {
                    st.outcome = Outcome::Unspecified("data register overlaps address register");
                    return Ok(());
                }
            }
            let v = s.reg(sz, rs);
            let a = s.ea(ea, sz);
            s.write(st, a, sz.bytes(), v, AccKind::Data)?;
            s.nz(sz, v);
            s.flag(F_V, false);
            mov_cycles(st, sz, ea, a, own);
        }
        Insn::Alu { op, sz, src, d } => {
            let b = match src {
                Src::Imm(k) => k & sz.mask(),
                Src::Reg(r) => s.reg(sz, r),
            };
            let a = s.reg(sz, d);
            match op {
                AluOp::Add => {
                    let (r, h, v, c) = add_flags(sz, a, b, 0);
                    s.set_reg(sz, d, r);
                    s.flag(F_H, h);
                    s.flag(F_V, v);
                    s.flag(F_C, c);
                    s.nz(sz, r);
                }
                AluOp::Sub | AluOp::Cmp => {
                    let (r, h, v, c) = sub_flags(sz, a, b, 0);
                    if op == AluOp::Sub {
                        s.set_reg(sz, d, r);
                    }
                    s.flag(F_H, h);
                    s.flag(F_V, v);
                    s.flag(F_C, c);
                    s.nz(sz, r);
                }
                AluOp::And | AluOp::Or | AluOp::Xor => {
                    let r = match op {
                        AluOp::And => a & b,
                        AluOp::Or => a | b,
                        _ => a ^ b,
                    } & sz.mask();
                    s.set_reg(sz, d, r);
                    s.nz(sz, r);
                    s.flag(F_V, false);
                }
            }
        }
        Insn::Addx { src, d } => {
            let b = match src {
                Src::Imm(k) => k & 0xff,
                Src::Reg(r) => s.rb(r),
            };
            let a = s.rb(d);
            let cin = (s.ccr & F_C) as u32;
            let (r, h, v, c) = add_flags(Sz::B, a, b, cin);
            s.set_reg(Sz::B, d, r);
            s.flag(F_H, h);
            s.flag(F_V, v);
            s.flag(F_C, c);
            s.flag(F_N, r & 0x80 != 0);
            if r != 0 {
                s.flag(F_Z, false);
            }
        }
        Insn::Un { op, sz, d } => {
            let a = s.reg(sz, d);
            let m = sz.mask();
            let msb = sz.msb();
            let cin = (s.ccr & F_C) as u32;
            match op {
                UnOp::Neg => {
                    let (r, h, v, c) = sub_flags(sz, 0, a, 0);
                    s.set_reg(sz, d, r);
                    s.flag(F_H, h);
                    s.flag(F_V, v);
                    s.flag(F_C, c);
                    s.nz(sz, r);
                }
                UnOp::Not => {
                    let r = !a & m;
                    s.set_reg(sz, d, r);
                    s.nz(sz, r);
                    s.flag(F_V, false);
                }
                UnOp::Extu => {
                    let r = if sz == Sz::W { a & 0xff } else { a & 0xffff };
                    s.set_reg(sz, d, r);
                    s.flag(F_N, false);
                    s.flag(F_Z, r == 0);
                    s.flag(F_V, false);
                }
                UnOp::Inc1 | UnOp::Inc2 => {
                    let k = if op == UnOp::Inc1 { 1 } else { 2 };
                    let (r, _h, v, _c) = add_flags(sz, a, k, 0);
                    s.set_reg(sz, d, r);
                    s.nz(sz, r);
                    s.flag(F_V, v);
                }
                UnOp::Dec1 | UnOp::Dec2 => {
                    let k = if op == UnOp::Dec1 { 1 } else { 2 };
                    let (r, _h, v, _c) = sub_flags(sz, a, k, 0);
                    s.set_reg(sz, d, r);
                    s.nz(sz, r);
                    s.flag(F_V, v);
                }
                UnOp::Shll | UnOp::Shal => {
                    let r = (a << 1) & m;
                    s.set_reg(sz, d, r);
                    s.nz(sz, r);
                    s.flag(F_C, a & msb != 0);
                    let v = if op == UnOp::Shal { (a ^ r) & msb != 0 } else { false };
                    if op == UnOp::Shal && q(Quirk::ShalVFromMsb) {
                        let qv = a & msb != 0;
                        if qv != v {
                            st.quirks_fired.push(Quirk::ShalVFromMsb);
                        }
                        s.flag(F_V, qv);
                    } else {
                        s.flag(F_V, v);
                    }
                }
                UnOp::Shlr | UnOp::Shar => {
                    let mut r = (a & m) >> 1;
                    if op == UnOp::Shar {
                        r |= a & msb;
                    }
                    s.set_reg(sz, d, r);
                    s.nz(sz, r);
                    s.flag(F_C, a & 1 != 0);
                    s.flag(F_V, false);
                }
                UnOp::Rotl | UnOp::Rotxl => {
                    let inb = if op == UnOp::Rotl { (a & msb != 0) as u32 } else { cin };
                    let r = ((a << 1) & m) | inb;
                    s.set_reg(sz, d, r);
                    s.nz(sz, r);
                    s.flag(F_C, a & msb != 0);
                    s.flag(F_V, false);
                }
                UnOp::Rotr | UnOp::Rotxr => {
                    let inb = if op == UnOp::Rotr { a & 1 } else { cin };
                    let r = ((a & m) >> 1) | if inb != 0 { msb } else { 0 };
                    s.set_reg(sz, d, r);
                    s.nz(sz, r);
                    s.flag(F_C, a & 1 != 0);
                    s.flag(F_V, false);
                }
            }
        }
        Insn::Adds { n, d } => s.er[d as usize] = s.er[d as usize].wrapping_add(n as u32),
        Insn::Subs { n, d } => s.er[d as usize] = s.er[d as usize].wrapping_sub(n as u32),
        Insn::Mulxu { sz, s: rs, d } => {
            if sz == Sz::B {
                let r = (s.rw(d) & 0xff) * s.rb(rs);
                s.set_reg(Sz::W, d, r);
                st.cycles.push((N, 12, own));
            } else {
                let r = (s.er[d as usize] & 0xffff) * s.rw(rs);
                s.er[d as usize] = r;
                st.cycles.push((N, 20, own));
            }
        }
        Insn::Divxu { sz, s: rs, d } => {
            if sz == Sz::B {
                let dv = s.rb(rs);
                let a = s.rw(d);
                s.flag(F_N, dv & 0x80 != 0);
                s.flag(F_Z, dv == 0);
                if dv == 0 || a / dv > 0xff {
                    // result not defined by the property (excluded operands)
                    let (i, bits) = RefState::reg_bits(Sz::W, d);
                    st.dont_care_reg[i] |= bits;
                } else {
                    s.set_reg(Sz::W, d, ((a % dv) << 8) | (a / dv));
                }
                st.cycles.push((N, 12, own));
            } else {
                let dv = s.rw(rs);
                let a = s.er[d as usize];
                s.flag(F_N, dv & 0x8000 != 0);
                s.flag(F_Z, dv == 0);
                if dv == 0 || a / dv > 0xffff {
                    st.dont_care_reg[d as usize] = 0xffff_ffff;
                } else {
                    s.er[d as usize] = ((a % dv) << 16) | (a / dv);
                }
                st.cycles.push((N, 20, own));
            }
        }
        Insn::Bit { op, sel, tgt } => {
            let bit = match sel {
                BitSel::Imm(i) => i as u32 & 7,
                BitSel::Reg(r) => s.rb(r) & 7,
            };
            let addr = match tgt {
                BitTgt::Reg(_) => None,
                BitTgt::Ind(r) => Some(s.er[r as usize] & MASK24),
                BitTgt::A8(a) => Some(0xffff00 | a as u32),
            };
            let val = match (tgt, addr) {
                (BitTgt::Reg(r), _) => s.rb(r),
                (_, Some(a)) => s.read(st, a, 1, AccKind::Data)?,
                _ => unreachable!(),
            };
            let b = (val >> bit) & 1 != 0;
            let c = s.ccr & F_C != 0;
            let mut newval = None;
            match op {
                BitOp::Bset => newval = Some(val | (1 << bit)),
                BitOp::Bclr => newval = Some(val & !(1 << bit)),
                BitOp::Bnot => newval = Some(val ^ (1 << bit)),
                BitOp::Bst => newval = Some((val & !(1 << bit)) | ((c as u32) << bit)),
                BitOp::Bist => newval = Some((val & !(1 << bit)) | ((!c as u32) << bit)),
                BitOp::Btst => s.flag(F_Z, !b),
                BitOp::Bld => s.flag(F_C, b),
                BitOp::Bild => s.flag(F_C, !b),
                BitOp::Band => s.flag(F_C, c & b),
                BitOp::Biand => s.flag(F_C, c & !b),
                BitOp::Bor => s.flag(F_C, c | b),
                BitOp::Bior => s.flag(F_C, c | !b),
                BitOp::Bxor => s.flag(F_C, c ^ b),
                BitOp::Bixor => s.flag(F_C, c ^ !b),
            }
            if let Some(nv) = newval {
                match (tgt, addr) {
                    (BitTgt::Reg(r), _) => s.set_reg(Sz::B, r, nv),
                    (_, Some(a)) => s.write(st, a, 1, nv & 0xff, AccKind::Data)?,
                    _ => unreachable!(),
                }
            }
            if let Some(a) = addr {
                st.cycles.push((L, if op.is_rmw() { 2 } else { 1 }, a));
            }
        }
        Insn::Bcc { cond, disp, wide } => {
            if cond_true(cond, s.ccr) {
                let t = next.wrapping_add(disp as u32);
                if let Some(w) = bad_target(t) {
                    st.outcome = Outcome::Unspecified(w);
                    return Ok(());
                }
                s.pc = t & MASK24;
            }
            if wide {
                st.cycles.push((N, 2, own));
            }
        }
        Insn::Jmp(t) => {
            match t {
                JTarget::Reg(r) => s.pc = s.er[r as usize] & MASK24,
                JTarget::Abs(a) => {
                    s.pc = a & MASK24;
                    st.cycles.push((N, 2, own));
                }
                JTarget::MemInd(aa) => {
                    let v = s.read(st, aa as u32, 4, AccKind::Vector)?;
                    s.pc = v & MASK24;
                    st.cycles.push((J, 2, aa as u32));
                    st.cycles.push((N, 2, own));
                }
            }
            if s.pc & 1 != 0 {
                st.outcome = Outcome::Unspecified("odd branch target");
            }
        }
        Insn::Bsr { disp, wide } => {
            let t = next.wrapping_add(disp as u32);
            if let Some(w) = bad_target(t) {
                st.outcome = Outcome::Unspecified(w);
                return Ok(());
            }
            let sp = push_long(s, st, next)?;
            s.pc = t & MASK24;
            st.cycles.push((K, 2, sp));
            if wide {
                st.cycles.push((N, 2, own));
            }
        }
        Insn::Jsr(t) => {
            // the target is determined before the push (JSR @ER7 is not generated; it is well defined
            // on hardware but irrelevant here)
            match t {
                JTarget::Reg(r) => {
                    let tgt = s.er[r as usize] & MASK24;
                    if tgt & 1 != 0 {
                        st.outcome = Outcome::Unspecified("odd branch target");
                        return Ok(());
                    }
                    if r == 7 {
                        st.outcome = Outcome::Unspecified("JSR @ER7");
                        return Ok(());
                    }
                    let sp = push_long(s, st, next)?;
                    s.pc = tgt;
                    st.cycles.push((K, 2, sp));
                }
                JTarget::Abs(a) => {
                    if a & 1 != 0 {
                        st.outcome = Outcome::Unspecified("odd branch target");
                        return Ok(());
                    }
                    let sp = push_long(s, st, next)?;
                    s.pc = a & MASK24;
                    st.cycles.push((K, 2, sp));
                    st.cycles.push((N, 2, own));
                }
                JTarget::MemInd(aa) => {
                    // order of vector read and push is not observable unless they overlap
                    let sp_new = s.er[7].wrapping_sub(4) & MASK24;
                    if sp_new < (aa as u32) + 4 && (aa as u32) < sp_new + 4 {
                        st.outcome = Outcome::Unspecified("frame overlaps vector");
                        return Ok(());
                    }
                    let v = s.read(st, aa as u32, 4, AccKind::Vector)?;
                    if v & 1 != 0 {
                        st.outcome = Outcome::Unspecified("odd branch target");
                        return Ok(());
                    }
                    let sp = push_long(s, st, next)?;
                    s.pc = v & MASK24;
                    st.cycles.push((J, 2, aa as u32));
                    st.cycles.push((K, 2, sp));
                }
            }
        }
        Insn::Rts => {
            let sp = s.er[7] & MASK24;
            let v = s.read(st, sp, 4, AccKind::Stack)?;
            s.er[7] = s.er[7].wrapping_add(4);
            s.pc = v & MASK24;
            if v & 1 != 0 {
                st.outcome = Outcome::Unspecified("odd branch target");
            }
            st.cycles.push((K, 2, sp));
            st.cycles.push((N, 2, own));
        }
        Insn::Rte => {
            let sp = s.er[7] & MASK24;
            let v = s.read(st, sp, 4, AccKind::Stack)?;
            s.er[7] = s.er[7].wrapping_add(4);
            s.ccr = (v >> 24) as u8;
            s.pc = v & MASK24;
            if v & 1 != 0 {
                st.outcome = Outcome::Unspecified("odd branch target");
            }
            st.cycles.push((K, 2, sp));
            st.cycles.push((N, 2, own));
        }
        Insn::Trapa(0) => return mes_call(s, st, own),
        Insn::Trapa(nn) => {
            let vec = 4 * (8 + nn as u32);
            exception_entry(s, st, vec, next)?;
            let sp = s.er[7] & MASK24;
            st.cycles.push((J, 2, vec));
            st.cycles.push((K, 2, sp));
            st.cycles.push((N, 4, own));
        }
        Insn::StcB { d } => {
            let c = s.ccr as u32;
            s.set_reg(Sz::B, d, c);
        }
        Insn::StcW { ea } => {
            let a;
            if let (Ea::Pre(r), true) = (ea, q(Quirk::StcWordPostInc)) {
                // quirk: access at the un-decremented address, then add 2
                a = s.er[r as usize] & MASK24;
                s.er[r as usize] = s.er[r as usize].wrapping_add(2);
                st.quirks_fired.push(Quirk::StcWordPostInc);
            } else {
                a = s.ea(ea, Sz::W);
            }
            // which byte of the word carries CCR is not constrained (DESIGN 1.3): both bytes are
            // written, their values are masked from the comparison
            let c = s.ccr as u32;
            s.write(st, a, 2, (c << 8) | c, AccKind::Data)?;
            st.dont_care_mem.push(a);
            st.dont_care_mem.push(a.wrapping_add(1));
            match ea {
                Ea::Pre(_) => {
                    st.cycles.push((M, 1, a));
                    st.cycles.push((N, 2, own));
                }
                _ => st.cycles.push((M, 1, a)),
            }
        }
    }
    Ok(())
}

/// PC-relative targets that are odd or leave the 24-bit address space are outside every property's
/// quantifier (C05: even displacements between mapped code positions)
fn bad_target(t: u32) -> Option<&'static str> {
    if t & 1 != 0 {
        Some("odd branch target")
    } else if t > MASK24 {
        Some("PC-relative target wraps around the address space")
    } else {
        None
    }
}

fn overlaps(_sz: Sz, _r: u8) -> bool {
    // any view of ERn overlaps ERn used as the address register
    true
}

fn mov_cycles(st: &mut Step, sz: Sz, ea: Ea, a: u32, own: u32) {
    use Kind::*;
    match sz {
        Sz::B => st.cycles.push((L, 1, a)),
        Sz::W => st.cycles.push((M, 1, a)),
        Sz::L => st.cycles.push((M, 2, a)),
    }
    if matches!(ea, Ea::Post(_) | Ea::Pre(_)) {
        st.cycles.push((N, 2, own));
    }
}

/// push a 4-byte frame whose low 24 bits are `value`; the top byte is not constrained
fn push_long(s: &mut RefState, st: &mut Step, value: u32) -> Result<u32, Fault> {
    s.er[7] = s.er[7].wrapping_sub(4);
    let sp = s.er[7] & MASK24;
    s.write(st, sp, 4, value & MASK24, AccKind::Stack)?;
    st.dont_care_mem.push(sp);
    Ok(sp)
}

/// exception entry (TRAPA #1-3, interrupt): frame = CCR:PC24, I := 1 (UI not constrained), PC := vector
pub fn exception_entry(s: &mut RefState, st: &mut Step, vec_addr: u32, ret: u32) -> Result<(), Fault> {
    s.er[7] = s.er[7].wrapping_sub(4);
    let sp = s.er[7] & MASK24;
    let frame = ((s.ccr as u32) << 24) | (ret & MASK24);
    s.write(st, sp, 4, frame, AccKind::Stack)?;
    let v = s.read(st, vec_addr, 4, AccKind::Vector)?;
    s.pc = v & MASK24;
    s.ccr |= F_I;
    st.dont_care_ccr |= F_UI;
    Ok(())
}

/// The reference for the acceptance of interrupt `vector` at an instruction boundary.
pub fn interrupt_entry(s: &mut RefState, vector: u8) -> Step {
    let mut st = Step {
        outcome: Outcome::Ok,
        decoded: Decoded { class: Class::Undef, len: 0 },
        accesses: vec![],
        dont_care_mem: vec![],
        dont_care_reg: [0; 8],
        dont_care_ccr: 0,
        events: vec![],
        cycles: vec![],
        quirks_fired: vec![],
    };
    let ret = s.pc;
    if let Err(Fault(a)) = exception_entry(s, &mut st, 4 * vector as u32, ret) {
        st.outcome = Outcome::AccessFault(a);
    }
    st
}

/// TRAPA #0: the MES system calls the emulator services itself (property C14).
fn mes_call(s: &mut RefState, st: &mut Step, own: u32) -> Result<(), Fault> {
    use Kind::*;
    let sp = s.er[7] & MASK24;
    st.cycles.push((K, 2, sp));
    st.cycles.push((N, 4, own));
    match s.er[0] {
        104 => {
            let p = s.er[1];
            let _fd = s.read(st, p, 4, AccKind::Data)?;
            let buf = s.read(st, p.wrapping_add(4), 4, AccKind::Data)?;
            let len = s.read(st, p.wrapping_add(8), 4, AccKind::Data)?;
            let mut bytes = Vec::new();
            for i in 0..len {
                let a = buf.wrapping_add(i);
                if a > MASK24 {
                    return Err(Fault(a));
                }
                bytes.push(s.read(st, a, 1, AccKind::Data)? as u8);
                if bytes.len() > (1 << 22) {
                    return Err(Fault(a));
                }
            }
            st.events.push(Event::Stdout(bytes));
        }
        113 => {
            let p = s.er[1];
            let vecn = s.read(st, p, 4, AccKind::Data)?;
            let addr = s.read(st, p.wrapping_add(4), 4, AccKind::Data)?;
            if (1..64).contains(&vecn) {
                s.write(st, 4 * vecn, 4, addr & MASK24, AccKind::Vector)?;
                st.dont_care_mem.push(4 * vecn);
                // MES also keeps a per-vector GOT save word; not part of the property (masked)
                let g = 0xfffd10 + 4 * vecn;
                for i in 0..4 {
                    st.dont_care_mem.push(g + i);
                }
            }
        }
        other => st.outcome = Outcome::Reject(format!("unsupported MES call {}", other)),
    }
    Ok(())
}

/// Property C19's cost rule for one bus cycle of `kind` at `addr` under the given bus-controller bytes.
#[derive(Clone, Copy, Debug, PartialEq, Eq, Hash)]
pub struct BusCfg {
    pub abwcr: u8,
    pub astcr: u8,
    pub wcrh: u8,
    pub wcrl: u8,
    pub drcra: u8,
}
impl BusCfg {
    /// the values `Cpu::run()` programs before starting a guest
    pub const RUN_DEFAULT: BusCfg = BusCfg { abwcr: 0xff, astcr: 0xfb, wcrh: 0xff, wcrl: 0xcf, drcra: 0xe0 };
    pub const ZERO: BusCfg = BusCfg { abwcr: 0, astcr: 0, wcrh: 0, wcrl: 0, drcra: 0 };
}
pub fn cycle_cost(kind: Kind, addr: u32, cfg: &BusCfg) -> Option<u32> {
    if kind == Kind::N {
        return Some(1);
    }
    let addr = addr & MASK24;
    if (0xffbf20..=0xffff1f).contains(&addr) {
        return Some(2);
    }
    if (0xfee000..=0xfee0ff).contains(&addr) || (0xffff20..=0xffffe9).contains(&addr) {
        return None; // on-chip I/O registers: excluded (documented TODO)
    }
    let area = (addr >> 21) as u8;
    let eight_bit = (cfg.abwcr >> area) & 1 == 1;
    let waits = if area < 4 { (cfg.wcrl >> (2 * area)) & 3 } else { (cfg.wcrh >> (2 * (area - 4))) & 3 } as u32;
    let dras = cfg.drcra >> 5;
    let dram = match area {
        2 => dras >= 1,
        3..=5 => {
            if dras >= 2 {
                return None; // outside the property's quantifier
            }
            false
        }
        _ => false,
    };
    let per_access = if dram {
        4 + waits
    } else if (cfg.astcr >> area) & 1 == 0 {
        2
    } else {
        3 + waits
    };
    let word_kind = matches!(kind, Kind::I | Kind::J | Kind::K | Kind::M);
    let accesses = if eight_bit && word_kind { 2 } else { 1 };
    Some(per_access * accesses)
}

pub fn total_cost(cycles: &[(Kind, u32, u32)], cfg: &BusCfg) -> Option<u32> {
    let mut t = 0;
    for &(k, n, a) in cycles {
        t += n * cycle_cost(k, a, cfg)?;
    }
    Some(t)
}
