pub mod exec;
pub mod insn;
