//! C10 - interrupts are delivered exactly once, only when unmasked, between instructions.

use crate::cpu::verif_hooks as hooks;
use crate::engine::emu::*;
use crate::engine::program::Prog;
use crate::engine::run::*;
use crate::engine::stats::*;
use crate::engine::stepcase::PreImage;
use crate::gen::*;
use crate::refmodel::exec::{self as rx, BusCfg, Outcome, RefState, F_I, MASK24};
use crate::refmodel::insn::*;
use serde_json::{json, Map, Value};
use std::collections::{BTreeMap, BTreeSet, HashMap};

const P: &str = "C10";

#[derive(Clone, Debug)]
pub struct Layout {
    pub code: u32,
    pub handlers: u32,
    pub counters: u32,
    pub data: u32,
    pub stack_top: u32,
    pub stop: u32,
}
impl Layout {
    pub fn handler(&self, v: u8) -> u32 {
        self.handlers + 0x40 * v as u32
    }
    pub fn counter(&self, v: u8) -> u32 {
        self.counters + 4 * v as u32
    }
}

#[derive(Clone, Debug)]
pub struct Guest {
    pub prog: Prog,
    pub lay: Layout,
    /// vectors that have an interrupt handler
    pub vectors: Vec<u8>,
    pub nested: bool,
    /// Some(n): the tail runs long enough to drain a burst of n requests
    pub big: Option<u32>,
}

fn emit(v: &mut Vec<u8>, i: Insn) {
    v.extend(encode(&i));
}
const PUSH_ER0: [u8; 4] = [0x01, 0x00, 0x6d, 0xf0];
const POP_ER0: [u8; 4] = [0x01, 0x00, 0x6d, 0x70];

/// "set CCR to c and continue at `next`": MOV.L #(c<<24|next),ERr ; PUSH.L ERr ; RTE
fn trampoline(v: &mut Vec<u8>, here: u32, c: u8, r: u8) {
    let next = here + 6 + 4 + 2;
    emit(v, Insn::MovImm { sz: Sz::L, imm: ((c as u32) << 24) | next, d: r });
    emit(v, Insn::Store { sz: Sz::L, s: r, ea: Ea::Pre(7) });
    emit(v, Insn::Rte);
}

pub fn arith(e: &mut Ent) -> Insn {
    let r = |e: &mut Ent| e.below(5) as u8; // ER0-ER4 (ER5 loop counter, ER6 trampoline scratch, ER7 SP)
    match e.below(9) {
        0 => Insn::MovImm { sz: Sz::L, imm: e.val32(), d: r(e) },
        1 => Insn::Alu { op: e.pick(&[AluOp::Add, AluOp::Sub, AluOp::Cmp, AluOp::Xor, AluOp::And, AluOp::Or]), sz: Sz::W, src: Src::Imm(e.u16() as u32), d: r(e) + if e.chance(1, 2) { 8 } else { 0 } },
        2 => Insn::Alu { op: e.pick(&[AluOp::Add, AluOp::Sub, AluOp::Cmp]), sz: Sz::L, src: Src::Reg(r(e)), d: r(e) },
        3 => Insn::Un { op: e.pick(&[UnOp::Neg, UnOp::Not, UnOp::Shlr, UnOp::Rotxl, UnOp::Rotr, UnOp::Inc1, UnOp::Dec1]), sz: Sz::L, d: r(e) },
        4 => Insn::Alu { op: e.pick(&[AluOp::Add, AluOp::Cmp, AluOp::Or, AluOp::Xor]), sz: Sz::B, src: Src::Imm(e.u8() as u32), d: r(e) + if e.chance(1, 2) { 8 } else { 0 } },
        5 => Insn::Addx { src: Src::Imm(e.u8() as u32), d: r(e) + 8 },
        6 => Insn::Mulxu { sz: Sz::B, s: r(e), d: r(e) },
        7 => Insn::Bit { op: e.pick(&[BitOp::Bset, BitOp::Bnot, BitOp::Bld, BitOp::Bxor, BitOp::Btst]), sel: BitSel::Imm(e.below(8) as u8), tgt: BitTgt::Reg(r(e)) },
        _ => Insn::MovRR { sz: Sz::W, s: r(e), d: r(e) + 8 },
    }
}

pub fn build_guest(e: &mut Ent) -> Guest {
    let in_ram = e.chance(1, 2);
    let lay = if in_ram {
        Layout { code: 0xffc000, handlers: 0xffd000, counters: 0xffe800, data: 0xffea00, stack_top: 0xfff800, stop: 0xffcffc }
    } else {
        let b = 0x420000 + 0x10000 * e.below(0x18);
        Layout { code: b, handlers: b + 0x2000, counters: b + 0x4000, data: b + 0x5000, stack_top: b + 0x9000, stop: b + 0x1ffc }
    };
    let nested = e.chance(1, 3);
    // interrupt vectors with handlers (9-11 belong to TRAPA #1-3)
    let mut vectors: Vec<u8> = vec![];
    let nv = 1 + e.below(8);
    while (vectors.len() as u32) < nv {
        let v = 1 + e.below(63) as u8;
        if !(9..=11).contains(&v) && !vectors.contains(&v) {
            vectors.push(v);
        }
    }
    let mut image: Vec<(u32, Vec<u8>)> = vec![];
    // vector table: every vector points at its own handler slot (top byte arbitrary)
    for v in 1..64u8 {
        let h = lay.handler(v);
        image.push((4 * v as u32, vec![if e.chance(1, 2) { 0 } else { 0x5a }, (h >> 16) as u8, (h >> 8) as u8, h as u8]));
    }
    for &v in &vectors {
        let mut h: Vec<u8> = vec![];
        let at = lay.handler(v);
        h.extend(PUSH_ER0);
        emit(&mut h, Insn::Load { sz: Sz::L, ea: Ea::A24(lay.counter(v)), d: 0 });
        emit(&mut h, Insn::Un { op: UnOp::Inc1, sz: Sz::L, d: 0 });
        emit(&mut h, Insn::Store { sz: Sz::L, s: 0, ea: Ea::A24(lay.counter(v)) });
        if nested && e.chance(1, 2) {
            // re-enable interrupts inside the handler (after the counter's read-modify-write, which
            // must not be interrupted by the same handler)
            let c = e.u8() & !F_I;
            let here = at + h.len() as u32;
            trampoline(&mut h, here, c, 0);
            emit(&mut h, Insn::MovRR { sz: Sz::B, s: 8, d: 8 });
        }
        h.extend(POP_ER0);
        emit(&mut h, Insn::Rte);
        assert!(h.len() <= 0x40);
        image.push((at, h));
        image.push((lay.counter(v), vec![0, 0, 0, 0]));
    }
    // trap handlers: touch ER4, return
    for n in 1..=3u8 {
        let mut h: Vec<u8> = vec![];
        emit(&mut h, Insn::Alu { op: AluOp::Add, sz: Sz::B, src: Src::Imm(n as u32), d: 12 });
        emit(&mut h, Insn::Rte);
        image.push((lay.handler(8 + n), h));
    }
    // leaf functions
    let nleaf = 1 + e.below(3);
    let leaf_base = lay.code + 0xc00;
    for k in 0..nleaf {
        let mut f: Vec<u8> = vec![];
        for _ in 0..1 + e.below(4) {
            emit(&mut f, arith(e));
        }
        emit(&mut f, Insn::Rts);
        image.push((leaf_base + 0x40 * k, f));
    }
    // main
    let mut m: Vec<u8> = vec![];
    let nitems = 3 + e.below(14);
    for _ in 0..nitems {
        let here = lay.code + m.len() as u32;
        match e.below(10) {
            0..=3 => {
                for _ in 0..1 + e.below(4) {
                    emit(&mut m, arith(e));
                }
            }
            4 => {
                let a = lay.data + 4 * e.below(0x40);
                emit(&mut m, Insn::Store { sz: Sz::L, s: e.below(5) as u8, ea: Ea::A24(a) });
                emit(&mut m, Insn::Load { sz: Sz::W, ea: Ea::A24(a + 2 * e.below(2)), d: e.below(5) as u8 });
            }
            5 => {
                // counted loop on R5H
                emit(&mut m, Insn::MovImm { sz: Sz::B, imm: 1 + e.below(5), d: 5 });
                let top = m.len();
                for _ in 0..1 + e.below(3) {
                    emit(&mut m, arith(e));
                }
                emit(&mut m, Insn::Un { op: UnOp::Dec1, sz: Sz::B, d: 5 });
                let disp = top as i32 - (m.len() as i32 + 2);
                emit(&mut m, Insn::Bcc { cond: 6, disp, wide: false });
            }
            6 => {
                let k = e.below(nleaf);
                emit(&mut m, Insn::Jsr(JTarget::Abs(leaf_base + 0x40 * k)));
            }
            7 | 8 => trampoline(&mut m, here, e.u8(), 6),
            _ => emit(&mut m, Insn::Trapa(1 + e.below(3) as u8)),
        }
    }
    // tail: interrupts enabled, long enough to drain every pending request
    let here = lay.code + m.len() as u32;
    trampoline(&mut m, here, e.u8() & !F_I, 6);
    for _ in 0..90 {
        emit(&mut m, Insn::MovRR { sz: Sz::B, s: 8, d: 8 });
    }
    // rare class: a burst of several hundred requests (sizes around 2^8 and 2^9) needs a longer tail
    // (only with handlers that keep interrupts masked: hundreds of nested frames would overflow the guest's stack)
    // - and, rarer, around 2^12 and 2^16 (the widths a queue bound or a 16-bit count would have)
    let big = if !nested && e.chance(1, 12) {
        Some(match e.below(64) {
            0 => e.pick(&[65535u32, 65536, 65537]),
            1..=6 => e.pick(&[4095u32, 4096, 4097, 4100, 5000]),
            _ => e.pick(&[255u32, 256, 257, 300, 511, 512, 513, 1000]),
        })
    } else {
        None
    };
    if let Some(n) = big {
        emit(&mut m, Insn::MovImm { sz: Sz::L, imm: n + 32, d: 5 });
        let top = m.len();
        emit(&mut m, Insn::Un { op: UnOp::Dec1, sz: Sz::L, d: 5 });
        let disp = top as i32 - (m.len() as i32 + 2);
        emit(&mut m, Insn::Bcc { cond: 6, disp, wide: false });
    }
    emit(&mut m, Insn::Jmp(JTarget::Abs(lay.stop)));
    assert!(m.len() < 0xc00);
    image.push((lay.code, m));
    let mut er = e.regfile();
    er[7] = lay.stack_top | if e.chance(1, 4) { e.upper_byte() } else { 0 };
    // main starts masked or unmasked
    let (ccr, bus) = (e.u8(), e.bus_cfg());
    image.extend(e.env_noise());
    let prog = Prog { image, er, ccr, pc: lay.code, bus };
    Guest { prog, lay, vectors, nested, big }
}

pub struct RunInfo {
    pub steps: usize,
    pub entries: usize,
    pub raised_while_masked: usize,
    pub max_pending: usize,
    pub final_er: [u32; 8],
    pub final_ccr: u8,
    /// final memory diff against the baseline
    pub mem: BTreeMap<u32, u8>,
    pub min_sp: u32,
}

/// Drive `try_interrupt(); step()` with injections; Err(detail) on violation.
pub fn run_guest(emu: &mut Emu, g: &Guest, schedule: &[(u32, u8)], max_steps: usize) -> Result<RunInfo, String> {
    let mut pre = PreImage { map: HashMap::new() };
    for (a, bytes) in &g.prog.image {
        for (i, b) in bytes.iter().enumerate() {
            pre.map.insert(a.wrapping_add(i as u32), *b);
        }
    }
    for (a, v) in [(ABWCR, g.prog.bus.abwcr), (ASTCR, g.prog.bus.astcr), (WCRH, g.prog.bus.wcrh), (WCRL, g.prog.bus.wcrl), (DRCRA, g.prog.bus.drcra)] {
        pre.map.insert(a, v);
    }
    for (&a, &v) in pre.map.iter() {
        emu.set_byte(a, v);
    }
    emu.set_bus_cfg(&g.prog.bus);
    emu.cpu.er = g.prog.er;
    emu.set_ccr(g.prog.ccr);
    emu.set_pc(g.prog.pc);
    emu.drain_pending();
    let _ = emu.drain_msgs();
    emu.clear_write_log();
    let mut s = RefState::new(&pre);
    s.er = g.prog.er;
    s.ccr = g.prog.ccr;
    s.pc = g.prog.pc;

    let handler_to_vec: HashMap<u32, u8> = (1..64u8).map(|v| (g.lay.handler(v), v)).collect();
    let mut pending: Vec<u8> = vec![];
    let mut requests: BTreeMap<u8, u32> = BTreeMap::new();
    let mut entries: BTreeMap<u8, u32> = BTreeMap::new();
    let mut sched: BTreeMap<u32, Vec<u8>> = BTreeMap::new();
    for &(k, v) in schedule {
        sched.entry(k).or_default().push(v);
    }
    let (mut raised_masked, mut max_pending, mut n_entries) = (0usize, 0usize, 0usize);
    let mut dont_care: BTreeSet<u32> = BTreeSet::new();
    let mut min_sp = g.prog.er[7] & MASK24;
    let mut result: Result<(), String> = Ok(());
    let mut steps = 0usize;
    let mut finished = false;
    'run: for iter in 0..max_steps as u32 {
        if let Some(vs) = sched.get(&iter) {
            for &v in vs {
                hooks::request_interrupt(&mut emu.cpu, v);
                pending.push(v);
                *requests.entry(v).or_insert(0) += 1;
                if s.ccr & F_I != 0 {
                    raised_masked += 1;
                }
            }
            max_pending = max_pending.max(pending.len());
        }
        // ---- the poll
        match emu.try_interrupt() {
            EmuResult::Ok(_) => {}
            other => {
                result = Err(format!("iteration {}: interrupt poll failed: {:?}", iter, other));
                break 'run;
            }
        }
        if emu.pc() != s.pc || emu.cpu.er[7] != s.er[7] || emu.ccr() != s.ccr {
            // an entry happened: which vector?
            let Some(&v) = handler_to_vec.get(&emu.pc()) else {
                result = Err(format!("iteration {}: the poll changed the context (PC {:06x} -> {:06x}) but did not enter a vector's handler", iter, s.pc, emu.pc()));
                break 'run;
            };
            if s.ccr & F_I != 0 {
                result = Err(format!("iteration {}: interrupt {} accepted while CCR.I is set (CCR {:02x}, PC {:06x})", iter, v, s.ccr, s.pc));
                break 'run;
            }
            match pending.iter().position(|p| *p == v) {
                Some(i) => {
                    pending.remove(i);
                }
                None => {
                    result = Err(format!("iteration {}: entered vector {} which is not pending (pending: {:?})", iter, v, pending));
                    break 'run;
                }
            }
            let st = rx::interrupt_entry(&mut s, v);
            if st.outcome != Outcome::Ok {
                result = Err(format!("iteration {}: generator error: entry faults in the reference", iter));
                break 'run;
            }
            n_entries += 1;
            *entries.entry(v).or_insert(0) += 1;
            for i in 0..8 {
                if emu.cpu.er[i] != s.er[i] {
                    result = Err(format!("iteration {}: after accepting interrupt {}: ER{} = {:08x}, expected {:08x}", iter, v, i, emu.cpu.er[i], s.er[i]));
                    break 'run;
                }
            }
            if (emu.ccr() ^ s.ccr) & !st.dont_care_ccr != 0 || emu.pc() != s.pc {
                result = Err(format!("iteration {}: after accepting interrupt {}: CCR {:02x} PC {:06x}, expected CCR {:02x} PC {:06x}", iter, v, emu.ccr(), emu.pc(), s.ccr, s.pc));
                break 'run;
            }
            s.ccr = emu.ccr();
            let sp = s.er[7] & MASK24;
            min_sp = min_sp.min(sp);
            for i in 0..4 {
                if raw_get(&emu.cpu.bus, sp + i) != s.peek(sp + i) {
                    result = Err(format!("iteration {}: frame byte {} of interrupt {} is {:02x?}, expected {:02x?}", iter, i, v, raw_get(&emu.cpu.bus, sp + i), s.peek(sp + i)));
                    break 'run;
                }
            }
        }
        // ---- one instruction on both sides
        let step = rx::step(&mut s, &[]);
        let res = emu.step();
        steps += 1;
        match (&step.outcome, &res) {
            (Outcome::Ok, EmuResult::Ok(_)) => {}
            (o, r) => {
                result = Err(format!("iteration {}: reference {:?}, emulator {:?} (generator should only produce executable instructions)", iter, o, r));
                break 'run;
            }
        }
        for i in 0..8 {
            if (emu.cpu.er[i] ^ s.er[i]) & !step.dont_care_reg[i] != 0 {
                result = Err(format!("iteration {}: {:?}: ER{} = {:08x}, expected {:08x}", iter, step.decoded.class, i, emu.cpu.er[i], s.er[i]));
                break 'run;
            }
        }
        if (emu.ccr() ^ s.ccr) & !step.dont_care_ccr != 0 || emu.pc() != s.pc {
            result = Err(format!("iteration {}: {:?}: CCR {:02x} PC {:06x}, expected CCR {:02x} PC {:06x}", iter, step.decoded.class, emu.ccr(), emu.pc(), s.ccr, s.pc));
            break 'run;
        }
        s.ccr = emu.ccr();
        for &a in &step.dont_care_mem {
            dont_care.insert(a);
            if let Some(v) = raw_get(&emu.cpu.bus, a) {
                s.poke(a, v);
            }
        }
        min_sp = min_sp.min(s.er[7] & MASK24);
        if s.pc == g.lay.stop {
            finished = true;
            break;
        }
    }
    let mut info = RunInfo { steps, entries: n_entries, raised_while_masked: raised_masked, max_pending, final_er: emu.cpu.er, final_ccr: emu.ccr(), mem: BTreeMap::new(), min_sp };
    if result.is_ok() && !finished {
        result = Err(format!("program did not reach its end within {} steps", max_steps));
    }
    if result.is_ok() {
        if !pending.is_empty() || hooks::pending_interrupts(&emu.cpu) != 0 {
            result = Err(format!("requests {:?} were never delivered although the program ran {} instructions with interrupts enabled at its end ({} still queued in the controller)", pending, 90, hooks::pending_interrupts(&emu.cpu)));
        }
    }
    if result.is_ok() {
        for (&v, &n) in &requests {
            let a = g.lay.counter(v);
            let c = (0..4).fold(0u32, |acc, i| (acc << 8) | raw_get(&emu.cpu.bus, a + i).unwrap_or(0) as u32);
            if c != n || entries.get(&v).copied().unwrap_or(0) != n {
                result = Err(format!("vector {}: requested {} times, entered {} times, its handler counted {}", v, n, entries.get(&v).copied().unwrap_or(0), c));
                break;
            }
        }
    }
    // final memory: emulator == reference
    let windows = crate::engine::stepcase::merge_windows(pre.map.keys().chain(s.overlay.keys()).map(|a| crate::engine::stepcase::win(*a)).collect());
    let d_emu = emu.diff(&windows, false);
    if result.is_ok() {
        let mut d_ref: BTreeMap<u32, u8> = BTreeMap::new();
        for (&a, &v) in pre.map.iter() {
            if v != baseline_byte(a) {
                d_ref.insert(a, v);
            }
        }
        for (&a, &v) in s.overlay.iter() {
            if v != baseline_byte(a) {
                d_ref.insert(a, v);
            } else {
                d_ref.remove(&a);
            }
        }
        let keys: BTreeSet<u32> = d_ref.keys().chain(d_emu.keys()).copied().collect();
        for a in keys {
            if dont_care.contains(&a) {
                continue;
            }
            let e = d_ref.get(&a).copied().unwrap_or_else(|| baseline_byte(a));
            let o = d_emu.get(&a).copied().unwrap_or_else(|| baseline_byte(a));
            if e != o {
                result = Err(format!("final memory[{:06x}]: expected {:02x} observed {:02x}", a, e, o));
                break;
            }
        }
    }
    info.mem = d_emu.clone();
    emu.restore(pre.map.keys());
    emu.restore(d_emu.keys());
    let log: Vec<u32> = emu.cpu.bus.verif_write_log.clone();
    emu.restore(log.iter());
    emu.drain_pending();
    result.map(|_| info)
}

fn build_schedule(e: &mut Ent, g: &Guest, base_len: usize) -> Vec<(u32, u8)> {
    let n = match e.below(5) {
        0 => 0,
        1 => 1 + e.below(3),
        _ => 1 + e.below(64),
    };
    let horizon = (base_len.saturating_sub(60 + g.big.map(|n| 2 * n as usize + 64).unwrap_or(0))).max(4) as u32;
    let mut out = vec![];
    if let Some(nb) = g.big {
        // the burst: nb requests of one vector at one boundary
        let k = e.below(horizon);
        let v = e.pick(&g.vectors);
        let mixed = e.chance(1, 3);
        for i in 0..nb {
            // one vector (a run of identical requests) or all of the guest's vectors in rotation
            out.push((k, if mixed { g.vectors[i as usize % g.vectors.len()] } else { v }));
        }
    }
    let mut burst_at = e.below(horizon);
    for _ in 0..n {
        let k = match e.below(4) {
            0 => burst_at, // bursts at one boundary
            1 => {
                burst_at = e.below(horizon);
                burst_at
            }
            _ => e.below(horizon),
        };
        out.push((k, e.pick(&g.vectors)));
    }
    out
}

fn case_json(g: &Guest, sched: &[(u32, u8)]) -> Value {
    json!({"kind": "interrupt-program", "prog": g.prog.to_json(), "layout": [g.lay.code, g.lay.handlers, g.lay.counters, g.lay.data, g.lay.stack_top, g.lay.stop], "vectors": g.vectors, "nested": g.nested, "schedule": sched})
}
fn case_from_json(v: &Value) -> Option<(Guest, Vec<(u32, u8)>)> {
    let l = v.get("layout")?.as_array()?;
    let g = |i: usize| l.get(i).and_then(|x| x.as_u64()).unwrap_or(0) as u32;
    let lay = Layout { code: g(0), handlers: g(1), counters: g(2), data: g(3), stack_top: g(4), stop: g(5) };
    let vectors = v.get("vectors")?.as_array()?.iter().filter_map(|x| x.as_u64().map(|x| x as u8)).collect();
    let sched: Vec<(u32, u8)> = v.get("schedule")?.as_array()?.iter().filter_map(|p| Some((p.get(0)?.as_u64()? as u32, p.get(1)?.as_u64()? as u8))).collect();
    Some((Guest { prog: Prog::from_json(v.get("prog")?)?, lay, vectors, nested: v.get("nested")?.as_bool()?, big: if sched.len() > 200 { Some(sched.len() as u32) } else { None } }, sched))
}

/// the full judgement of one (guest, schedule): lockstep run with the schedule, run without, metamorphic compare
pub fn judge(emu: &mut Emu, g: &Guest, sched: &[(u32, u8)]) -> Result<(RunInfo, RunInfo), String> {
    let extra = g.big.map(|n| n as usize).unwrap_or(0);
    let base = run_guest(emu, g, &[], 6000 + 3 * extra).map_err(|m| format!("without interrupts: {}", m))?;
    let with = run_guest(emu, g, sched, 80000 + 24 * extra)?;
    // apart from handler effects the program computes the same result
    if with.final_er != base.final_er || with.final_ccr != base.final_ccr {
        return Err(format!("final registers/CCR differ from the run without interrupts: {:08x?}/{:02x} vs {:08x?}/{:02x}", with.final_er, with.final_ccr, base.final_er, base.final_ccr));
    }
    let dead_lo = with.min_sp.min(base.min_sp).saturating_sub(8);
    let final_sp = base.final_er[7] & MASK24;
    let skip = |a: u32| (a >= g.lay.counters && a < g.lay.counters + 0x100) || (a >= dead_lo && a < final_sp);
    let keys: BTreeSet<u32> = with.mem.keys().chain(base.mem.keys()).copied().collect();
    for a in keys {
        if skip(a) {
            continue;
        }
        if with.mem.get(&a) != base.mem.get(&a) {
            return Err(format!("memory[{:06x}] differs from the run without interrupts: {:02x?} vs {:02x?}", a, with.mem.get(&a), base.mem.get(&a)));
        }
    }
    Ok((base, with))
}

pub fn run(ctx: &Ctx) -> i32 {
    if let Some(v) = &ctx.replay {
        if crate::checks::soup::is_soup_replay(v) {
            return crate::checks::soup::replay(ctx, P, v);
        }
        let case = v.get("case").unwrap_or(v);
        let Some((g, sched)) = case_from_json(case) else { return 2 };
        let mut emu = Emu::new(&ctx.base);
        return match judge(&mut emu, &g, &sched) {
            Ok(_) => {
                println!("replay {}: passes", P);
                0
            }
            Err(m) => {
                let f = Failure { signature: "interrupt program".into(), detail: m, case: case.clone() };
                let p = write_replay(P, &f);
                println!("VIOLATION property={} replay={}", P, p.display());
                println!("  detail: {}", f.detail);
                1
            }
        };
    }
    let tier = ctx.tier;
    let n: u32 = tier.pick(100_000, 2_000_000);
    let nshards = 64usize;
    let mut stats = par_shards(ctx, nshards, |shard| {
        let w = Worker::new(ctx);
        let ent = entropy_n(900);
        // a failing case with a burst of thousands of entries costs up to seconds per evaluation: shrinking is
        // bounded by effort (iterations and wall clock) - that only limits how small the replay file gets
        set_shrink_iters(300);
        set_shrink_time_ms(20_000);
        let _ = run_prop(mix(ctx.seed, 0x1001_0000 + shard as u64), n / nshards as u32, &ent, |raw, shrinking| {
            let mut e = Ent::new(raw);
            let g = build_guest(&mut e);
            // the schedule's horizon needs the length of the undisturbed run
            let mut emu = w.emu.borrow_mut();
            let base_len = match run_guest(&mut emu, &g, &[], 6000 + 3 * g.big.map(|n| n as usize).unwrap_or(0)) {
                Ok(i) => i.steps,
                Err(_) => 200,
            };
            let sched = build_schedule(&mut e, &g, base_len);
            let r = judge(&mut emu, &g, &sched);
            let mut st = w.stats.borrow_mut();
            match r {
                Ok((base, with)) => {
                    if !shrinking {
                        st.evaluations += 1;
                        st.class_n("instructions executed", (base.steps + with.steps) as u64);
                        st.class_n("interrupt entries", with.entries as u64);
                        if g.nested {
                            st.class("program with handlers that re-enable interrupts (nesting)");
                        }
                        if g.big.is_some() {
                            st.class("schedule with a burst of 255-65537 requests");
                        }
                        let nt = with.raised_while_masked >= 1 || with.max_pending >= 2;
                        if with.raised_while_masked >= 1 {
                            st.class("schedule with a request raised while I = 1");
                        }
                        if with.max_pending >= 2 {
                            st.class("schedule with >= 2 requests pending at once");
                        }
                        if nt {
                            st.nontrivial(key_hash(&(&g.prog.image, &sched)), || json!({"schedule": format!("{:?}", &sched[..sched.len().min(20)]), "vectors": g.vectors, "nested": g.nested, "steps": with.steps, "entries": with.entries, "code": format!("{:06x}", g.lay.code)}));
                        }
                    }
                    Ok(())
                }
                Err(m) => {
                    let sig = format!("interrupt program | {}", fail_field(&m.splitn(2, ':').last().unwrap_or(&m).replace(|c: char| c.is_ascii_digit(), "")));
                    let f = Failure { signature: sig.clone(), detail: m, case: case_json(&g, &sched) };
                    if ctx.survey {
                        if !shrinking {
                            st.evaluations += 1;
                            st.survey_fail(f);
                        }
                        Ok(())
                    } else {
                        st.failures.clear();
                        st.fail(f);
                        Err(sig)
                    }
                }
            }
        });
        w.emu.borrow_mut().soft_reset();
        w.stats.into_inner()
    });
    let nt_frac = if stats.evaluations > 0 { stats.nontrivial_cases as f64 / stats.evaluations as f64 } else { 0.0 };
    let mut extra = Map::new();
    extra.insert("nontrivial_fraction".into(), json!(nt_frac));
    let rule = "cases = proptest-generated guest programs (main: straight-line arithmetic on registers/memory, counted loops, calls, TRAPA #1-3, 'set CCR' trampolines that mask and unmask interrupts; handlers for a random subset of vectors 1-63 that save a register, increment their own counter word, optionally re-enable interrupts (nesting), restore and RTE; a tail with interrupts enabled) plus a schedule of up to 64 (boundary, vector) injections incl. bursts at one boundary and during handlers. Driver = the run loop's order: poll, then one instruction; requests raised through the interrupt controller. Oracle = history invariants in lockstep with the reference: an entry is legal iff CCR.I was clear and the vector is in the model's pending multiset (order of simultaneously pending requests is free), its frame/PC/I effects are C06's; every instruction equals the reference step; at the end nothing is pending, every vector's handler ran exactly as often as it was requested (entry count and the guest-visible counter), and registers/CCR/memory outside counters and dead stack equal the same program run with an empty schedule (metamorphic). Non-trivial = a request raised while I = 1 or >= 2 pending at once; distinct by (program, schedule).";
    stats.merge(crate::checks::soup::phase_irq(ctx, P, crate::checks::soup::Flavor::All, ctx.tier.pick(200_000, 4_000_000), 0x10510000, false, true));
    let rule_soup = format!("{}{}", rule, crate::checks::soup::RULE_IRQ);
    let rule: &str = &rule_soup;
    finish(ctx, P, stats, rule, vec!["requests are raised synchronously (the emulator has no real asynchrony): injection points between instructions are the whole schedule space".into(), "bounded liveness: delivery is required by the end of a tail that runs 90 instructions with interrupts enabled".into()], extra)
}
