//! Generic shard driver for the single-step checks: enumerated sub-spaces (partitioned over the
//! shards, remaining dimensions drawn from proptest) followed by a shrinkable random product.

use crate::engine::run::*;
use crate::engine::stats::*;
use crate::engine::stepcase::*;
use crate::gen::*;
use serde_json::json;

/// One case in 24 starts at an odd PC (bit 0 is ignored by the fetch): the instruction must do exactly what
/// it does at the even address, or be refused with an error.
pub fn odd_pc(case: &mut StepCase, e: &mut Ent) {
    if case.irq.is_none() && e.chance(1, 24) {
        case.pc |= 1;
    }
}

/// One case in 16 is preceded, on the same emulator, by a step that *fails*: an operand word that cannot be
/// fetched (a multi-word prefix in the last word of DRAM / of the vector area), an unimplemented or undefined
/// opcode, a load / store / push / return through a pointer into unmapped space, an opcode fetch from unmapped
/// space, an unsupported MES call. Its result is not judged here; the case that follows must behave as usual.
pub fn failing_primer(case: &mut StepCase, e: &mut Ent) {
    if !e.chance(1, 16) {
        return;
    }
    const PREFIXES: [u16; 26] = [0x7c00, 0x7d00, 0x7d10, 0x7e80, 0x7f80, 0x0100, 0x0140, 0x01f0, 0x01c0, 0x01d0, 0x7800, 0x7810, 0x6a20, 0x6aa0, 0x6b20, 0x6ba0, 0x6a00, 0x5800, 0x7a00, 0x7900, 0x5e00, 0x5a00, 0x5c00, 0x6e00, 0x6f00, 0x7a10];
    const REJECTED: [u16; 16] = [0x0000, 0x0180, 0x0700, 0x0300, 0x0401, 0x0601, 0x0501, 0xb000, 0x1e00, 0x0f00, 0x1f00, 0x17d0, 0x17f0, 0x7b5c, 0x0200, 0x0101];
    const FAULTING: [u32; 12] = [0x6808, 0x6888, 0x6900, 0x6980, 0x6d70, 0x6df0, 0x5470, 0x5670, 0x5500, 0x5710, 0x5d00, 0x7d007000];
    const UNMAPPED: [u32; 6] = [0x0080_0000, 0x0000_0100, 0x0060_0000, 0x00ff_0000, 0xff00_0100, 0x00fe_e100];
    let reg = e.pick(&UNMAPPED);
    let w2 = |w: u16| vec![(w >> 8) as u8, w as u8];
    let p = match e.below(6) {
        0 | 1 => Primer { pc: e.pick(&[0x5ffffeu32, 0x0000fe]), code: w2(e.pick(&PREFIXES)), er: [reg; 8] },
        2 => {
            // the third word is missing
            let (a, b) = e.pick(&[(0x0100u16, 0x6b20u16), (0x0100, 0x6ba0), (0x7800, 0x6a20), (0x7800, 0x6aa0), (0x0140, 0x6b20), (0x0100, 0x7800), (0x01f0, 0x6400)]);
            let mut c = w2(a);
            c.extend(w2(b));
            Primer { pc: e.pick(&[0x5ffffcu32, 0x0000fc]), code: c, er: [reg; 8] }
        }
        3 if e.chance(1, 2) => {
            // complete multi-word encodings of instructions the emulator must refuse: refused or not, nothing of
            // them may linger (a prefix that is remembered, a mode that stays switched on)
            const REJECTED4: [u32; 12] = [0x01c0_5012, 0x01c0_5234, 0x01d0_5112, 0x01d0_5334, 0x0140_6900, 0x0140_6d00, 0x7b5c_598f, 0x7bd4_598f, 0x6a40_1234, 0x6ac0_1234, 0x0140_6f10, 0x01c0_50ff];
            Primer { pc: 0x5f0000 + 2 * e.below(0x100), code: e.pick(&REJECTED4).to_be_bytes().to_vec(), er: [e.pick(&[0x0050_0000u32, 0x00ff_e000, reg]); 8] }
        }
        3 => Primer { pc: 0x5f0000 + 2 * e.below(0x100), code: w2(e.pick(&REJECTED)), er: [reg; 8] },
        4 => {
            let c = e.pick(&FAULTING);
            let code = if c > 0xffff { c.to_be_bytes().to_vec() } else { w2(c as u16) };
            Primer { pc: 0x5f0000 + 2 * e.below(0x100), code, er: [reg; 8] }
        }
        _ => {
            if e.chance(1, 2) {
                // opcode fetch from unmapped space
                Primer { pc: e.pick(&[0x600000u32, 0x000100, 0x800000, 0xffffea]), code: vec![], er: [reg; 8] }
            } else {
                // MES call with an unsupported number
                Primer { pc: 0x5f0000 + 2 * e.below(0x100), code: vec![0x57, 0x00], er: [reg; 8] }
            }
        }
    };
    case.primer = Some(p);
}

/// One case in 6 whose instruction has a register-relative or absolute memory operand is preceded, on the same
/// emulator and with the same registers, by a *sibling* encoding: the same displacement number in the other width
/// (d:16 H'9000 means -H'7000, d:24 H'009000 means +H'9000), the same effective address through the other width,
/// @ERn <-> @(0,ERn), @aa:16 <-> @aa:24. Two encodings that look alike must not be mistaken for one another by
/// anything the implementation remembers between instructions.
pub fn sibling_primer(case: &mut StepCase, e: &mut Ent) {
    use crate::refmodel::insn::*;
    if case.primer.is_some() || case.irq.is_some() {
        return;
    }
    let Class::Impl(insn) = decode_bytes(&case.code).class else { return };
    let Some(ea) = insn.mem_ea() else { return };
    if !e.chance(1, 6) {
        return;
    }
    let k = e.below(3);
    let sib = match ea {
        Ea::D16(r, d) => match k {
            0 => Ea::D24(r, d as u32),                           // numerically equal, other meaning when bit 15 is set
            1 => Ea::D24(r, (d as i16 as i32 as u32) & 0xff_ffff), // same effective address
            _ => Ea::D16(r, d ^ 0x8000),
        },
        Ea::D24(r, d) => match k {
            0 => Ea::D16(r, d as u16),
            1 => Ea::D24(r, d ^ 0x80_0000),
            _ => Ea::D24(r, d ^ 0x00_8000),
        },
        Ea::Ind(r) => match k {
            0 => Ea::D16(r, 0),
            1 => Ea::D24(r, 0),
            _ => Ea::D16(r, 0xffff),
        },
        Ea::A16(a) => match k {
            0 => Ea::A24(a as u32),
            _ => Ea::A24((a as i16 as i32 as u32) & 0xff_ffff),
        },
        Ea::A24(a) => Ea::A16(a as u16),
        Ea::A8(a) => Ea::A16(a as u16),
        _ => return,
    };
    let sib_insn = match insn {
        Insn::Load { sz, d, .. } => Insn::Load { sz, ea: sib, d },
        Insn::Store { sz, s, .. } => Insn::Store { sz, s, ea: sib },
        Insn::StcW { .. } => Insn::StcW { ea: sib },
        // bit instructions have @ERd / @aa:8 only: a byte load through the sibling mode
        Insn::Bit { .. } => Insn::Load { sz: Sz::B, ea: sib, d: 0 },
        _ => return,
    };
    if matches!((sib_insn, sib), (Insn::Load { sz: Sz::L, .. }, Ea::A8(_)) | (Insn::Store { sz: Sz::L, .. }, Ea::A8(_))) {
        return;
    }
    let code = encode(&sib_insn);
    if !matches!(decode_bytes(&code).class, Class::Impl(_)) {
        return;
    }
    case.primer = Some(Primer { pc: case.pc & !1, code, er: case.er });
}

pub type Builder<'a, T> = &'a dyn Fn(&mut Ent) -> (StepCase, T);

pub struct Drive<'a, T> {
    pub ctx: &'a Ctx,
    pub property: &'a str,
    pub aspects: Aspects,
    pub salt: u64,
    pub nshards: usize,
    /// calls `emit(subspace name, builder)` once per enumerated combination
    pub enumerated: &'a (dyn Fn(&mut dyn FnMut(&str, Builder<T>)) + Sync),
    pub random_cases: u32,
    pub build_random: &'a (dyn Fn(&mut Ent) -> (StepCase, T) + Sync),
    pub classify: &'a (dyn Fn(&StepCase, &Judged, &T, &mut Stats) + Sync),
    /// use the quirks of every property's open findings (see StepEval::foreign_quirks_ok)
    pub all_quirks: bool,
}

impl<'a, T> Drive<'a, T> {
    pub fn run(&self) -> Stats {
        let ctx = self.ctx;
        let nshards = self.nshards;
        par_shards(ctx, nshards, |shard| {
            let w = Worker::new(ctx);
            let ev = if self.all_quirks { StepEval::new_all_quirks(ctx, self.property, self.aspects) } else { StepEval::new(ctx, self.property, self.aspects) };
            let mut runner = proptest_runner(mix(ctx.seed, self.salt + shard as u64), 1);
            let ent = entropy();
            let mut idx = 0usize;
            let mut stop = false;
            {
                let mut emit = |sub: &str, b: Builder<T>| {
                    idx += 1;
                    if stop || idx % nshards != shard {
                        return;
                    }
                    let raw = sample(&mut runner, &ent);
                    let mut e = Ent::new(&raw);
                    let (mut case, tag) = b(&mut e);
                    case.patches.extend(e.env_noise());
                    odd_pc(&mut case, &mut e);
                    failing_primer(&mut case, &mut e);
                    let failing = case.primer.is_some();
                    sibling_primer(&mut case, &mut e);
                    let mut st = w.stats.borrow_mut();
                    st.class_n(&format!("enumerated: {}", sub), 1);
                    if failing {
                        st.class("preceded by a failing step on the same emulator");
                    } else if case.primer.is_some() {
                        st.class("preceded by a sibling encoding (same registers) on the same emulator");
                    }
                    let r = ev.eval(&mut w.emu.borrow_mut(), &mut st, &case, true, &mut |c, j, s| (self.classify)(c, j, &tag, s));
                    if r.is_err() {
                        stop = true;
                    }
                };
                (self.enumerated)(&mut emit);
            }
            if !stop && self.random_cases > 0 {
                let per = (self.random_cases / nshards as u32).max(1);
                let fail = run_prop(mix(ctx.seed, self.salt + 0x8000 + shard as u64), per, &ent, |raw, shrinking| {
                    let mut e = Ent::new(raw);
                    let (mut case, tag) = (self.build_random)(&mut e);
                    case.patches.extend(e.env_noise());
                    odd_pc(&mut case, &mut e);
                    failing_primer(&mut case, &mut e);
                    let failing = case.primer.is_some();
                    sibling_primer(&mut case, &mut e);
                    let mut st = w.stats.borrow_mut();
                    if failing && !shrinking {
                        st.class("preceded by a failing step on the same emulator");
                    } else if case.primer.is_some() && !shrinking {
                        st.class("preceded by a sibling encoding (same registers) on the same emulator");
                    }
                    ev.eval(&mut w.emu.borrow_mut(), &mut st, &case, !shrinking, &mut |c, j, s| (self.classify)(c, j, &tag, s))
                });
                if let Some((raw, sig)) = fail {
                    // re-create the minimal case so that the replay file holds the shrunk input
                    let mut e = Ent::new(&raw);
                    let (mut case, _) = (self.build_random)(&mut e);
                    case.patches.extend(e.env_noise());
                    odd_pc(&mut case, &mut e);
                    failing_primer(&mut case, &mut e);
                    sibling_primer(&mut case, &mut e);
                    let mut st = w.stats.borrow_mut();
                    st.failures.retain(|f| f.signature != sig);
                    let _ = ev.eval(&mut w.emu.borrow_mut(), &mut st, &case, false, &mut |_, _, _| {});
                }
            }
            let clean = w.emu.borrow().dram_equals_baseline();
            let mut st = w.stats.into_inner();
            if !clean {
                st.fail(Failure {
                    signature: "stray DRAM write outside every compared window".into(),
                    detail: format!("shard {}: DRAM differs from the baseline after all cases were restored", shard),
                    case: json!({"kind": "shard", "shard": shard}),
                });
            }
            st
        })
    }
}
