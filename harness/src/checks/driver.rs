//! Generic shard driver for the single-step checks: enumerated sub-spaces (partitioned over the
//! shards, remaining dimensions drawn from proptest) followed by a shrinkable random product.

use crate::engine::run::*;
use crate::engine::stats::*;
use crate::engine::stepcase::*;
use crate::gen::*;
use serde_json::json;

/// One case in 24 starts at an odd PC (bit 0 is ignored by the fetch): the instruction must do exactly what
/// it does at the even address, or be refused with an error.
pub fn odd_pc(case: &mut StepCase, e: &mut Ent) {
    if case.irq.is_none() && e.chance(1, 24) {
        case.pc |= 1;
    }
}

pub type Builder<'a, T> = &'a dyn Fn(&mut Ent) -> (StepCase, T);

pub struct Drive<'a, T> {
    pub ctx: &'a Ctx,
    pub property: &'a str,
    pub aspects: Aspects,
    pub salt: u64,
    pub nshards: usize,
    /// calls `emit(subspace name, builder)` once per enumerated combination
    pub enumerated: &'a (dyn Fn(&mut dyn FnMut(&str, Builder<T>)) + Sync),
    pub random_cases: u32,
    pub build_random: &'a (dyn Fn(&mut Ent) -> (StepCase, T) + Sync),
    pub classify: &'a (dyn Fn(&StepCase, &Judged, &T, &mut Stats) + Sync),
    /// use the quirks of every property's open findings (see StepEval::foreign_quirks_ok)
    pub all_quirks: bool,
}

impl<'a, T> Drive<'a, T> {
    pub fn run(&self) -> Stats {
        let ctx = self.ctx;
        let nshards = self.nshards;
        par_shards(ctx, nshards, |shard| {
            let w = Worker::new(ctx);
            let ev = if self.all_quirks { StepEval::new_all_quirks(ctx, self.property, self.aspects) } else { StepEval::new(ctx, self.property, self.aspects) };
            let mut runner = proptest_runner(mix(ctx.seed, self.salt + shard as u64), 1);
            let ent = entropy();
            let mut idx = 0usize;
            let mut stop = false;
            {
                let mut emit = |sub: &str, b: Builder<T>| {
                    idx += 1;
                    if stop || idx % nshards != shard {
                        return;
                    }
                    let raw = sample(&mut runner, &ent);
                    let mut e = Ent::new(&raw);
                    let (mut case, tag) = b(&mut e);
                    case.patches.extend(e.env_noise());
                    odd_pc(&mut case, &mut e);
                    let mut st = w.stats.borrow_mut();
                    st.class_n(&format!("enumerated: {}", sub), 1);
                    let r = ev.eval(&mut w.emu.borrow_mut(), &mut st, &case, true, &mut |c, j, s| (self.classify)(c, j, &tag, s));
                    if r.is_err() {
                        stop = true;
                    }
                };
                (self.enumerated)(&mut emit);
            }
            if !stop && self.random_cases > 0 {
                let per = (self.random_cases / nshards as u32).max(1);
                let fail = run_prop(mix(ctx.seed, self.salt + 0x8000 + shard as u64), per, &ent, |raw, shrinking| {
                    let mut e = Ent::new(raw);
                    let (mut case, tag) = (self.build_random)(&mut e);
                    case.patches.extend(e.env_noise());
                    odd_pc(&mut case, &mut e);
                    let mut st = w.stats.borrow_mut();
                    ev.eval(&mut w.emu.borrow_mut(), &mut st, &case, !shrinking, &mut |c, j, s| (self.classify)(c, j, &tag, s))
                });
                if let Some((raw, sig)) = fail {
                    // re-create the minimal case so that the replay file holds the shrunk input
                    let mut e = Ent::new(&raw);
                    let (mut case, _) = (self.build_random)(&mut e);
                    case.patches.extend(e.env_noise());
                    odd_pc(&mut case, &mut e);
                    let mut st = w.stats.borrow_mut();
                    st.failures.retain(|f| f.signature != sig);
                    let _ = ev.eval(&mut w.emu.borrow_mut(), &mut st, &case, false, &mut |_, _, _| {});
                }
            }
            let clean = w.emu.borrow().dram_equals_baseline();
            let mut st = w.stats.into_inner();
            if !clean {
                st.fail(Failure {
                    signature: "stray DRAM write outside every compared window".into(),
                    detail: format!("shard {}: DRAM differs from the baseline after all cases were restored", shard),
                    case: json!({"kind": "shard", "shard": shard}),
                });
            }
            st
        })
    }
}
