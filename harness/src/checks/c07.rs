//! C07 - every opcode is executed as exactly the instruction it encodes, or rejected.

use super::common::*;
use super::driver::*;
use crate::engine::run::*;
use crate::engine::stats::*;
use crate::engine::stepcase::*;
use crate::gen::*;
use crate::refmodel::exec::Outcome;
use crate::refmodel::insn::*;
use serde_json::{json, Map};

const P: &str = "C07";

#[derive(Clone, Debug)]
pub struct Tag {
    pub words: [u16; 5],
}

/// register file for decode cases: a mixture of mapped (even) addresses, so that memory forms
/// execute, and arbitrary values
pub fn regfile(e: &mut Ent) -> [u32; 8] {
    let mut r = [0u32; 8];
    for x in r.iter_mut() {
        *x = match e.below(4) {
            0 | 1 => e.data_addr(&[Region::Ram, Region::Dram], 8, 2) | if e.chance(1, 4) { e.upper_byte() } else { 0 },
            _ => e.val32(),
        };
    }
    r
}

/// following-word variants: benign, zeros, ones, random
fn follow(e: &mut Ent, variant: u32) -> [u16; 4] {
    match variant {
        0 => [0, 0, 0, 0],
        1 => [0x6900 | ((e.below(8) as u16) << 4) | e.below(8) as u16, 0x00ff, 0xc000 | (e.u16() & 0x1ffe), e.u16()],
        2 => [0xffff, 0xffff, 0xffff, 0xffff],
        3 => [e.u16(), 0x00ff & e.u16(), e.u16() & !1, e.u16()],
        _ => [e.u16(), e.u16(), e.u16(), e.u16()],
    }
}

pub fn build(e: &mut Ent, words: [Option<u16>; 5], variant: u32) -> (StepCase, Tag) {
    let fw = follow(e, variant);
    let w0 = words[0].unwrap_or_else(|| e.u16());
    let mut w = [w0, fw[0], fw[1], fw[2], fw[3]];
    for i in 1..5 {
        if let Some(x) = words[i] {
            w[i] = x;
        }
    }
    let mut code = vec![];
    for x in w {
        code.push((x >> 8) as u8);
        code.push(x as u8);
    }
    let mut er = regfile(e);
    let avoid: Vec<u32> = er.to_vec();
    let pc = e.code_addr(12, &avoid);
    // self-reference: one register points into (or right next to) the instruction being executed, so a
    // memory operand, a pushed frame or a jump target coincides with the instruction's own words
    if e.chance(1, 6) {
        let k = e.below(8) as usize;
        er[k] = (pc as i64 + e.below(24) as i64 - 8).max(0) as u32 | if e.chance(1, 4) { e.upper_byte() } else { 0 };
    }
    let ccr = e.u8();
    let bus = e.bus_cfg();
    (StepCase { code, pc, er, ccr, patches: vec![], bus, irq: None, primer: None }, Tag { words: w })
}

fn classify(_case: &StepCase, j: &Judged, t: &Tag, stats: &mut Stats) {
    let (cls, nt) = match &j.step.decoded.class {
        Class::Impl(i) => {
            let multi = j.step.decoded.len > 2;
            let hi_reg = format!("{:?}", i).contains("s: 8")
                || match *i {
                    Insn::MovRR { s, d, .. } => s >= 8 || d >= 8,
                    Insn::Load { d, .. } => d >= 8,
                    Insn::Store { s, .. } => s >= 8,
                    Insn::Alu { src: Src::Reg(s), d, .. } => s >= 8 || d >= 8,
                    Insn::Alu { d, .. } | Insn::Un { d, .. } | Insn::MovImm { d, .. } => d >= 8,
                    Insn::Bit { sel: BitSel::Reg(r), .. } => r >= 8,
                    Insn::Bit { tgt: BitTgt::Reg(r), .. } => r >= 8,
                    _ => false,
                };
            let executed = matches!(j.step.outcome, Outcome::Ok);
            stats.class(if executed { "implemented encoding: executed and compared" } else { "implemented encoding: operand inaccessible (must fail)" });
            (format!("implemented: {}", i.form()), multi || hi_reg)
        }
        Class::Unimpl(m) => {
            stats.class("valid unimplemented encoding (must be rejected)");
            (format!("unimplemented: {}", m), true)
        }
        _ => ("other".into(), false),
    };
    stats.class(&cls);
    if nt {
        let n = (j.step.decoded.len / 2).max(1) as usize;
        let key = key_hash(&t.words[..n.min(3)].to_vec());
        stats.nontrivial(key, || json!({"words": t.words.iter().map(|w| format!("{:04x}", w)).collect::<Vec<_>>(), "decoded": format!("{:?}", j.step.decoded.class), "result": format!("{:?}", j.emu)}));
    }
}

/// first words that announce a second word which takes part in decoding: (label, first words)
pub fn prefixes(tier: Tier) -> Vec<(&'static str, Vec<u16>)> {
    let all_r = |base: u16| (0..16u16).map(|r| base | (r << 4)).collect::<Vec<u16>>();
    let some = |v: Vec<u16>| -> Vec<u16> {
        if tier == Tier::Thorough {
            v
        } else {
            // quick: one representative with a low and one with a high field value
            vec![v[0], v[v.len() - 1], v[v.len() / 3]]
        }
    };
    vec![
        ("0100 (MOV.L)", vec![0x0100]),
        ("0140 (LDC/STC.W)", vec![0x0140]),
        ("01F0 (logic.L)", vec![0x01f0]),
        ("01C0/01D0 (MULXS/DIVXS)", vec![0x01c0, 0x01d0]),
        ("78r0 (d:24)", some(all_r(0x7800))),
        ("7Cr0 (bit test @ERd)", some(all_r(0x7c00))),
        ("7Dr0 (bit modify @ERd)", some(all_r(0x7d00))),
        ("7Eaa (bit test @aa:8)", some(vec![0x7e00, 0x7e10, 0x7e1f, 0x7eff])),
        ("7Faa (bit modify @aa:8)", some(vec![0x7f00, 0x7f10, 0x7f1f, 0x7fff])),
        ("6A2x/6AAx/6B2x/6BAx (abs24)", vec![0x6a20, 0x6aa8, 0x6b2f, 0x6ba0]),
        ("7B.. (EEPMOV)", vec![0x7b5c, 0x7bd4]),
        ("0F0x/1F0x (DAA/DAS first words followed by anything)", vec![0x0f00, 0x0f08, 0x1f00, 0x1f07]),
    ]
}

pub fn run(ctx: &Ctx) -> i32 {
    if let Some(v) = &ctx.replay {
        if crate::checks::soup::is_soup_replay(v) {
            return crate::checks::soup::replay(ctx, P, v);
        }
        if let Some(code) = replay_fuzz(P, v) {
            return code;
        }
        return replay_step(ctx, P, v);
    }
    let tier = ctx.tier;
    let enumerated = |emit: &mut dyn FnMut(&str, Builder<Tag>)| {
        // (1) all 65,536 first words x following-word variants x register files
        for w0 in 0..=0xffffu32 {
            for variant in 0..4u32 {
                for _rf in 0..tier.pick(3, 16) {
                    emit("all 65536 first words x following-word variant x register file", &|e| build(e, [Some(w0 as u16), None, None, None, None], variant));
                }
            }
        }
        // (2) every multi-word prefix x all 65,536 second words
        for (label, firsts) in prefixes(tier) {
            let _ = label;
            for w0 in firsts {
                for w1 in 0..=0xffffu32 {
                    for variant in [1u32, 3] {
                        emit("multi-word prefix x all 65536 second words", &|e| build(e, [Some(w0), Some(w1 as u16), None, None, None], variant));
                    }
                }
            }
        }
        // (3) third words of the d:24 forms, enumerated over the opcode byte and the low byte
        let thirds: Vec<(u16, u16)> = vec![(0x0100, 0x7800), (0x0100, 0x7810), (0x0100, 0x7890), (0x0100, 0x78f0), (0x0140, 0x7800), (0x0140, 0x7830), (0x0140, 0x7880)];
        for (w0, w1) in thirds {
            for w2 in 0..=0xffffu32 {
                emit("0100/0140 78r0 x all 65536 third words", &|e| {
                    let w3 = e.u16() & 0x00ff;
                    build(e, [Some(w0), Some(w1), Some(w2 as u16), Some(w3), None], 3)
                });
            }
        }
        // (4) 24-bit address / displacement forms: all 256 values of the byte that must be zero
        for (w0, w1) in [(0x6a20u16, None), (0x6aa0, None), (0x6b20, None), (0x6ba0, None), (0x7810, Some(0x6a20u16)), (0x7810, Some(0x6ba1))] {
            for top in 0..256u32 {
                for _k in 0..8 {
                    emit("abs24/d:24 forms x reserved top byte", &|e| {
                        let lowbyte = e.u8() as u16;
                        match w1 {
                            None => build(e, [Some(w0), Some(((top as u16) << 8) | lowbyte), None, None, None], 3),
                            Some(w1) => build(e, [Some(w0), Some(w1), Some(((top as u16) << 8) | lowbyte), None, None], 3),
                        }
                    });
                }
            }
        }
    };
    let mut stats = Drive {
        ctx,
        property: P,
        aspects: Aspects::STATE,
        salt: 0x0701_0000,
        nshards: 64,
        enumerated: &enumerated,
        random_cases: tier.pick(3_000_000, 240_000_000),
        build_random: &|e| {
            // random: valid first word classes are dense enough that uniform words reach them
            let v = e.below(5);
            build(e, [None, None, None, None, None], v)
        },
        classify: &|c, j, t: &Tag, s| classify(c, j, t, s),
        all_quirks: true,
    }
    .run();
    stats.exhaustive_subspaces.insert("first words".into(), 65536);
    // form-balanced phase: uniform words give a multi-word control-flow form a few dozen cases; here every
    // instruction family's structured builder (the ones C01-C06, C08, C14 use: operands at region edges, frames
    // and operands overlapping the instruction itself, wrap classes...) feeds the decode question
    let none = |_: &mut dyn FnMut(&str, Builder<super::c20::Tag>)| {};
    let fstats = Drive {
        ctx,
        property: P,
        aspects: Aspects::STATE,
        salt: 0x0702_0000,
        nshards: 64,
        enumerated: &none,
        random_cases: tier.pick(2_000_000, 120_000_000),
        build_random: &|e| {
            let (mut c, t) = super::c20::build(e, None);
            c.bus = e.bus_cfg();
            (c, t)
        },
        classify: &|_c, j, t: &super::c20::Tag, s| {
            if matches!(j.step.outcome, Outcome::Ok) {
                s.class(&format!("form-balanced: {}", t.insn.form()));
            }
        },
        all_quirks: true,
    }
    .run();
    stats.merge(fstats);
    if tier == Tier::Thorough {
        fuzz_campaign(ctx, "fuzz_step", 8, 400_000, 64, &mut stats);
        fuzz_campaign(ctx, "fuzz_prog", 8, 300_000, 136, &mut stats);
    }
    stats.exhaustive_subspaces.insert("second words per multi-word prefix class".into(), 65536 * prefixes(tier).iter().map(|p| p.1.len() as u64).sum::<u64>());
    stats.exhaustive_subspaces.insert("third words of 0100/0140 78r0".into(), 65536 * 7);
    let mut extra = Map::new();
    extra.insert("oracle_selftest".into(), super::selftest::summary());
    extra.insert("decode_classes".into(), json!("Implemented -> must execute as that instruction with its encoded length (full-state comparison) or fail when its operand is inaccessible; ValidUnimplemented -> must return an error; Undefined (not in the conservative table) -> unconstrained, counted as skipped"));
    let rule = "cases = all 65,536 first instruction words x 4 following-word variants x generated register files; all 65,536 second words for every multi-word prefix class (0100, 0140, 01F0, 01C0/01D0, 78r0, 7Cr0-7Frr, abs24 forms, EEPMOV, 0F0x/1F0x); all third words of the 0100/0140 78r0 forms; the reserved top byte of 24-bit address/displacement words; plus random 5-word streams; plus a form-balanced phase in which the structured builders of every instruction family (MOV, arithmetic, logic/shift, bit, branch/jump/call/return, TRAPA/RTE, STC, MES trap) supply valid encodings with their special operand classes. Oracle = the reference decode table (exact encodings of DESIGN Appendix A): implemented -> Ok + exact length + full reference post-state; valid-but-unimplemented -> Err. Non-trivial = a valid unimplemented encoding, or an implemented encoding that is multi-word or names a register >= 8; distinct by the instruction's words.";
    stats.merge(crate::checks::soup::phase(ctx, P, crate::checks::soup::Flavor::All, ctx.tier.pick(300000, 6000000), 0x7510000, false));
    let rule_soup = format!("{}{}", rule, crate::checks::soup::RULE);
    let rule: &str = &rule_soup;
    finish(ctx, P, stats, rule, vec!["decode table transcribed from the H8/300H instruction-code table; validated against the 289 distinct encodings of the unit tests and the printf example's instruction trace (see oracle_selftest)".into()], extra)
}
