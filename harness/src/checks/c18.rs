//! C18 - control-socket lines apply exactly once, in order; outgoing messages are framed reversibly.

use super::c14::utf8_text;
use crate::cpu::{verif_hooks as hooks, Cpu};
use crate::engine::emu::guarded;
use crate::engine::run::*;
use crate::engine::stats::*;
use crate::engine::stdio::Redirect;
use crate::gen::*;
use crate::refmodel::insn::*;
use crate::socket::Socket;
use serde_json::{json, Map, Value};
use std::collections::BTreeMap;
use std::io::{Read, Write};
use std::sync::mpsc::{channel, Receiver, Sender};
use std::time::{Duration, Instant};

const P: &str = "C18";
const CODE: u32 = 0xffc000;
const FLAG: u32 = 0xffc100;

/// cells the lines may write (plain RAM / DRAM, away from the guest's code)
pub const POOL: [u32; 8] = [0xffd000, 0xffd001, 0xffe123, 0x400000, 0x5fffff, 0x4abcde, 0xffbf20, 0xffff1f];

fn echo_guest() -> Vec<u8> {
    // port B all outputs; loop: copy the flag byte to PBDR
    let mut c = vec![];
    c.extend(encode(&Insn::MovImm { sz: Sz::B, imm: 0xff, d: 8 }));
    c.extend(encode(&Insn::Store { sz: Sz::B, s: 8, ea: Ea::A24(0xfee00a) }));
    let top = c.len();
    c.extend(encode(&Insn::Load { sz: Sz::B, ea: Ea::A24(FLAG), d: 8 }));
    c.extend(encode(&Insn::Store { sz: Sz::B, s: 8, ea: Ea::A8(0xda) }));
    let disp = top as i32 - (c.len() as i32 + 2);
    c.extend(encode(&Insn::Bcc { cond: 0, disp, wide: false }));
    c
}

#[derive(Clone, Debug, Default, PartialEq)]
pub struct FinalState {
    pub cells: Vec<u8>,
    pub pins: Vec<u8>,
    pub ddr: Vec<u8>,
    pub dr: Vec<u8>,
    pub result: String,
}

/// reference interpreter of the line protocol
#[derive(Clone, Debug)]
pub struct Model {
    pub cells: BTreeMap<u32, u8>,
    pub latch: [u8; 11],
    pub ddr: [u8; 11],
    pub pins: [u8; 11],
    pub stopped: bool,
    /// per port: the sequence of distinct driven output values (changes only)
    pub outputs: Vec<(u8, u8)>,
    pub effective: usize,
}
fn hexfield<T: TryFrom<u64>>(s: &str, max_digits: usize) -> Option<T> {
    // what the statement calls <addr>/<value>/<port>: a non-empty string of hex digits that fits
    if s.is_empty() || !s.bytes().all(|b| b.is_ascii_hexdigit()) {
        return None;
    }
    let t = s.trim_start_matches('0');
    if t.len() > max_digits {
        return None;
    }
    let v = u64::from_str_radix(if t.is_empty() { "0" } else { t }, 16).ok()?;
    T::try_from(v).ok()
}
/// Lines whose effect the statement leaves open: a numeric field written with an explicit plus sign (`u8:ffd001:+6`).
/// Rust's integer parser accepts the sign, the statement says neither that such a field is well formed nor that it
/// is malformed - the harness does not send such lines (found by the libFuzzer target; the first version of the
/// model called them malformed and raised a false alarm).
pub fn unspecified_line(line: &str) -> bool {
    let f: Vec<&str> = line.split(':').collect();
    matches!(f[0], "u8" | "ioport") && f.len() == 3 && f[1..].iter().any(|x| x.starts_with('+'))
}

impl Model {
    pub fn new() -> Model {
        Model { cells: BTreeMap::new(), latch: [0; 11], ddr: [0; 11], pins: [0; 11], stopped: false, outputs: vec![], effective: 0 }
    }
    fn out(&self, p: usize) -> u8 {
        self.latch[p] & self.ddr[p]
    }
    pub fn apply(&mut self, line: &str) {
        if self.stopped {
            return;
        }
        let f: Vec<&str> = line.split(':').collect();
        match f[0] {
            "cmd" if f.len() == 2 => {
                if f[1] == "stop" {
                    self.stopped = true;
                    self.effective += 1;
                }
            }
            "u8" if f.len() == 3 => {
                let (Some(a), Some(v)) = (hexfield::<u32>(f[1], 8), hexfield::<u8>(f[2], 2)) else { return };
                match a {
                    0xfee000..=0xfee00a => {
                        let p = (a - 0xfee000) as usize;
                        let before = self.out(p);
                        self.ddr[p] = v;
                        if self.out(p) != before {
                            self.outputs.push((p as u8 + 1, self.out(p)));
                        }
                        self.effective += 1;
                    }
                    0xffffd0..=0xffffda => {
                        let p = (a - 0xffffd0) as usize;
                        let before = self.out(p);
                        self.latch[p] = v;
                        if self.out(p) != before {
                            self.outputs.push((p as u8 + 1, self.out(p)));
                        }
                        self.effective += 1;
                    }
                    _ => {
                        if crate::refmodel::exec::mapped(a) {
                            self.cells.insert(a, v);
                            self.effective += 1;
                        }
                    }
                }
            }
            "ioport" if f.len() == 3 => {
                let (Some(p), Some(v)) = (hexfield::<u8>(f[1], 2), hexfield::<u8>(f[2], 2)) else { return };
                if (1..=11).contains(&p) {
                    self.pins[p as usize - 1] = v;
                    self.effective += 1;
                }
            }
            _ => {}
        }
    }
    pub fn expect(&self) -> FinalState {
        FinalState {
            cells: POOL.iter().map(|a| self.cells.get(a).copied().unwrap_or(0)).collect(),
            pins: self.pins[..10].to_vec(),
            ddr: self.ddr[..10].to_vec(),
            dr: (0..10).map(|p| (self.latch[p] & self.ddr[p]) | (self.pins[p] & !self.ddr[p])).collect(),
            result: "Ok".into(),
        }
    }
}

/// collapse the ioport messages of ports 1-A into the sequence of output changes
fn output_changes(msgs: &[String]) -> Vec<(u8, u8)> {
    let mut last = [0u8; 11];
    let mut out = vec![];
    for m in msgs {
        let f: Vec<&str> = m.split(':').collect();
        if f.len() == 4 && f[0] == "ioport" {
            if let (Ok(p), Ok(v)) = (u8::from_str_radix(f[1], 16), u8::from_str_radix(f[2], 16)) {
                if (1..=10).contains(&p) && last[p as usize - 1] != v {
                    last[p as usize - 1] = v;
                    out.push((p, v));
                }
            }
        }
    }
    out
}

fn line_gen(e: &mut Ent) -> String {
    let hexv = |e: &mut Ent, v: u32| -> String {
        match e.below(6) {
            0 => format!("{:X}", v),
            1 => format!("{:04x}", v),
            _ => format!("{:x}", v),
        }
    };
    // ports 1-A only: port B belongs to the guest's echo loop
    let port = |e: &mut Ent| 1 + e.below(10);
    match e.below(20) {
        0..=5 => {
            let a = e.pick(&POOL);
            let v = e.u8() as u32;
            format!("u8:{}:{}", hexv(e, a), hexv(e, v))
        }
        6 | 7 => {
            let p = port(e);
            let v = e.pick(&[0u32, 0xff, 0x0f, 0xf0, 0x55]);
            format!("u8:{}:{}", hexv(e, 0xfee000 + p - 1), hexv(e, v))
        }
        8 | 9 => {
            let p = port(e);
            let v = e.u8() as u32;
            format!("u8:{}:{}", hexv(e, 0xffffd0 + p - 1), hexv(e, v))
        }
        10 | 11 => {
            let p = port(e);
            let v = e.u8() as u32;
            format!("ioport:{}:{}", hexv(e, p), hexv(e, v))
        }
        12 => e.pick(&["cmd:pause", "cmd:start", "cmd:pause", "cmd:start", "cmd:resume", "cmd:", "cmd"]).to_string(),
        13 => {
            // unmapped / out-of-range targets
            let a = e.pick(&[0x000100u32, 0x200000, 0xffffea, 0x600000, 0x1000000, 0xffffffff]);
            format!("u8:{:x}:{:x}", a, e.u8())
        }
        14 => format!("ioport:{}:{:x}", e.pick(&["0", "c", "10", "ff", "b0", "101", "1001", "10a", "100000001", "001", "0a"]), e.u8()),
        _ => {
            // malformed variants
            let a = e.pick(&POOL);
            let v = e.u8();
            let variants = [
                format!("cmd:stop:now"),
                format!("cmd:a:b"),
                format!("u8:{:x}", a),
                format!("u8:{:x}:{:x}:0", a, v),
                format!("u8:{:x}:1{:02x}", a, v),
                format!("u8:{:x}:zz", a),
                format!("u8::{:x}", v),
                format!("u8:{:x}:", a),
                format!("u8:-1:{:x}", v),
                format!("u8:1{:08x}:{:x}", a, v),
                format!("u8:0x{:x}:{:x}", a, v),
                format!("u8: {:x}:{:x}", a, v),
                format!("U8:{:x}:{:x}", a, v),
                format!("u16:{:x}:{:x}", a, v),
                format!("ioport:1"),
                format!("ioport:1:2:3"),
                format!("ioport:g:{:x}", v),
                format!("ioport:1:100"),
                String::new(),
                format!(":"),
                format!("stop"),
                format!("ready"),
                format!("sync:123"),
                format!("stdout:cmd:stop"),
                format!("cmd:STOP"),
                format!("u8:{:x}:{:x} ", a, v),
                format!("ü8:{:x}:{:x}", a, v),
                // what a client that ends its lines with CR LF sends: a lone CR, commands with a CR at either end
                format!("\r"),
                format!("\r\r"),
                format!("u8:{:x}:{:x}\r", a, v),
                format!("\ru8:{:x}:{:x}", a, v),
                format!("cmd:stop\r"),
                format!(" "),
                format!("\t"),
            ];
            variants[e.below(variants.len() as u32) as usize].clone()
        }
    }
}

pub fn build_lines(e: &mut Ent) -> Vec<String> {
    let n = e.below(41) as usize;
    let mut v: Vec<String> = (0..n).map(|_| line_gen(e)).collect();
    // rare class: a very large batch (hundreds to thousands of lines between two polls), built by
    // repeating the generated lines with the written values varied
    if e.chance(1, 24) && !v.is_empty() {
        let total = e.pick(&[255usize, 256, 257, 1000, 4096]);
        let base = v.clone();
        let mut x = e.u32() | 1;
        while v.len() < total {
            x = x.wrapping_mul(1664525).wrapping_add(1013904223);
            let l = &base[(x >> 8) as usize % base.len()];
            let parts: Vec<&str> = l.split(':').collect();
            if parts.len() == 3 && (parts[0] == "u8" || parts[0] == "ioport") {
                v.push(format!("{}:{}:{:x}", parts[0], parts[1], (x >> 24) as u8));
            } else {
                v.push(l.clone());
            }
        }
    }
    // sometimes an early stop followed by more lines (moot)
    if e.chance(1, 6) && !v.is_empty() {
        let k = e.below(v.len() as u32) as usize;
        v.insert(k, "cmd:stop".into());
    }
    v
}

#[derive(Clone, Copy, Debug, PartialEq)]
pub enum Schedule {
    /// every line (and the final stop) queued before the run loop starts: one batch
    AllBefore,
    /// one line at a time with a short pause: batches decided by the OS, typically one per poll
    Trickle,
    /// bursts of random size from a second thread while the loop runs
    Bursts,
}

struct RunOut {
    state: FinalState,
    msgs: Vec<String>,
    first_stop_ignored: bool,
}

/// (A) in-process run() with the channel-backed socket
fn run_channel(lines: &[String], sched: Schedule, seed: u32) -> Result<RunOut, String> {
    let (out_tx, out_rx) = channel::<String>();
    let (in_tx, in_rx) = channel::<String>();
    let mut all: Vec<String> = lines.to_vec();
    all.push("cmd:stop".into());
    if sched == Schedule::AllBefore {
        for l in &all {
            let _ = in_tx.send(l.clone());
        }
    }
    let (done_tx, done_rx) = channel::<()>();
    let handle = std::thread::spawn(move || -> Result<FinalState, String> {
        *crate::setting::ENABLE_PRINT_OPCODE.write().unwrap() = false;
        let mut cpu = Cpu::new();
        hooks::attach_socket(&mut cpu, Socket::from_channels(out_tx, in_rx));
        for (i, b) in echo_guest().iter().enumerate() {
            cpu.bus.memory[(CODE - 0xffbf20) as usize + i] = *b;
        }
        cpu.er[2] = CODE;
        cpu.er[7] = 0xffff00;
        cpu.exit_addr = 0;
        let r = {
            let c = &mut cpu;
            guarded(move || c.run())
        };
        let _ = done_tx.send(());
        let result = match r {
            Ok(Ok(())) => "Ok".to_string(),
            Ok(Err(e)) => format!("Err({})", e),
            Err(p) => return Err(format!("run() panicked: {}", p)),
        };
        let rd = |cpu: &Cpu, a: u32| cpu.bus.read(a).unwrap_or(0);
        Ok(FinalState {
            cells: POOL.iter().map(|a| rd(&cpu, *a)).collect(),
            pins: cpu.bus.io_port_in[..10].to_vec(),
            ddr: (0..10).map(|p| rd(&cpu, 0xfee000 + p)).collect(),
            dr: (0..10).map(|p| rd(&cpu, 0xffffd0 + p)).collect(),
            result,
        })
    });
    match sched {
        Schedule::AllBefore => {}
        Schedule::Trickle => {
            for l in &all {
                let _ = in_tx.send(l.clone());
                std::thread::sleep(Duration::from_micros(60));
            }
        }
        Schedule::Bursts => {
            let mut x = seed | 1;
            let mut i = 0;
            while i < all.len() {
                x = x.wrapping_mul(1664525).wrapping_add(1013904223);
                let k = 1 + (x >> 28) as usize;
                for l in all.iter().skip(i).take(k) {
                    let _ = in_tx.send(l.clone());
                }
                i += k;
                std::thread::sleep(Duration::from_micros(((x >> 20) & 0xff) as u64));
            }
        }
    }
    // The final stop must end the run. Wall-clock alone never decides: if the loop has not returned after
    // a while, a probe is sent behind the stop (resume + flag write). The guest's echo of the probe proves
    // that the loop is alive and has consumed every earlier line - including the stop - without stopping:
    // only then is the stop counted as lost. A loop that is merely slow ends by itself (no violation); a
    // loop that neither ends nor echoes is a hang (exit 2).
    let mut first_stop_ignored = false;
    let mut early: Vec<String> = vec![];
    if done_rx.recv_timeout(Duration::from_millis(700)).is_err() {
        let _ = in_tx.send("cmd:start".into());
        let _ = in_tx.send(format!("u8:{:x}:a7", FLAG));
        let t0 = Instant::now();
        loop {
            if done_rx.recv_timeout(Duration::from_millis(5)).is_ok() {
                break;
            }
            let mut echoed = false;
            for m in out_rx.try_iter() {
                if m.starts_with("ioport:b:a7:") {
                    echoed = true;
                }
                early.push(m);
            }
            if echoed {
                first_stop_ignored = true;
                let _ = in_tx.send("cmd:stop".into());
                if done_rx.recv_timeout(Duration::from_secs(60)).is_err() {
                    eprintln!("C18: run loop did not stop after a second cmd:stop (hang)");
                    std::process::exit(2);
                }
                break;
            }
            if t0.elapsed() > Duration::from_secs(120) {
                eprintln!("C18: run loop neither stopped nor echoed a probe within 120 s (hang or overloaded host): inconclusive");
                std::process::exit(2);
            }
        }
    }
    let state = handle.join().map_err(|_| "emulator thread panicked".to_string())??;
    early.extend(out_rx.try_iter());
    let msgs: Vec<String> = early;
    Ok(RunOut { state, msgs, first_stop_ignored })
}

fn judge_lines(lines: &[String], sched: Schedule, seed: u32) -> Result<Model, String> {
    let kept: Vec<String> = lines.iter().filter(|l| !unspecified_line(l)).cloned().collect();
    let lines: &[String] = &kept;
    let mut m = Model::new();
    for l in lines {
        m.apply(l);
    }
    m.apply("cmd:stop");
    let out = run_channel(lines, sched, seed)?;
    if out.first_stop_ignored {
        return Err(format!("the final cmd:stop was not acted on ({:?} schedule): a line was lost", sched));
    }
    let exp = m.expect();
    if out.state != exp {
        let what = if out.state.cells != exp.cells {
            let i = (0..POOL.len()).find(|&i| out.state.cells[i] != exp.cells[i]).unwrap();
            format!("cell {:06x} holds {:02x}, the line sequence leaves {:02x}", POOL[i], out.state.cells[i], exp.cells[i])
        } else if out.state.pins != exp.pins {
            format!("external pin levels {:02x?}, expected {:02x?}", out.state.pins, exp.pins)
        } else if out.state.ddr != exp.ddr {
            format!("port DDRs {:02x?}, expected {:02x?}", out.state.ddr, exp.ddr)
        } else if out.state.dr != exp.dr {
            format!("port DRs read {:02x?}, expected {:02x?}", out.state.dr, exp.dr)
        } else {
            format!("run() returned {}, expected Ok", out.state.result)
        };
        return Err(format!("{:?} schedule: {}", sched, what));
    }
    let got = output_changes(&out.msgs);
    if got != m.outputs {
        return Err(format!("{:?} schedule: sequence of announced output changes {:02x?}, the lines in order produce {:02x?}", sched, got, m.outputs));
    }
    Ok(m)
}

// ------------------------------------------------------------------ TCP driver (real worker threads)

pub fn unescape(line: &str) -> Option<String> {
    let mut out = String::new();
    let mut it = line.chars();
    while let Some(c) = it.next() {
        if c == '\\' {
            match it.next()? {
                '\\' => out.push('\\'),
                'n' => out.push('\n'),
                _ => return None,
            }
        } else {
            out.push(c);
        }
    }
    Some(out)
}

fn free_port() -> crate::engine::realbin::PortLease {
    crate::engine::realbin::free_port()
}

/// failures of the test rig itself (port taken by another process, cannot connect): never a verdict
pub const INFRA: &str = "INFRASTRUCTURE: ";

/// guest that emits `texts` through the MES write call (stored in DRAM by the harness) and exits
fn writer_guest(texts: &[Vec<u8>]) -> (Vec<u8>, Vec<(u32, Vec<u8>)>, u32) {
    let mut c = vec![];
    let mut data: Vec<(u32, Vec<u8>)> = vec![];
    let mut a = 0x440000u32;
    for t in texts {
        let blk = a;
        let buf = a + 0x10;
        let mut b = vec![];
        b.extend(1u32.to_be_bytes());
        b.extend(buf.to_be_bytes());
        b.extend((t.len() as u32).to_be_bytes());
        data.push((blk, b));
        data.push((buf, t.clone()));
        a += 0x20 + ((t.len() as u32 + 15) & !15);
        c.extend(encode(&Insn::MovImm { sz: Sz::L, imm: 104, d: 0 }));
        c.extend(encode(&Insn::MovImm { sz: Sz::L, imm: blk, d: 1 }));
        c.extend(encode(&Insn::Trapa(0)));
        // a port write between texts
        c.extend(encode(&Insn::MovImm { sz: Sz::B, imm: 0xff, d: 8 }));
        c.extend(encode(&Insn::Store { sz: Sz::B, s: 8, ea: Ea::A24(0xfee000) }));
        c.extend(encode(&Insn::MovImm { sz: Sz::B, imm: (t.len() as u32) & 0xff, d: 8 }));
        c.extend(encode(&Insn::Store { sz: Sz::B, s: 8, ea: Ea::A8(0xd0) }));
    }
    let exit = 0x420000 + c.len() as u32 + 4;
    c.extend(encode(&Insn::Jmp(JTarget::Abs(exit))));
    (c, data, exit)
}

/// run the writer guest with (a) the channel socket and (b) a real TCP connection; returns (raw messages, wire bytes)
fn run_writer(texts: &[Vec<u8>], tcp: bool, incoming: &[u8]) -> Result<(Vec<String>, Vec<u8>), String> {
    let (code, data, exit) = writer_guest(texts);
    let setup = move |cpu: &mut Cpu| {
        for (i, b) in code.iter().enumerate() {
            cpu.bus.dram[0x20000 + i] = *b;
        }
        for (a, bytes) in &data {
            for (i, b) in bytes.iter().enumerate() {
                cpu.bus.dram[(*a - 0x400000) as usize + i] = *b;
            }
        }
        cpu.er[2] = 0x420000;
        cpu.er[7] = 0x5f0000;
        cpu.exit_addr = exit;
    };
    if !tcp {
        let (out_tx, out_rx) = channel::<String>();
        let (_in_tx, in_rx) = channel::<String>();
        let h = std::thread::spawn(move || -> Result<(), String> {
            let mut cpu = Cpu::new();
            hooks::attach_socket(&mut cpu, Socket::from_channels(out_tx, in_rx));
            setup(&mut cpu);
            let c = &mut cpu;
            match guarded(move || c.run()) {
                Ok(Ok(())) => Ok(()),
                Ok(Err(e)) => Err(format!("run() failed: {}", e)),
                Err(p) => Err(format!("run() panicked: {}", p)),
            }
        });
        h.join().map_err(|_| "thread".to_string())??;
        return Ok((out_rx.try_iter().collect(), vec![]));
    }
    // the port stays reserved until this function returns (the emulator thread has been joined by then)
    let lease = free_port();
    let port = lease.port;
    let addr = format!("127.0.0.1:{}", port);
    let addr2 = addr.clone();
    let h = std::thread::spawn(move || -> Result<(), String> {
        let mut cpu = Cpu::new();
        cpu.connect_socket(&addr2).map_err(|e| format!("{}connect_socket({}): {}", INFRA, addr2, e))?;
        setup(&mut cpu);
        let c = &mut cpu;
        let r = match guarded(move || c.run()) {
            Ok(Ok(())) => Ok(()),
            Ok(Err(e)) => Err(format!("run() failed: {}", e)),
            Err(p) => Err(format!("run() panicked: {}", p)),
        };
        drop(cpu);
        r
    });
    // connect (the listener appears when the thread reaches accept)
    let start = Instant::now();
    let mut stream = loop {
        match std::net::TcpStream::connect(&addr) {
            Ok(s) if crate::engine::realbin::self_connected(&s) => {
                lease.leak();
                return Err(format!("{}the connection to port {} is connected to itself", INFRA, port));
            }
            Ok(s) => break s,
            Err(_) if start.elapsed() < Duration::from_secs(10) && !h.is_finished() => std::thread::sleep(Duration::from_millis(2)),
            Err(e) => {
                // a thread that still waits in accept() is left behind (joining it would wait for ever)
                let why = if h.is_finished() { h.join().ok().and_then(|r| r.err()).unwrap_or_default() } else { String::new() };
                lease.leak();
                return Err(format!("{}cannot connect to the emulator's control socket: {} {}", INFRA, e, why));
            }
        }
    };
    if !incoming.is_empty() {
        let _ = stream.write_all(incoming);
    }
    let _ = stream.set_read_timeout(Some(Duration::from_secs(30)));
    let mut wire = vec![];
    let mut buf = [0u8; 4096];
    loop {
        match stream.read(&mut buf) {
            Ok(0) => break,
            Ok(n) => wire.extend_from_slice(&buf[..n]),
            // 30 s without a byte and without a close: the rig is stuck (or the emulator hangs): not a verdict
            Err(e) => {
                lease.leak();
                return Err(format!("{}reading from the control socket: {}", INFRA, e));
            }
        }
    }
    h.join().map_err(|_| "thread".to_string())??;
    Ok((vec![], wire))
}

fn judge_framing(texts: &[Vec<u8>]) -> Result<usize, String> {
    let (raw, _) = run_writer(texts, false, b"")?;
    // the raw messages contain one stdout message per text, byte-exact, in order
    let stdout: Vec<&String> = raw.iter().filter(|m| m.starts_with("stdout:")).collect();
    let expect: Vec<String> = texts.iter().map(|t| format!("stdout:{}", String::from_utf8_lossy(t))).collect();
    if stdout.len() != expect.len() || stdout.iter().zip(expect.iter()).any(|(a, b)| *a != b) {
        return Err(format!("channel driver: {} stdout messages for {} write calls", stdout.len(), expect.len()));
    }
    let (_, wire) = run_writer(texts, true, b"")?;
    let text = String::from_utf8(wire).map_err(|_| "wire bytes are not UTF-8".to_string())?;
    if !text.is_empty() && !text.ends_with('\n') {
        return Err("the last transmitted line is not newline-terminated".into());
    }
    let lines: Vec<&str> = if text.is_empty() { vec![] } else { text[..text.len() - 1].split('\n').collect() };
    if lines.len() != raw.len() {
        return Err(format!("{} messages were emitted but {} lines were transmitted", raw.len(), lines.len()));
    }
    let mut seen = std::collections::HashMap::new();
    for (i, (l, m)) in lines.iter().zip(raw.iter()).enumerate() {
        match unescape(l) {
            Some(u) if u == *m => {}
            other => return Err(format!("line {} {:?} unescapes to {:?}, the emitted message is {:?}", i, l, other, m)),
        }
        if let Some(prev) = seen.insert(l.to_string(), m.clone()) {
            if prev != *m {
                return Err(format!("two different messages {:?} and {:?} share the wire line {:?}", prev, m, l));
            }
        }
    }
    Ok(raw.len())
}

/// incoming lines over real TCP, written in odd chunks: the receive worker must deliver them intact, in order
/// Lines are Rust strings; bytes that are *not* valid UTF-8 travel as private-use marker characters
/// U+E000 + byte and are put on the wire as that single byte. A line containing one is malformed whatever a
/// receiver makes of the byte (the markers never form a valid token in the reference interpreter either).
pub fn wire_bytes(l: &str) -> Vec<u8> {
    let mut out = Vec::with_capacity(l.len());
    for ch in l.chars() {
        let c = ch as u32;
        if (0xe080..=0xe0ff).contains(&c) {
            out.push((c - 0xe000) as u8);
        } else {
            let mut b = [0u8; 4];
            out.extend_from_slice(ch.encode_utf8(&mut b).as_bytes());
        }
    }
    out
}

pub fn judge_tcp_lines(lines: &[String], chunk_seed: u32) -> Result<(), String> {
    let kept: Vec<String> = lines.iter().filter(|l| !unspecified_line(l)).cloned().collect();
    let lines: &[String] = &kept;
    let mut m = Model::new();
    for l in lines {
        m.apply(l);
    }
    // the port stays reserved until this function returns; where the emulator thread is left behind, for good
    let lease = free_port();
    let port = lease.port;
    let addr = format!("127.0.0.1:{}", port);
    let addr2 = addr.clone();
    let h = std::thread::spawn(move || -> Result<FinalState, String> {
        let mut cpu = Cpu::new();
        cpu.connect_socket(&addr2).map_err(|e| format!("{}connect_socket({}): {}", INFRA, addr2, e))?;
        for (i, b) in echo_guest().iter().enumerate() {
            cpu.bus.memory[(CODE - 0xffbf20) as usize + i] = *b;
        }
        cpu.er[2] = CODE;
        cpu.er[7] = 0xffff00;
        cpu.exit_addr = 0;
        let r = {
            let c = &mut cpu;
            guarded(move || c.run())
        };
        let result = match r {
            Ok(Ok(())) => "Ok".to_string(),
            Ok(Err(e)) => format!("Err({})", e),
            Err(p) => return Err(format!("run() panicked: {}", p)),
        };
        let rd = |cpu: &Cpu, a: u32| cpu.bus.read(a).unwrap_or(0);
        Ok(FinalState {
            cells: POOL.iter().map(|a| rd(&cpu, *a)).collect(),
            pins: cpu.bus.io_port_in[..10].to_vec(),
            ddr: (0..10).map(|p| rd(&cpu, 0xfee000 + p)).collect(),
            dr: (0..10).map(|p| rd(&cpu, 0xffffd0 + p)).collect(),
            result,
        })
    });
    let start = Instant::now();
    let mut stream = loop {
        match std::net::TcpStream::connect(&addr) {
            Ok(s) if crate::engine::realbin::self_connected(&s) => {
                lease.leak();
                return Err(format!("{}the connection to port {} is connected to itself", INFRA, port));
            }
            Ok(s) => break s,
            Err(_) if start.elapsed() < Duration::from_secs(10) && !h.is_finished() => std::thread::sleep(Duration::from_millis(2)),
            Err(e) => {
                // a thread that still waits in accept() is left behind (joining it would wait for ever)
                let why = if h.is_finished() { h.join().ok().and_then(|r| r.err()).unwrap_or_default() } else { String::new() };
                lease.leak();
                return Err(format!("{}cannot connect: {} {}", INFRA, e, why));
            }
        }
    };
    // Handshake: make sure the peer is *this* case's emulator before anything is judged. Concurrently running check
    // processes (and anything else on the machine) use loopback ports too; a connection that ends up in the backlog
    // of a listener that already has its client, or at somebody else's listener, must be an inconclusive rig
    // failure, not a 120 s wait. The guest echoes the flag byte to port B: one `u8:` line, one `ioport:b:` message.
    let handshake = (|| -> Result<(), String> {
        let _ = stream.set_read_timeout(Some(Duration::from_millis(100)));
        if stream.write_all(format!("u8:{:x}:5c\n", FLAG).as_bytes()).is_err() {
            return Err(format!("{}the control connection broke during the handshake", INFRA));
        }
        let t0 = Instant::now();
        let mut got: Vec<u8> = vec![];
        let mut buf = [0u8; 512];
        loop {
            match stream.read(&mut buf) {
                Ok(0) => return Err(format!("{}the peer closed the control connection during the handshake", INFRA)),
                Ok(n) => got.extend_from_slice(&buf[..n]),
                Err(ref e) if e.kind() == std::io::ErrorKind::WouldBlock || e.kind() == std::io::ErrorKind::TimedOut => {}
                Err(e) => return Err(format!("{}handshake read: {}", INFRA, e)),
            }
            if got.windows(12).any(|w| w == b"ioport:b:5c:") {
                break;
            }
            // The listener on this port is this case's emulator (the port is leased to this case alone, see
            // `PortLease`, and the emulator bound it - otherwise it would have failed with an INFRASTRUCTURE error), and a
            // peer it did not accept is reset when the listener goes away - so `sync:` messages arriving on this very stream prove that the
            // connection leads to this case's running emulator. If it runs on for 60 sync periods (120 million
            // states; the guest polls the flag every few instructions) without acting on the line, it is deaf:
            // that is a verdict, not a rig failure.
            let syncs = got.windows(5).filter(|w| w == b"sync:").count();
            if syncs >= 60 {
                return Err(format!("the emulator accepted the control connection and runs ({} sync messages received) but never acted on the first line sent (`u8:{:x}:5c`, echoed by the guest as `ioport:b:5c:`)", syncs, FLAG));
            }
            if t0.elapsed() > Duration::from_secs(20) {
                // not our emulator (or not an emulator at all): leave the thread behind, it ends with the process
                return Err(format!("{}no echo of the handshake within 20 s: the connection on port {} does not lead to this case's emulator", INFRA, port));
            }
        }
        Ok(())
    })();
    if let Err(e) = handshake {
        // the emulator thread is left behind (it ends with the process); its port is never handed out again
        lease.leak();
        return Err(e);
    }
    m.apply(&format!("u8:{:x}:5c", FLAG));
    let mut bytes: Vec<u8> = vec![];
    for l in lines {
        bytes.extend(wire_bytes(l));
        bytes.push(b'\n');
    }
    bytes.extend(b"cmd:stop\n");
    let mut x = chunk_seed | 1;
    let mut i = 0;
    while i < bytes.len() {
        x = x.wrapping_mul(1664525).wrapping_add(1013904223);
        let k = (1 + (x >> 26) as usize).min(bytes.len() - i);
        if stream.write_all(&bytes[i..i + k]).is_err() {
            // the emulator already stopped (an early cmd:stop) and closed the connection
            break;
        }
        let _ = stream.flush();
        i += k;
        if x & 0x300 == 0 {
            std::thread::sleep(Duration::from_micros(50));
        }
    }
    // drain outgoing until the emulator closes. As in the channel driver, a probe behind the stop decides
    // whether a stop was lost (echo seen) or the emulator is just slow (connection closes by itself).
    let _ = stream.set_read_timeout(Some(Duration::from_millis(100)));
    let mut buf = [0u8; 4096];
    let sent = Instant::now();
    let mut probed = false;
    let mut stop_ignored = false;
    let mut seen: Vec<u8> = vec![];
    // liveness without the incoming path: the run loop emits a `sync:` message every 2,000,000 states (0.1 s) from
    // the same loop iteration that polls for lines. Dozens of them after the stop and the probe were sent, and
    // neither acted on: the loop is alive and the lines are lost (a receiver that died on an earlier line).
    let mut syncs_after_probe = 0usize;
    let mut deaf = false;
    loop {
        match stream.read(&mut buf) {
            Ok(0) => break,
            Ok(n) => {
                if probed {
                    syncs_after_probe += buf[..n].windows(5).filter(|w| *w == b"sync:").count();
                }
                seen.extend_from_slice(&buf[..n])
            }
            Err(ref e) if e.kind() == std::io::ErrorKind::WouldBlock || e.kind() == std::io::ErrorKind::TimedOut => {}
            Err(_) => break,
        }
        if !probed && sent.elapsed() > Duration::from_millis(1200) {
            probed = true;
            let _ = stream.write_all(format!("cmd:start\nu8:{:x}:a7\n", FLAG).as_bytes());
        }
        if probed && !stop_ignored && seen.windows(12).any(|w| w == b"ioport:b:a7:") {
            stop_ignored = true;
            let _ = stream.write_all(b"cmd:stop\n");
        }
        if probed && !stop_ignored && syncs_after_probe >= 100 {
            deaf = true;
            break;
        }
        if seen.len() > (1 << 20) {
            let keep = seen.split_off(seen.len() - 64);
            seen = keep;
        }
        if sent.elapsed() > Duration::from_secs(120) {
            eprintln!("C18: emulator neither stopped nor echoed a probe within 120 s over TCP: inconclusive");
            std::process::exit(2);
        }
    }
    if deaf {
        // the emulator thread cannot be stopped through the socket any more: leave it behind (it ends with the process)
        drop(stream);
        lease.leak();
        return Err(format!("neither the final cmd:stop nor the probe lines sent over TCP were acted on although the run loop kept running ({} sync messages later): the lines after some earlier line are lost", syncs_after_probe));
    }
    if stop_ignored {
        let _ = h.join();
        return Err("the final cmd:stop sent over TCP was not acted on: a line was lost".into());
    }
    let st = h.join().map_err(|_| "thread".to_string())??;
    m.apply("cmd:stop");
    if st != m.expect() {
        return Err(format!("TCP lines: final state {:?} differs from the line sequence's {:?}", st, m.expect()));
    }
    Ok(())
}

/// one-batch schedule only (deterministic): used by the libFuzzer target
pub fn judge_lines_pub(lines: &[String]) -> Result<(), String> {
    judge_lines(lines, Schedule::AllBefore, 1).map(|_| ())
}

fn lines_json(lines: &[String], sched: &str) -> Value {
    json!({"kind": "control-lines", "lines": lines, "schedule": sched})
}

/// a guest from C13's program generator (console output, port writes, sync crossings) through the real
/// binary started with `-s -w`: lines received == "ready" + the messages of the in-process run
pub fn judge_real_tcp(bin: &std::path::PathBuf, g: &super::c13::Guest, tag: &str) -> Result<Result<usize, String>, String> {
    use crate::engine::realbin::*;
    let (_, f) = super::c13::run_a(g, &format!("{}-ref", tag)).map_err(|e| format!("reference run failed: {}", e))?;
    let out = match run_tcp(bin, tag, &g.file, &g.args, &[], Duration::from_secs(60)) {
        Ok(o) => o,
        Err(RealErr::Inconclusive(m)) => return Err(m),
    };
    if out.lines.first().map(|s| s.as_str()) != Some("ready") {
        return Ok(Err(format!("real binary over TCP (-s -w): the first line is {:?}, not `ready` (process status {:?}; last lines of its stderr: {:?})", out.lines.first(), out.status, out.stderr.lines().rev().take(4).collect::<Vec<_>>())));
    }
    let got: Vec<String> = out.lines[1..].iter().map(|l| unescape(l)).collect();
    if got != f.msgs {
        let i = got.iter().zip(f.msgs.iter()).position(|(a, b)| a != b).unwrap_or(got.len().min(f.msgs.len()));
        let what = if got.len() < f.msgs.len() && i == got.len() {
            format!("the last {} of {} emitted messages were never transmitted (the connection closed first)", f.msgs.len() - got.len(), f.msgs.len())
        } else {
            format!("line {} is {:?}, message {} emitted by the program is {:?} ({} lines vs {} messages)", i + 1, got.get(i), i, f.msgs.get(i), got.len(), f.msgs.len())
        };
        return Ok(Err(format!("real binary over TCP: {}", what)));
    }
    Ok(Ok(f.msgs.len()))
}

/// cells the start-up dialog watches: the five bus-controller registers the run loop initialises at its start, cells
/// in on-chip RAM and DRAM; the guest copies cell i to the DR of port i+1 (all outputs) round and round, and the flag
/// byte to port B
const WATCH: [u32; 9] = [0xfee020, 0xfee021, 0xfee022, 0xfee023, 0xfee026, 0xffd000, 0xffe123, 0x4abcde, 0x5ffff0];

fn watch_guest() -> Vec<u8> {
    let mut c = vec![];
    c.extend(encode(&Insn::MovImm { sz: Sz::B, imm: 0xff, d: 8 }));
    for p in 0..11u32 {
        c.extend(encode(&Insn::Store { sz: Sz::B, s: 8, ea: Ea::A24(0xfee000 + p) }));
    }
    let top = c.len();
    for (i, a) in WATCH.iter().enumerate() {
        c.extend(encode(&Insn::Load { sz: Sz::B, ea: Ea::A24(*a), d: 8 }));
        c.extend(encode(&Insn::Store { sz: Sz::B, s: 8, ea: Ea::A8((0xd0 + i) as u8) }));
    }
    c.extend(encode(&Insn::Load { sz: Sz::B, ea: Ea::A24(FLAG), d: 8 }));
    c.extend(encode(&Insn::Store { sz: Sz::B, s: 8, ea: Ea::A8(0xda) }));
    let disp = top as i32 - (c.len() as i32 + 4);
    c.extend(encode(&Insn::Bcc { cond: 0, disp, wide: true }));
    c
}

/// Real binary with `-s -w`: lines sent *while the emulator still waits for its start* act like any other line -
/// exactly once, in order, and what they stored is there when the guest starts - whatever the batching around
/// `cmd:start`. Oracle: the last value the guest announces for every watched cell == the cell's value after the
/// line sequence (reset value where no line wrote it), read by the guest itself after the last line.
pub fn judge_real_prestart(bin: &std::path::PathBuf, e: &mut Ent, tag: &str) -> Result<Result<usize, String>, String> {
    use crate::engine::realbin::*;
    let code = watch_guest();
    let file = super::elfgen::simple_elf(&code, 0x100, 0x400, 0xfff0);
    // reset values of the watched cells as the guest sees them: what the run loop programs, zero elsewhere
    let mut model: Vec<u8> = vec![0xff, 0xfb, 0xff, 0xcf, 0xe0, 0, 0, 0, 0];
    let mut mk = |e: &mut Ent, model: &mut Vec<u8>| -> String {
        match e.below(8) {
            0 => e.pick(&["cmd:pause", "bogus", "u8:fee023", "cmd:a:b", "", "cmd:start:x"]).to_string(),
            _ => {
                let i = e.below(WATCH.len() as u32) as usize;
                // DRCRA's upper bits and the width/access bits of area 2 would slow the guest down, not stop it
                let v = e.u8();
                model[i] = v;
                format!("u8:{:x}:{:x}", WATCH[i], v)
            }
        }
    };
    let pre: Vec<String> = (0..e.below(7)).map(|_| mk(e, &mut model)).collect();
    // a pause sent before the start is undone by the start; one sent after it would suspend the guest for good
    let post: Vec<String> = (0..e.below(5)).map(|_| mk(e, &mut model)).filter(|l| l != "cmd:pause").collect();
    let n_pre = pre.len();
    let lines = match run_tcp_dialog(bin, tag, &file, &pre, &post, FLAG, Duration::from_secs(60)) {
        Ok(l) => l,
        Err(RealErr::Inconclusive(m)) => return Err(m),
    };
    // last announced value per port 1..9
    let mut last: Vec<u8> = vec![0; WATCH.len()];
    for l in &lines {
        let parts: Vec<&str> = l.split(':').collect();
        if parts.len() == 4 && parts[0] == "ioport" {
            if let (Ok(p), Ok(v)) = (u8::from_str_radix(parts[1], 16), u8::from_str_radix(parts[2], 16)) {
                if (1..=WATCH.len() as u8).contains(&p) {
                    last[p as usize - 1] = v;
                }
            }
        }
    }
    for i in 0..WATCH.len() {
        if last[i] != model[i] {
            return Ok(Err(format!(
                "real binary (-s -w), {} lines before cmd:start and {} after: the guest reads {:02x} at {:06x}; the line sequence leaves {:02x} there (pre-start lines {:?}, post-start lines {:?})",
                n_pre, post.len(), last[i], WATCH[i], model[i], pre, post
            )));
        }
    }
    Ok(Ok(n_pre))
}

fn real_phase(ctx: &Ctx, n: u32) -> Stats {
    let Some(bin) = crate::engine::realbin::real_binary() else {
        let mut st = Stats::new();
        st.notes.push("real-binary phase skipped: H8VERIF_REALBIN is not set (run through ./check)".into());
        return st;
    };
    par_shards(ctx, 16, |shard| {
        let mut st = Stats::new();
        let mut runner = proptest_runner(mix(ctx.seed, 0x18aa_0000 + shard as u64), 1);
        let ent = entropy_n(500);
        for i in 0..(n / 16) {
            let raw = sample(&mut runner, &ent);
            let mut g = super::c13::build_guest(&mut Ent::new(&raw));
            g.start_total = 0;
            let tag = format!("c18-{}-{}", shard, i);
            match judge_real_tcp(&bin, &g, &tag) {
                Ok(Ok(nm)) => {
                    st.evaluations += 1;
                    st.class("real binary over TCP: all emitted messages received, in order, before the connection closed");
                    st.class_n("real binary over TCP: messages", nm as u64);
                    if nm > 0 {
                        st.nontrivial(key_hash(&g.file), || json!({"real_binary": true, "messages": nm, "features": g.features}));
                    }
                }
                Ok(Err(m)) => {
                    st.fail(Failure { signature: format!("real binary | {}", fail_field(&m.replace(|c: char| c.is_ascii_digit(), ""))), detail: m, case: json!({"kind": "real-tcp", "file": crate::engine::stepcase::hex(&g.file), "args": g.args, "fails": g.fails}) });
                    break;
                }
                Err(m) => st.notes.push(format!("real-binary run inconclusive: {}", m)),
            }
            // lines around the start
            let mut e2 = Ent::new(&raw[250..]);
            match judge_real_prestart(&bin, &mut e2, &format!("c18p-{}-{}", shard, i)) {
                Ok(Ok(n_pre)) => {
                    st.evaluations += 1;
                    st.class("real binary (-s -w): lines before and after cmd:start, cells read back by the guest");
                    if n_pre > 0 {
                        st.class("real binary (-s -w): >= 1 line delivered while the emulator waits for its start");
                    }
                }
                Ok(Err(m)) => {
                    st.fail(Failure { signature: "real binary | lines around the start".into(), detail: m, case: json!({"kind": "real-prestart", "draws": raw[250..].to_vec()}) });
                    break;
                }
                Err(m) => st.notes.push(format!("real-binary run inconclusive: {}", m)),
            }
        }
        st
    })
}

pub fn run(ctx: &Ctx) -> i32 {
    if let Some(v) = &ctx.replay {
        if let Some(code) = replay_fuzz(P, v) {
            return code;
        }
        let case = v.get("case").unwrap_or(v);
        let quiet = Redirect::start(false);
        let r: Result<(), String> = if let Some(lines) = case.get("lines").and_then(|l| l.as_array()) {
            let lines: Vec<String> = lines.iter().filter_map(|x| x.as_str().map(|s| s.to_string())).collect();
            [Schedule::AllBefore, Schedule::Trickle, Schedule::Bursts].iter().try_for_each(|s| judge_lines(&lines, *s, 12345).map(|_| ())).and_then(|_| judge_tcp_lines(&lines, 777))
        } else if case.get("kind").and_then(|k| k.as_str()) == Some("real-prestart") {
            let draws: Vec<u32> = case.get("draws").and_then(|d| d.as_array()).map(|a| a.iter().filter_map(|x| x.as_u64().map(|v| v as u32)).collect()).unwrap_or_default();
            let Some(bin) = crate::engine::realbin::real_binary() else {
                drop(quiet);
                eprintln!("inconclusive: the real binary is not available (run through ./check)");
                return 2;
            };
            match judge_real_prestart(&bin, &mut Ent::new(&draws), "replay-prestart") {
                Ok(r) => r.map(|_| ()),
                Err(m) => {
                    drop(quiet);
                    eprintln!("inconclusive: {}", m);
                    return 2;
                }
            }
        } else if case.get("kind").and_then(|k| k.as_str()) == Some("real-tcp") {
            let (Some(file), Some(args)) = (case.get("file").and_then(|f| f.as_str()).and_then(crate::engine::stepcase::unhex), case.get("args").and_then(|a| a.as_str())) else { return 2 };
            let g = super::c13::Guest { file, args: args.to_string(), fails: case.get("fails").and_then(|f| f.as_bool()).unwrap_or(false), features: vec![], start_total: 0 };
            let Some(bin) = crate::engine::realbin::real_binary() else {
                drop(quiet);
                eprintln!("inconclusive: the real binary is not available (run through ./check)");
                return 2;
            };
            // the loss is a race at process exit: try a few times
            let mut r = Ok(());
            for k in 0..20 {
                match judge_real_tcp(&bin, &g, &format!("replay{}", k)) {
                    Ok(Ok(_)) => {}
                    Ok(Err(m)) => {
                        r = Err(m);
                        break;
                    }
                    Err(m) => {
                        drop(quiet);
                        eprintln!("inconclusive: {}", m);
                        return 2;
                    }
                }
            }
            r
        } else if let Some(texts) = case.get("texts").and_then(|l| l.as_array()) {
            let texts: Vec<Vec<u8>> = texts.iter().filter_map(|x| x.as_str().and_then(crate::engine::stepcase::unhex)).collect();
            judge_framing(&texts).map(|_| ())
        } else {
            drop(quiet);
            return 2;
        };
        drop(quiet);
        return match r {
            Ok(()) => {
                println!("replay {}: passes", P);
                0
            }
            Err(m) if m.starts_with(INFRA) => {
                eprintln!("inconclusive: {}", m);
                2
            }
            Err(m) => {
                let f = Failure { signature: "control lines".into(), detail: m, case: case.clone() };
                let p = write_replay(P, &f);
                println!("VIOLATION property={} replay={}", P, p.display());
                println!("  detail: {}", f.detail);
                1
            }
        };
    }
    let tier = ctx.tier;
    let quiet = Redirect::start(false);
    let n: u32 = tier.pick(7200, 240_000);
    let nshards = 48usize;
    let mut stats = par_shards(ctx, nshards, |shard| {
        let stats = std::cell::RefCell::new(Stats::new());
        let ent = entropy_n(400);
        set_shrink_iters(16); // a failing case costs up to the watchdog's wait
        let _ = run_prop(mix(ctx.seed, 0x1801_0000 + shard as u64), n / nshards as u32, &ent, |raw, shrinking| {
            let mut e = Ent::new(raw);
            let lines = build_lines(&mut e);
            let seed = e.u32();
            let mut res: Result<Model, String> = judge_lines(&lines, Schedule::AllBefore, seed);
            let mut which = "AllBefore";
            if res.is_ok() {
                let s2 = if seed & 1 == 0 { Schedule::Trickle } else { Schedule::Bursts };
                which = if seed & 1 == 0 { "Trickle" } else { "Bursts" };
                res = judge_lines(&lines, s2, seed);
            }
            let mut st = stats.borrow_mut();
            match res {
                Ok(m) => {
                    if !shrinking {
                        st.evaluations += 2;
                        st.class_n("lines", lines.len() as u64);
                        st.class_n("effective lines", m.effective as u64);
                        // malformed line followed by an effective line
                        let mut seen_bad = false;
                        let mut bad_then_good = false;
                        let mut pause_window = false;
                        let mut paused = false;
                        let mut probe = Model::new();
                        for l in &lines {
                            let before = probe.effective;
                            probe.apply(l);
                            let eff = probe.effective > before;
                            if !eff && l != "cmd:pause" && l != "cmd:start" {
                                seen_bad = true;
                            }
                            if eff && seen_bad {
                                bad_then_good = true;
                            }
                            if l == "cmd:pause" {
                                paused = true;
                            }
                            if l == "cmd:start" {
                                paused = false;
                            }
                            if paused && eff {
                                pause_window = true;
                            }
                        }
                        if bad_then_good {
                            st.class("malformed/ineffective line followed by an effective line");
                        }
                        if pause_window {
                            st.class("pause..start window containing effective lines");
                        }
                        if lines.iter().any(|l| l == "cmd:stop") {
                            st.class("early stop followed by more lines");
                        }
                        if bad_then_good || pause_window {
                            st.nontrivial(key_hash(&lines), || json!({"lines": lines.iter().take(14).collect::<Vec<_>>(), "n": lines.len()}));
                        }
                    }
                    Ok(())
                }
                Err(msg) => {
                    let sig = format!("control lines | {}", fail_field(&msg.replace(|c: char| c.is_ascii_digit(), "")));
                    let f = Failure { signature: sig.clone(), detail: msg, case: lines_json(&lines, which) };
                    if ctx.survey {
                        if !shrinking {
                            st.evaluations += 1;
                            st.survey_fail(f);
                        }
                        Ok(())
                    } else {
                        st.failures.clear();
                        st.fail(f);
                        Err(sig)
                    }
                }
            }
        });
        stats.into_inner()
    });

    // real TCP: outgoing framing and incoming line splitting (sequential: one listener at a time per worker)
    let nt: u32 = tier.pick(160, 6000);
    let tstats = par_shards(ctx, 8, |shard| {
        let mut st = Stats::new();
        let mut runner = proptest_runner(mix(ctx.seed, 0x1802_0000 + shard as u64), 1);
        let ent = entropy_n(400);
        for _ in 0..nt / 8 {
            let raw = sample(&mut runner, &ent);
            let mut e = Ent::new(&raw);
            if e.chance(1, 2) {
                let k = 1 + e.below(6) as usize;
                let texts: Vec<Vec<u8>> = (0..k).map(|_| utf8_text(&mut e, 120)).collect();
                match judge_framing(&texts) {
                    Ok(nmsg) => {
                        st.evaluations += 1;
                        st.class("TCP: outgoing framing compared with the emitted messages");
                        st.class_n("TCP: messages transmitted", nmsg as u64);
                        if texts.iter().any(|t| t.contains(&b'\n') || t.contains(&b'\\')) {
                            st.class("TCP: outgoing text containing newline or backslash");
                            st.nontrivial(key_hash(&texts), || json!({"texts": texts.iter().map(|t| String::from_utf8_lossy(t).chars().take(40).collect::<String>()).collect::<Vec<_>>()}));
                        }
                    }
                    Err(m) if m.starts_with(INFRA) => st.notes.push(format!("TCP run inconclusive: {}", m)),
                    Err(m) => {
                        st.fail(Failure { signature: format!("outgoing framing | {}", fail_field(&m.replace(|c: char| c.is_ascii_digit(), ""))), detail: m, case: json!({"kind": "framing", "texts": texts.iter().map(|t| crate::engine::stepcase::hex(t)).collect::<Vec<_>>()}) });
                        break;
                    }
                }
            } else {
                let lines = build_lines(&mut e);
                let mut lines: Vec<String> = lines.into_iter().filter(|l| !l.contains('\n')).collect();
                // buffer-size class (TCP only: the channel driver hands over whole strings): one ignored line much
                // longer than any buffer a receiver may use, built so that what follows a power-of-two offset (2^12,
                // 2^13 = BufReader's default, 2^14, 2^16, 2^17, +/- 1) reads like an effective line of its own.
                // The whole line has an unknown head, so it must be ignored as a whole.
                let mut long_lines = 0;
                if e.chance(1, 3) {
                    for _ in 0..1 + e.below(2) {
                        let off = e.pick(&[4096usize, 8192, 16384, 65536, 131072, 65536, 8192]);
                        let delta = e.pick(&[0i64, 0, 0, -1, 1, 2]);
                        let tail = match e.below(4) {
                            0 => "cmd:stop".to_string(),
                            1 => format!("ioport:{:x}:{:x}", 1 + e.below(10), e.u8()),
                            _ => format!("u8:{:x}:{:x}", e.pick(&POOL), e.u8()),
                        };
                        let n0 = (off as i64 + delta).max(1) as usize;
                        let mut l = "x".repeat(n0);
                        l.push_str(&tail);
                        let at = e.below(lines.len() as u32 + 1) as usize;
                        lines.insert(at, l);
                        long_lines += 1;
                    }
                }
                // bytes that are not UTF-8 (a client bug, line noise): such a line is malformed like any other
                if e.chance(1, 4) {
                    for _ in 0..1 + e.below(2) {
                        let good = match e.below(3) {
                            0 => "cmd:stop".to_string(),
                            1 => format!("u8:{:x}:{:x}", e.pick(&POOL), e.u8()),
                            _ => "garbage".to_string(),
                        };
                        let bad: String = match e.below(5) {
                            0 => "\u{e0ff}".into(),
                            1 => "\u{e0c0}\u{e0af}".into(),      // overlong encoding
                            2 => "\u{e0e3}\u{e081}".into(),      // truncated three-byte sequence
                            3 => "\u{e080}".into(),              // lone continuation byte
                            _ => "\u{e0ed}\u{e0a0}\u{e080}".into(), // surrogate
                        };
                        let l = match e.below(3) {
                            0 => format!("{}{}", bad, good),
                            1 => format!("{}{}", good, bad),
                            _ => {
                                let k = e.below(good.len() as u32 + 1) as usize;
                                format!("{}{}{}", &good[..k], bad, &good[k..])
                            }
                        };
                        let at = e.below(lines.len() as u32 + 1) as usize;
                        lines.insert(at, l);
                    }
                    st.class("TCP: line containing bytes that are not valid UTF-8");
                }
                if long_lines > 0 {
                    st.class("TCP: ignored line longer than 2^12..2^17 bytes whose tail reads like a command");
                }
                match judge_tcp_lines(&lines, e.u32()) {
                    Ok(()) => {
                        st.evaluations += 1;
                        st.class("TCP: incoming lines in odd chunks through the receive worker");
                    }
                    Err(m) if m.starts_with(INFRA) => st.notes.push(format!("TCP run inconclusive: {}", m)),
                    Err(m) => {
                        st.fail(Failure { signature: format!("control lines over TCP | {}", fail_field(&m.replace(|c: char| c.is_ascii_digit(), ""))), detail: m, case: lines_json(&lines, "tcp") });
                        break;
                    }
                }
            }
        }
        st
    });
    stats.merge(tstats);
    // the repository's real binary over TCP (-s -w): every message the program emits up to its very last
    // instruction must arrive as one line, in order, before the connection closes
    stats.merge(real_phase(ctx, tier.pick(48, 1200)));
    drop(quiet);
    let inconclusive = stats.notes.iter().filter(|n| n.contains("inconclusive")).count();
    if inconclusive >= 8 {
        eprintln!("C18: {} TCP / real-binary runs were inconclusive (first: {}): the rig is not working, no verdict", inconclusive, stats.notes.iter().find(|n| n.contains("inconclusive")).cloned().unwrap_or_default());
        return 2;
    }
    if tier == Tier::Thorough {
        fuzz_campaign(ctx, "fuzz_lines", 8, 40_000, 1024, &mut stats);
    }
    let rule = "cases = proptest-generated sequences of 0-40 control lines from the protocol grammar (u8 writes to a pool of 8 RAM/DRAM cells incl. region ends, to port DDR/DR 1-A and to unmapped addresses; ioport pin lines incl. invalid ports; cmd:pause/start/stop incl. an early stop; ~27 malformed shapes: wrong field counts such as `cmd:a:b`, non-hex, empty, over-long, negative, prefixed, upper-case heads, unknown heads, empty line, non-ASCII) delivered to a guest echo loop under three schedules (all lines queued before the loop starts = one deterministic batch; one line per short pause; random bursts from a second thread), always ended by cmd:stop with a watchdog (a stop that is not acted on is a lost line, a real hang is exit 2); plus real-TCP runs: guests that emit adversarial UTF-8 texts (newline, backslash, `\\\\n`, multi-byte) whose wire bytes are split on newline and unescaped with the harness's own inverse, and line sequences written to the socket in odd chunks. Real-binary phase: 48 (quick) / 1200 (thorough) generated programs (C13's generator; 1 in 4 ends with a burst of port messages) through the release binary started with -s -w over TCP: lines received, unescaped, == `ready` + the messages of the in-process run - nothing lost when the process exits. Rare class: batches of 255-4096 lines between two polls. Oracle = reference interpreter of the protocol (byte map, pins, latch/direction): final cells, pin bytes, DDR, DR reads and the sequence of announced output changes equal the model for every schedule; one wire line per emitted message, in order, unescape(line) == message, escape injective. Non-trivial = a malformed/ineffective line followed by an effective one, or a pause..start window containing effective lines, or an outgoing text with newline/backslash.";
    finish(ctx, P, stats, rule, vec!["interleavings of the socket worker threads with the CPU loop are sampled by the OS, not enumerated; the one-batch schedule is deterministic".into(), "that a paused guest executes nothing is not asserted (it would need a wall-clock absence check)".into()], Map::new())
}
