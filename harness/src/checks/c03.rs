//! C03 - logic, shift and rotate instructions match the manual bit for bit.

use super::alu::*;
use super::common::*;
use super::driver::*;
use crate::engine::run::*;
use crate::engine::stats::*;
use crate::engine::stepcase::*;
use crate::gen::*;
use crate::refmodel::insn::*;
use serde_json::{json, Map};

const P: &str = "C03";

pub fn bits32() -> Vec<u32> {
    let mut v = vec![0u32, 0xffff_ffff];
    for i in 0..32 {
        v.push(1 << i);
        v.push(!(1u32 << i));
        v.push(3u32.rotate_left(i));
        v.push((1u64 << i).wrapping_sub(1) as u32);
        v.push(!((1u64 << i).wrapping_sub(1) as u32));
    }
    v.sort();
    v.dedup();
    v
}

pub fn classify(case: &StepCase, j: &Judged, t: &Tag, stats: &mut Stats) {
    let form = t.insn.form();
    stats.class(&format!("form: {}", form));
    let delta = flag_delta(case.ccr, j.emu_ccr);
    let dsz = t.form.dsz();
    let after = get_reg(&j.emu_er, dsz, t.dreg);
    if after != t.a || !delta.is_empty() {
        let key = key_hash(&(form, t.sreg, t.dreg, case.ccr & 0x0f, j.emu_ccr & 0x0f, value_class(dsz, t.a)));
        stats.nontrivial(key, || sample_json(case, j));
    }
}

pub fn run(ctx: &Ctx) -> i32 {
    if let Some(v) = &ctx.replay {
        if crate::checks::soup::is_soup_replay(v) {
            return crate::checks::soup::replay(ctx, P, v);
        }
        return replay_step(ctx, P, v);
    }
    let forms = logic_forms();
    let tier = ctx.tier;
    let b = |e: &mut Ent, f: Force| build(&logic_forms(), e, &f);
    let enumerated = |emit: &mut dyn FnMut(&str, Builder<Tag>)| {
        let forms = logic_forms();
        let b32 = bits32();
        for (fi, form) in forms.iter().enumerate() {
            let dsz = form.dsz();
            if dsz == Sz::B {
                let bs: u32 = if form.is_binary() { 256 } else { 1 };
                for a in 0..256u32 {
                    for bv in 0..bs {
                        for c in 0..2u8 {
                            emit("8-bit: every (a, b, carry-in)", &|e| {
                                let ccr = (e.u8() & 0xfe) | c;
                                b(e, Force { form: Some(fi), a: Some(a), b: Some(bv), ccr: Some(ccr), ..Default::default() })
                            });
                        }
                    }
                }
            }
            if dsz == Sz::W {
                if form.is_binary() {
                    for &a in super::c02::OPSET16.iter() {
                        for &bv in super::c02::OPSET16.iter() {
                            emit("16-bit boundary pairs", &|e| b(e, Force { form: Some(fi), a: Some(a), b: Some(bv), ..Default::default() }));
                        }
                    }
                } else {
                    // unary 16-bit forms: every value x carry-in
                    for a in 0..65536u32 {
                        for c in 0..2u8 {
                            emit("16-bit unary: every (value, carry-in)", &|e| {
                                let ccr = (e.u8() & 0xfe) | c;
                                b(e, Force { form: Some(fi), a: Some(a), ccr: Some(ccr), ..Default::default() })
                            });
                        }
                    }
                }
            }
            if dsz == Sz::L {
                for &a in b32.iter() {
                    for c in 0..2u8 {
                        emit("32-bit bit-pattern set x carry-in", &|e| {
                            let ccr = (e.u8() & 0xfe) | c;
                            b(e, Force { form: Some(fi), a: Some(a), ccr: Some(ccr), ..Default::default() })
                        });
                    }
                }
            }
            let ns = form.ssz().map(nregs).unwrap_or(1);
            for s in 0..ns as u8 {
                for d in 0..nregs(dsz) as u8 {
                    emit("form x source reg x destination reg", &|e| b(e, Force { form: Some(fi), sreg: Some(s), dreg: Some(d), ..Default::default() }));
                }
            }
            for ccr in 0..=255u8 {
                for _k in 0..4 {
                    emit("form x CCR", &|e| b(e, Force { form: Some(fi), ccr: Some(ccr), ..Default::default() }));
                }
            }
        }
    };
    let mut stats = Drive {
        ctx,
        property: P,
        aspects: Aspects::STATE,
        salt: 0x0301_0000,
        nshards: 64,
        enumerated: &enumerated,
        random_cases: tier.pick(6_000_000, 400_000_000),
        build_random: &|e| b(e, Force::default()),
        classify: &|c, j, t: &Tag, s| classify(c, j, t, s),
        all_quirks: false,
    }
    .run();
    let n8: u64 = forms.iter().filter(|f| f.dsz() == Sz::B).map(|f| if f.is_binary() { 131072 } else { 512 }).sum();
    stats.exhaustive_subspaces.insert("8-bit forms x every (a, b, carry-in)".into(), n8);
    stats.exhaustive_subspaces.insert("16-bit unary forms x every (value, carry-in)".into(), forms.iter().filter(|f| f.dsz() == Sz::W && !f.is_binary()).count() as u64 * 131072);
    stats.exhaustive_subspaces.insert("form x source register x destination register".into(), forms.iter().map(|f| f.ssz().map(nregs).unwrap_or(1) as u64 * nregs(f.dsz()) as u64).sum());
    stats.exhaustive_subspaces.insert("form x CCR".into(), forms.len() as u64 * 256);
    let rule = "cases = AND/OR/XOR (B,W,L; immediate and register), NOT, EXTU and the one-bit SHAL/SHAR/SHLL/SHLR/ROTL/ROTR/ROTXL/ROTXR (B,W,L) with enumerated 8-bit operand triples, all 16-bit unary operands x carry-in, a 32-bit bit-pattern set, register pairs and CCR values crossed with proptest-generated register files / values; oracle = reference model post-state. Non-trivial = the result differs from the operand or a flag changes; distinct by (form, register fields, flags in, flags out, value class).";
    stats.merge(crate::checks::soup::phase(ctx, P, crate::checks::soup::Flavor::Logic, ctx.tier.pick(300000, 6000000), 0x3510000, false));
    let rule_soup = format!("{}{}", rule, crate::checks::soup::RULE);
    let rule: &str = &rule_soup;
    finish(ctx, P, stats, rule, vec!["reference model transcribed from the H8/300H programming manual (DESIGN 1.3, Appendix A.3)".into()], Map::new())
}
