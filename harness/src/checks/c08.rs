//! C08 - effective addresses are formed as the manual defines, modulo 2^24.

use super::common::*;
use super::driver::*;
use super::{c01, c04, c05, c06};
use crate::engine::emu::{baseline_byte, is_peripheral_reg, Emu};
use crate::engine::run::*;
use crate::engine::stats::*;
use crate::engine::stepcase::*;
use crate::gen::*;
use crate::refmodel::exec::{mapped, Outcome, MASK24};
use crate::refmodel::insn::*;
use serde_json::{json, Map};

const P: &str = "C08";

#[derive(Clone, Debug)]
pub struct Tag {
    pub insn: Insn,
    pub areg: Option<u8>,
    pub target: Option<u32>,
    pub wraps: bool,
}

/// operand addresses for C08: mostly mapped (region-aware, edges), some inaccessible ones
fn ea_target(e: &mut Ent, size: u32) -> u32 {
    let align = if size == 1 { 1 } else { 2 };
    match e.below(10) {
        0 => {
            // inaccessible: holes next to the regions and the top of the address space
            let holes = [0x000100u32, 0x3ffffe, 0x600000, 0xfedffe, 0xfee100, 0xffbf1e, 0xffffea, 0xfffffe, 0x800000, 0x100000];
            (e.pick(&holes).wrapping_add(e.below(4) * align)) & MASK24
        }
        1 | 2 => e.addr_in(Region::Vector, size, align), // low addresses: sums with positive displacements wrap
        3 | 4 => {
            let (_, hi) = Region::Ram.bounds();
            (hi + 1 - size - align * e.below(0x80)) & !(align - 1)
        }
        _ => e.data_addr(&[Region::Ram, Region::Dram, Region::Vector], size, align),
    }
}

/// does base (24-bit) + sign-extended displacement leave [0, 2^24)?
fn sum_wraps(base24: u32, disp: i64) -> bool {
    let s = base24 as i64 + disp;
    s < 0 || s > MASK24 as i64
}

fn storage_ok(t: u32, size: u32) -> bool {
    // plain storage or inaccessible; not a port/timer/bus-controller register
    !(0..size).any(|i| {
        let a = t.wrapping_add(i) & MASK24;
        is_peripheral_reg(a) || (0xfee000..=0xfee0ff).contains(&a)
    })
}

pub fn build(e: &mut Ent, kind: Option<u32>, upper: Option<u32>) -> (StepCase, Tag) {
    let kind = kind.unwrap_or_else(|| e.below(10));
    match kind {
        // --- MOV, all memory forms
        0..=4 => {
            let fs = c01::forms();
            let mem: Vec<usize> = (0..fs.len()).filter(|&i| !matches!(fs[i].1, c01::Mode::RR | c01::Mode::Imm)).collect();
            let fi = e.pick(&mem);
            let (sz, mode, _) = fs[fi];
            let mut t = ea_target(e, sz.bytes());
            if !storage_ok(t, sz.bytes()) {
                t = 0xffc000 + 2 * e.below(0x100);
            }
            let (disp, wraps) = match mode {
                c01::Mode::D16 => {
                    let d = disp16_mix(e);
                    let base = t.wrapping_sub((d as i16) as i32 as u32) & MASK24;
                    (Some(d as u32), sum_wraps(base, (d as i16) as i64))
                }
                c01::Mode::D24 => {
                    let d = disp24_mix(e);
                    let sd = if d & 0x800000 != 0 { (d | 0xff00_0000) as i32 as i64 } else { d as i64 };
                    let base = (t as i64 - sd).rem_euclid(1 << 24) as u32;
                    (Some(d), sum_wraps(base, sd))
                }
                _ => (None, false),
            };
            let force = c01::Force { form: Some(fi), target: Some(t), disp, upper, ..Default::default() };
            let force = match mode {
                c01::Mode::A8 | c01::Mode::A16 | c01::Mode::A24 => c01::Force { form: Some(fi), upper, ..Default::default() },
                _ => force,
            };
            let (case, insn, target, _) = c01::build(e, &force);
            (case, Tag { insn, areg: insn.mem_ea().and_then(|x| x.reg()), target, wraps })
        }
        // --- bit instructions on @ERd / @aa:8
        5 => {
            let fs = c04::forms();
            let mem: Vec<usize> = (0..fs.len()).filter(|&i| fs[i].2 != c04::TgtK::Reg).collect();
            let fi = e.pick(&mem);
            let mut t = ea_target(e, 1);
            if !storage_ok(t, 1) {
                t = 0xffc001 + e.below(0x100);
            }
            let (case, tag) = c04::build(e, &c04::Force { form: Some(fi), target: Some(t), upper, ..Default::default() });
            (case, Tag { insn: tag.insn, areg: tag.insn.mem_ea().and_then(|x| x.reg()), target: tag.addr, wraps: false })
        }
        // --- STC.W, all memory forms
        6 => {
            let areg = e.below(8) as u8;
            let mut t = ea_target(e, 2);
            if !storage_ok(t, 2) {
                t = 0xffc000 + 2 * e.below(0x100);
            }
            let mode = e.below(6);
            let mut er = e.regfile();
            let up = upper.unwrap_or_else(|| e.upper_byte());
            let mut wraps = false;
            let ea = match mode {
                0 => Ea::Ind(areg),
                1 => {
                    let d = disp16_mix(e);
                    wraps = sum_wraps(t.wrapping_sub((d as i16) as i32 as u32) & MASK24, (d as i16) as i64);
                    Ea::D16(areg, d)
                }
                2 => {
                    let d = disp24_mix(e);
                    let sd = if d & 0x800000 != 0 { (d | 0xff00_0000) as i32 as i64 } else { d as i64 };
                    wraps = sum_wraps((t as i64 - sd).rem_euclid(1 << 24) as u32, sd);
                    Ea::D24(areg, d)
                }
                3 => Ea::Pre(areg),
                4 => {
                    let a = if e.chance(1, 2) { e.addr_in(Region::Vector, 2, 2) } else { e.addr_in(Region::Ram, 2, 2) };
                    t = a;
                    Ea::A16(a as u16)
                }
                _ => Ea::A24(t),
            };
            if ea.reg().is_some() {
                er[areg as usize] = reg_for_ea(&ea, t, Sz::W) | up;
            }
            let insn = Insn::StcW { ea };
            let code = encode(&insn);
            let pc = e.code_addr(code.len() as u32, &[t]);
            (StepCase { code, pc, er, ccr: e.u8(), patches: vec![], bus: e.bus_cfg(), irq: None, primer: None }, Tag { insn, areg: ea.reg(), target: Some(t), wraps })
        }
        // --- JMP/JSR @ERn, @@aa:8 and the stack accesses of BSR/JSR/RTS
        7 | 8 => {
            let k = e.pick(&[2usize, 4, 5, 6, 7, 8, 9, 10]);
            let (case, t) = c05::build(e, &c05::Force { kind: Some(k), ..Default::default() });
            let areg = match t.insn {
                Insn::Jmp(JTarget::Reg(r)) | Insn::Jsr(JTarget::Reg(r)) => Some(r),
                _ => Some(7),
            };
            (case, Tag { insn: t.insn, areg, target: t.frame.or(Some(t.target)), wraps: false })
        }
        // --- exception frames: TRAPA / RTE
        _ => {
            let k = e.pick(&[0u8, 2]);
            let (case, t) = c06::build(e, &c06::Force { kind: Some(k), ..Default::default() });
            let insn = if k == 0 { Insn::Trapa(t.n) } else { Insn::Rte };
            (case, Tag { insn, areg: Some(7), target: Some(t.frame), wraps: false })
        }
    }
}

fn classify(case: &StepCase, j: &Judged, t: &Tag, stats: &mut Stats) {
    stats.class(&format!("form: {}", t.insn.form()));
    let upper = t.areg.map(|r| case.er[r as usize] >> 24 != 0).unwrap_or(false);
    let edge = t.target.map(|a| {
        crate::refmodel::exec::REGIONS.iter().any(|&(lo, hi, _)| a.abs_diff(lo) < 4 || a.abs_diff(hi) < 8)
    }).unwrap_or(false);
    if upper {
        stats.class("address register upper byte != 0");
    }
    if t.wraps {
        stats.class("base + displacement wraps modulo 2^24");
    }
    if edge {
        stats.class("EA within 4 bytes of a region edge");
    }
    match &j.step.outcome {
        Outcome::Ok => stats.class("EA accessible: access performed"),
        Outcome::AccessFault(_) => stats.class("EA inaccessible: access error"),
        _ => {}
    }
    if upper || t.wraps || edge {
        let key = key_hash(&(t.insn.form(), t.areg, t.areg.map(|r| case.er[r as usize] >> 24), t.target, t.wraps));
        stats.nontrivial(key, || sample_json(case, j));
    }
}

/// metamorphic check: the same case with another upper byte in the address register must access the
/// same location and produce the same result (compared emulator against emulator)
fn twin_check(emu: &mut Emu, case: &StepCase, t: &Tag, other_upper: u32, ev: &StepEval) -> Option<String> {
    let r = t.areg? as usize;
    let mut twin = case.clone();
    twin.er[r] = (case.er[r] & MASK24) | (other_upper << 24);
    if twin.er[r] == case.er[r] {
        return None;
    }
    // a data register sharing ERn with the address register changes the data: not comparable
    let data_reg_shares = match t.insn {
        Insn::Load { d, sz, .. } => sz == Sz::L && d as usize == r || false,
        Insn::Store { s, .. } => (s & 7) as usize == r,
        Insn::Bit { sel: BitSel::Reg(b), .. } => (b & 7) as usize == r,
        _ => false,
    };
    if data_reg_shares {
        return None;
    }
    let a = judge(emu, case, &ev.aspects, &ev.quirks);
    let b = judge(emu, &twin, &ev.aspects, &ev.quirks);
    if a.emu.kind() != b.emu.kind() {
        return Some(format!("result differs with upper byte {:02x} vs {:02x}: {:?} vs {:?}", case.er[r] >> 24, other_upper, a.emu, b.emu));
    }
    if !matches!(a.emu, EmuResult::Ok(_)) {
        return None;
    }
    for i in 0..8 {
        let (x, y) = (a.emu_er[i], b.emu_er[i]);
        let same = if i == r {
            // low 24 bits equal; the change of the full register equals in both runs
            (x & MASK24) == (y & MASK24) && x.wrapping_sub(case.er[r]) == y.wrapping_sub(twin.er[r])
        } else {
            // a loaded destination may *be* a view of the address register only for non +/- forms
            x == y
        };
        if !same && !(i == r && matches!(t.insn, Insn::Load { .. })) {
            return Some(format!("ER{} differs with upper byte {:02x} vs {:02x}: {:08x} vs {:08x}", i, case.er[r] >> 24, other_upper, x, y));
        }
    }
    if a.emu_ccr != b.emu_ccr || a.emu_pc != b.emu_pc {
        return Some(format!("CCR/PC differ with another upper byte: {:02x}/{:06x} vs {:02x}/{:06x}", a.emu_ccr, a.emu_pc, b.emu_ccr, b.emu_pc));
    }
    if a.mem_diff != b.mem_diff {
        return Some(format!("memory effects differ with upper byte {:02x} vs {:02x}", case.er[r] >> 24, other_upper));
    }
    None
}
use crate::engine::emu::EmuResult;

pub fn run(ctx: &Ctx) -> i32 {
    if let Some(v) = &ctx.replay {
        if crate::checks::soup::is_soup_replay(v) {
            return crate::checks::soup::replay(ctx, P, v);
        }
        return replay_step(ctx, P, v);
    }
    let tier = ctx.tier;
    let enumerated = |emit: &mut dyn FnMut(&str, Builder<Tag>)| {
        // (1) every kind x all 256 upper bytes
        for up in 0..256u32 {
            for kind in 0..7u32 {
                for _k in 0..tier.pick(24, 400) {
                    emit("instruction kind x upper byte 0x00-0xFF", &|e| build(e, Some(kind), Some(up << 24)));
                }
            }
        }
        // (2) all @aa:8 values and all @aa:16 values (MOV.B/W/L load and store)
        let fs = c01::forms();
        for (fi, f) in fs.iter().enumerate() {
            match f.1 {
                c01::Mode::A8 => {
                    for aa in 0..256u32 {
                        if !storage_ok(0xffff00 | aa, 1) {
                            continue;
                        }
                        emit("@aa:8: all 256 values", &|e| {
                            let (case, insn, target, _) = c01::build(e, &c01::Force { form: Some(fi), abs: Some(aa), ..Default::default() });
                            (case, Tag { insn, areg: None, target, wraps: false })
                        });
                    }
                }
                c01::Mode::A16 => {
                    let stride = tier.pick(if f.0 == Sz::B { 3 } else { 6 }, if f.0 == Sz::B { 1 } else { 2 });
                    let mut aa = 0u32;
                    while aa < 65536 {
                        let t = ((aa as u16 as i16) as i32 as u32) & MASK24;
                        if storage_ok(t, f.0.bytes()) {
                            emit("@aa:16: all 65536 values (even for W/L)", &|e| {
                                let (case, insn, target, _) = c01::build(e, &c01::Force { form: Some(fi), abs: Some(aa), ..Default::default() });
                                (case, Tag { insn, areg: None, target, wraps: false })
                            });
                        }
                        aa += stride;
                    }
                }
                _ => {}
            }
        }
        // (3) JMP/JSR @@aa:8: all long-aligned vector addresses
        for aa in (0..256u32).step_by(2) {
            for k in [4usize, 9] {
                emit("@@aa:8: every even aa", &|e| {
                    let (mut case, t) = c05::build(e, &c05::Force { kind: Some(k), ..Default::default() });
                    // move the vector entry to aa
                    if let Some(p) = case.patches.iter_mut().find(|p| p.0 < 0x100 && p.1.len() == 4) {
                        if aa <= 0xfc {
                            p.0 = aa;
                            case.code[1] = aa as u8;
                        }
                    }
                    let insn = match decode_bytes(&{ let mut c = case.code.clone(); c.extend([0u8; 8]); c }).class {
                        Class::Impl(i) => i,
                        _ => t.insn,
                    };
                    (case, Tag { insn, areg: None, target: Some(aa), wraps: false })
                });
            }
        }
    };
    let mut stats = Drive {
        ctx,
        property: P,
        aspects: Aspects::STATE,
        salt: 0x0801_0000,
        nshards: 64,
        enumerated: &enumerated,
        random_cases: tier.pick(6_000_000, 320_000_000),
        build_random: &|e| build(e, None, None),
        classify: &|c, j, t: &Tag, s| classify(c, j, t, s),
        all_quirks: false,
    }
    .run();
    stats.exhaustive_subspaces.insert("instruction kind x address-register upper byte".into(), 7 * 256);
    stats.exhaustive_subspaces.insert("@aa:8 operand values".into(), 256);

    // metamorphic phase: upper-byte invariance, emulator against emulator
    let ntwin: u32 = tier.pick(1_000_000, 20_000_000);
    let nshards = 32usize;
    let tstats = par_shards(ctx, nshards, |shard| {
        let w = Worker::new(ctx);
        let ev = StepEval::new(ctx, P, Aspects::STATE);
        let ent = entropy();
        let _ = run_prop(mix(ctx.seed, 0x0802_0000 + shard as u64), ntwin / nshards as u32, &ent, |raw, shrinking| {
            let mut e = Ent::new(raw);
            let kind = e.below(8);
            let (case, tag) = build(&mut e, Some(kind), None);
            let other = e.u8() as u32;
            let r = twin_check(&mut w.emu.borrow_mut(), &case, &tag, other, &ev);
            let mut st = w.stats.borrow_mut();
            match r {
                None => {
                    if !shrinking {
                        st.evaluations += 1;
                        st.class("metamorphic pair: same case under two upper bytes");
                    }
                    Ok(())
                }
                Some(m) => {
                    let sig = format!("{} | upper-byte invariance", tag.insn.form());
                    let f = Failure { signature: sig.clone(), detail: m, case: json!({"kind": "step", "aspects": "state", "step": case.to_json(), "brief": case.brief(), "other_upper": other}) };
                    if ctx.survey {
                        if !shrinking {
                            st.survey_fail(f);
                        }
                        Ok(())
                    } else {
                        st.failures.clear();
                        st.fail(f);
                        Err(sig)
                    }
                }
            }
        });
        w.stats.into_inner()
    });
    stats.merge(tstats);
    let rule = "cases = every instruction form with a memory operand (MOV B/W/L all modes, bit instructions on @ERd/@aa:8, STC.W all modes, JMP/JSR @ERn/@@aa:8, the stack accesses of PUSH/POP/BSR/JSR/RTS/RTE/TRAPA) with effective addresses across RAM/DRAM/vector area incl. region edges and inaccessible holes, displacements chosen so that base+disp crosses 0 / 2^24 / 2^32, all 256 upper bytes per kind, all @aa:8 and @aa:16 values, every @@aa:8 vector; memory is address-tagged so the accessed location is observable. Oracle = reference model (EA modulo 2^24; accessible -> access performed at exactly that location, inaccessible -> error) plus the metamorphic relation 'another upper byte in the address register changes nothing'. Non-trivial = upper byte != 0, or base+disp wraps, or EA within 4 bytes of a region edge; distinct by (form, register, upper byte, EA, wrap).";
    let mut extra = Map::new();
    extra.insert("masked_details".into(), json!(["byte layout of the word stored by STC.W (only which addresses are written is compared)", "top byte of call frames"]));
    stats.merge(crate::checks::soup::phase(ctx, P, crate::checks::soup::Flavor::Ea, ctx.tier.pick(300000, 6000000), 0x8510000, false));
    let rule_soup = format!("{}{}", rule, crate::checks::soup::RULE);
    let rule: &str = &rule_soup;
    finish(ctx, P, stats, rule, vec!["reference model transcribed from the H8/300H programming manual (DESIGN Appendix A.1 EA rules)".into()], extra)
}
