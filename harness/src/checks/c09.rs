//! C09 - the guest address space is decoded exactly, without aliasing, big-endian.

use super::common::*;
use crate::engine::emu::*;
use crate::engine::run::*;
use crate::engine::stats::*;
use crate::engine::stepcase::{hex, unhex};
use crate::gen::*;
use crate::refmodel::insn::*;
use serde_json::{json, Map, Value};
use std::collections::{BTreeMap, HashMap};

const P: &str = "C09";

/// the statement's five accessible ranges, written here independently of bus.rs
fn accessible(addr: u64) -> bool {
    matches!(addr, 0x000000..=0x0000ff | 0x400000..=0x5fffff | 0xfee000..=0xfee0ff | 0xffbf20..=0xffff1f | 0xffff20..=0xffffe9)
}
fn is_port_reg(addr: u32) -> bool {
    matches!(addr, 0xfee000..=0xfee00a | 0xffffd0..=0xffffda)
}
fn h(pass: u32, addr: u32) -> u8 {
    let x = (addr ^ pass.wrapping_mul(0x9e37_79b9)).wrapping_mul(0x85eb_ca6b);
    ((x >> 13) ^ (x >> 24) ^ pass) as u8
}

// ------------------------------------------------------------------ histories through real MOV instructions

#[derive(Clone, Debug, PartialEq)]
struct Op {
    write: bool,
    sz: u8, // 0 B, 1 W, 2 L
    addr: u32,
    value: u32,
    reg: u8,
    /// addressing mode of the load / store: 0 @aa:24, 1 @aa:16, 2 @aa:8, 3 @ERn, 4 @(d:16,ERn), 5 @ERn+ / @-ERn,
    /// 6 @(d:24,ERn) - whatever is not encodable for the address and size falls back to @aa:24
    mode: u8,
    /// where the executing instruction sits: 0 at the fixed scratch location, 1 immediately before its operand
    /// (code that stores into the word right behind itself), 2 immediately behind its operand
    place: u8,
}
const CODE: u32 = 0xffd000;
/// MOV.W R0,R0: changes no register and no memory (this emulator does not implement NOP)
const FETCHED: u32 = 0x0d00;

fn edge_addr(e: &mut Ent) -> u32 {
    let edges: [u32; 10] = [0x000000, 0x0000ff, 0x400000, 0x5fffff, 0xfee000, 0xfee0ff, 0xffbf20, 0xffff1f, 0xffff20, 0xffffe9];
    let a = match e.below(9) {
        8 => {
            // a plain location that shares something with a register somebody owns: the same offset in the *other*
            // register block (timer registers H'FFFF80.. <-> H'FEE060.., port DRs H'FFFFD0.. <-> H'FEE0B0.., bus
            // controller H'FEE020.. <-> H'FFFF40.., DDRs H'FEE000.. <-> H'FFFF20..), or the same low 8 / 16 / 20 bits in
            // on-chip RAM or DRAM
            let owned = e.pick(&[0xffff80u32, 0xffff82, 0xffff84, 0xffff86, 0xffff88, 0xffffd0, 0xffffd3, 0xffffda, 0xfee020, 0xfee021, 0xfee026, 0xfee000, 0xfee005]) + e.below(2);
            match e.below(5) {
                0 | 1 => {
                    if owned >= 0xffff20 {
                        0xfee000 + (owned - 0xffff20)
                    } else {
                        0xffff20 + (owned - 0xfee000)
                    }
                }
                2 => 0xffc000 | (owned & 0xff),
                3 => 0x400000 | (owned & 0xffff) | (e.below(0x20) << 16),
                _ => 0x400000 | (owned & 0xf_ffff) | (e.below(2) << 20),
            }
        }
        0..=3 => {
            let ed = e.pick(&edges);
            (ed as i64 + e.below(13) as i64 - 6).clamp(0, 0xff_ffff) as u32
        }
        4 => e.pick(&[0x0000f0u32, 0x400100, 0x5fff00, 0xffbf30, 0xffff00, 0xfee030, 0xffff40]) + e.below(16),
        5 => 0x400000 + e.below(0x200000),
        6 => 0xffbf20 + e.below(0x4000),
        _ => e.u32() & 0xff_ffff,
    };
    a
}

fn build_history(e: &mut Ent) -> Vec<Op> {
    let n = 1 + e.below(60) as usize;
    let mut ops: Vec<Op> = vec![];
    // a small pool so that later accesses overlap earlier ones
    let pool: Vec<u32> = (0..6).map(|_| edge_addr(e)).collect();
    for _ in 0..n {
        let sz = e.below(3) as u8;
        let size = 1u32 << sz;
        let mut addr = if e.chance(2, 3) { (e.pick(&pool) as i64 + e.below(7) as i64 - 3).clamp(0, 0xff_ffff) as u32 } else { edge_addr(e) };
        if sz > 0 {
            addr &= !1;
        }
        // keep clear of the instruction being executed and of the port registers (C16's subject)
        let clash = |a: u32| (a + size > CODE - 8 && a < CODE + 16) || (0..size).any(|i| is_port_reg(a + i));
        if clash(addr) {
            addr = 0xffe000 + (addr & 0xfe);
        }
        if e.chance(1, 40) {
            ops.push(Op { write: false, sz: 4, addr: 0, value: e.u32(), reg: 0, mode: 0, place: 0 });
            continue;
        }
        if e.chance(1, 7) {
            // an instruction fetch is a read too (sz 3): from an accessible word it must see what the data
            // path stored there (MOV.W R0,R0 is stored first), from anywhere else it must fail and change nothing
            let mut pc = addr & !1;
            if e.chance(1, 8) {
                pc |= e.pick(&[0x0100_0000u32, 0x8000_0000, 0xff00_0000]);
            }
            let clash2 = |a: u32| (a + 2 > CODE - 8 && a < CODE + 16) || is_port_reg(a) || is_port_reg(a + 1);
            if pc < 0x0100_0000 && clash2(pc) {
                pc = 0xffe000 + (pc & 0xfe);
            }
            if accessible(pc as u64) && accessible(pc as u64 + 1) {
                // the instruction is stored by the data path: through any addressing mode, now and then by an
                // instruction that sits right in front of the word it stores (a fetch of that instruction has just
                // gone over the neighbourhood), and now and then after the word in front of it was fetched
                if e.chance(1, 3) && pc >= 2 && accessible(pc as u64 - 2) && !clash2(pc - 2) {
                    ops.push(Op { write: true, sz: 1, addr: pc - 2, value: FETCHED, reg: e.below(16) as u8, mode: e.below(7) as u8, place: 0 });
                    ops.push(Op { write: false, sz: 3, addr: pc - 2, value: e.u32(), reg: 0, mode: 0, place: 0 });
                }
                ops.push(Op { write: true, sz: 1, addr: pc, value: FETCHED, reg: e.below(16) as u8, mode: e.below(7) as u8, place: e.pick(&[0u8, 0, 1, 1, 2]) });
            }
            ops.push(Op { write: false, sz: 3, addr: pc, value: e.u32(), reg: 0, mode: 0, place: 0 });
            continue;
        }
        ops.push(Op { write: e.chance(1, 2), sz, addr, value: e.u32(), reg: e.below(if sz == 2 { 8 } else { 16 }) as u8, mode: e.below(7) as u8, place: e.pick(&[0u8, 0, 0, 0, 1, 2]) });
    }
    ops
}

/// Err(detail) on violation; Ok((overlap reads, edge accesses, failing accesses))
fn run_history(emu: &mut Emu, ops: &[Op]) -> Result<(usize, usize, usize), String> {
    let mut model: HashMap<u32, u8> = HashMap::new(); // byte map over the baseline
    let get = |m: &HashMap<u32, u8>, a: u32| m.get(&a).copied().unwrap_or_else(|| baseline_byte(a));
    let mut written_extents: Vec<(u32, u32)> = vec![];
    let (mut overlap_reads, mut edge, mut failing) = (0, 0, 0);
    let mut result = Ok(());
    for (idx, op) in ops.iter().enumerate() {
        if op.sz == 4 {
            // time passes with the 8-bit timer counting: the owning peripheral may overwrite *its* registers (TCNT0,
            // TCSR0) - every other location keeps reading what was written to it (the final comparison sees any
            // byte the peripheral touched that it does not own)
            // (a *quiet* tick, one in three: nothing is written - time just passes. If the TCR0 the history left
            // selects no clock, the counter and its flags are plain storage like everything else and must not move)
            let quiet = (op.value >> 16) % 3 == 0;
            if !quiet {
                let tcr = 0x01 | ((op.value as u8) & 0xf8);
                if gwrite(emu, 0xffff80, tcr).is_err() {
                    result = Err(format!("op {} {:?}: the store to TCR0 failed", idx, op));
                    break;
                }
                model.insert(0xffff80, tcr);
            }
            let counting = get(&model, 0xffff80) & 7 != 0;
            for _ in 0..1 + (op.value >> 8) % 40 {
                let cpu = &mut emu.cpu;
                if !matches!(guarded(|| crate::cpu::verif_hooks::update_modules(cpu, 255)), Ok(Ok(()))) {
                    result = Err(format!("op {} {:?}: update_modules failed", idx, op));
                    break;
                }
            }
            emu.drain_pending();
            // the drain's scratch frame: back to what the history made of those bytes
            for a in 0xffe7fcu32..0xffe800 {
                raw_set(&mut emu.cpu.bus, a, get(&model, a));
            }
            if counting {
                for a in [0xffff88u32, 0xffff82] {
                    if let Some(v) = raw_get(&emu.cpu.bus, a) {
                        model.insert(a, v);
                    }
                }
            }
            continue;
        }
        if op.sz == 3 {
            // instruction fetch at op.addr
            let pc = op.addr;
            let ok = accessible(pc as u64) && accessible(pc as u64 + 1);
            if ok && (get(&model, pc) != (FETCHED >> 8) as u8 || get(&model, pc + 1) != FETCHED as u8) {
                continue; // not the stored instruction (replay files edited by hand): what would execute is not this check's subject
            }
            let er = [op.value; 8];
            emu.cpu.er = er;
            emu.set_pc(pc);
            emu.set_ccr(0);
            emu.clear_write_log();
            let res = emu.step();
            let log: Vec<u32> = emu.cpu.bus.verif_write_log.clone();
            if !log.is_empty() {
                result = Err(format!("op {} {:?}: an instruction fetch wrote to {:06x?}", idx, op, log));
                break;
            }
            if emu.cpu.er != er {
                result = Err(format!("op {} {:?}: an instruction fetch (of MOV.W R0,R0 / failing) changed the registers", idx, op));
                break;
            }
            match (ok, res) {
                (true, EmuResult::Ok(_)) => {
                    if emu.pc() != pc + 2 {
                        result = Err(format!("op {} {:?}: the MOV.W R0,R0 stored at {:06x} was not what the instruction fetch saw (PC {:06x})", idx, op, pc, emu.pc()));
                        break;
                    }
                    edge += 1;
                }
                (true, other) => {
                    result = Err(format!("op {} {:?}: the word at {:06x} is accessible and holds the MOV.W R0,R0 stored there, the fetch failed: {:?}", idx, op, pc, other));
                    break;
                }
                (false, EmuResult::Err(_)) => failing += 1,
                (false, other) => {
                    result = Err(format!("op {} {:?}: instruction fetch from an inaccessible address did not fail: {:?}", idx, op, other));
                    break;
                }
            }
            continue;
        }
        let sz = [Sz::B, Sz::W, Sz::L][op.sz as usize];
        let size = sz.bytes();
        // addressing mode (falls back to @aa:24 where the address / size cannot be encoded)
        let data_er = (op.reg & 7) as usize;
        let base = ((data_er + 1) & 7) as u8;
        let a = op.addr;
        let d16: u16 = (op.value >> 7) as u16;
        let d24: u32 = (op.value >> 5) & 0xff_ffff;
        let sext24 = |d: u32| if d & 0x80_0000 != 0 { d | 0xff00_0000 } else { d };
        let (ea, base_val): (Ea, Option<u32>) = match op.mode {
            1 if a <= 0x7fff || a >= 0xff_8000 => (Ea::A16(a as u16), None),
            2 if sz == Sz::B && a >= 0xff_ff00 => (Ea::A8(a as u8), None),
            3 => (Ea::Ind(base), Some(a)),
            4 => (Ea::D16(base, d16), Some(a.wrapping_sub(d16 as i16 as i32 as u32) & 0xff_ffff)),
            5 if op.write => (Ea::Pre(base), Some(a.wrapping_add(size))),
            5 => (Ea::Post(base), Some(a)),
            6 => (Ea::D24(base, d24), Some(a.wrapping_sub(sext24(d24)) & 0xff_ffff)),
            _ => (Ea::A24(a), None),
        };
        let insn = if op.write { Insn::Store { sz, s: op.reg, ea } } else { Insn::Load { sz, ea, d: op.reg } };
        let code = encode(&insn);
        let len = code.len() as u32;
        // where the instruction sits
        let in_code_mem = |lo: u32| {
            let hi = lo + len;
            ((0xffbf20..=0xffff1f).contains(&lo) && hi <= 0xffff20 || (0x400000..=0x5fffff).contains(&lo) && hi <= 0x600000) && lo & 1 == 0
        };
        let at = match op.place {
            1 if a >= len && in_code_mem((a - len) & !1) && ((a - len) & !1) + len <= a => (a - len) & !1,
            2 if in_code_mem((a + size + 1) & !1) => (a + size + 1) & !1,
            _ => CODE,
        };
        let saved: Vec<u8> = (0..len).map(|i| raw_get(&emu.cpu.bus, at + i).unwrap_or(0)).collect();
        for (i, b) in code.iter().enumerate() {
            emu.set_byte(at + i as u32, *b);
        }
        let mut er = [0x1111_1111u32.wrapping_mul(idx as u32 + 1); 8];
        if let Some(bv) = base_val {
            er[base as usize] = bv;
        }
        put_reg(&mut er, sz, op.reg, op.value);
        emu.cpu.er = er;
        emu.set_pc(at);
        emu.set_ccr(0);
        emu.clear_write_log();
        let res = emu.step();
        let log: Vec<u32> = emu.cpu.bus.verif_write_log.clone();
        if at != CODE {
            // take the instruction away again (through the write path): memory is what the history made it
            for (i, b) in saved.iter().enumerate() {
                emu.set_byte(at + i as u32, *b);
            }
        }
        let all_ok = (0..size).all(|i| accessible(op.addr as u64 + i as u64));
        if crate::refmodel::exec::REGIONS.iter().any(|&(lo, hi, _)| op.addr.abs_diff(lo) < 4 || op.addr.abs_diff(hi) < 4) {
            edge += 1;
        }
        if all_ok {
            match res {
                EmuResult::Ok(_) => {}
                other => {
                    result = Err(format!("op {} {:?}: every byte is accessible but the access failed: {:?}", idx, op, other));
                    break;
                }
            }
            if op.write {
                let bytes = be_bytes(sz, get_reg(&er, sz, op.reg));
                for (i, b) in bytes.iter().enumerate() {
                    model.insert(op.addr + i as u32, *b);
                }
                written_extents.push((op.addr, size));
                if let Some(bad) = log.iter().find(|&&a| a < op.addr || a >= op.addr + size) {
                    result = Err(format!("op {} {:?}: the store also wrote address {:06x}", idx, op, bad));
                    break;
                }
            } else {
                let mut exp = 0u32;
                for i in 0..size {
                    exp = (exp << 8) | get(&model, op.addr + i) as u32;
                }
                let got = get_reg(&emu.cpu.er, sz, op.reg);
                if got != exp {
                    result = Err(format!("op {} {:?}: read {:x}, the big-endian composition of the bytes last written is {:x}", idx, op, got, exp));
                    break;
                }
                if written_extents.iter().any(|&(a, s)| a < op.addr + size && op.addr < a + s && (a, s) != (op.addr, size)) {
                    overlap_reads += 1;
                }
                if !log.is_empty() {
                    result = Err(format!("op {} {:?}: a load wrote to {:06x?}", idx, op, log));
                    break;
                }
            }
        } else {
            failing += 1;
            match res {
                EmuResult::Err(_) => {}
                other => {
                    result = Err(format!("op {} {:?}: touches an inaccessible byte but did not fail: {:?}", idx, op, other));
                    break;
                }
            }
            // nothing outside the access's own extent may change; inside it, partial effects are not constrained
            if let Some(bad) = log.iter().find(|&&a| a < op.addr || a >= op.addr + size) {
                result = Err(format!("op {} {:?}: the failing access wrote address {:06x} outside its extent", idx, op, bad));
                break;
            }
            if !op.write && !log.is_empty() {
                result = Err(format!("op {} {:?}: a failing load wrote to {:06x?}", idx, op, log));
                break;
            }
            for i in 0..size {
                let a = op.addr + i;
                if let Some(v) = raw_get(&emu.cpu.bus, a) {
                    model.insert(a, v);
                }
            }
        }
    }
    // final: the whole guest memory equals baseline + model (code bytes excluded)
    for i in 0..16 {
        raw_set(&mut emu.cpu.bus, CODE + i, baseline_byte(CODE + i));
    }
    let diff = emu.diff(&[], true);
    if result.is_ok() {
        let mut exp: BTreeMap<u32, u8> = BTreeMap::new();
        for (&a, &v) in &model {
            if v != baseline_byte(a) {
                exp.insert(a, v);
            }
        }
        if diff != exp {
            let bad = diff.iter().find(|(a, v)| exp.get(a) != Some(v)).map(|(a, v)| (*a, *v)).or_else(|| exp.iter().find(|(a, _)| !diff.contains_key(a)).map(|(a, v)| (*a, *v)));
            result = Err(format!("after the history memory differs from the byte-map model, first at {:06x?}", bad));
        }
    }
    let keys: Vec<u32> = diff.keys().copied().collect();
    emu.restore(keys.iter());
    emu.soft_reset();
    result.map(|_| (overlap_reads, edge, failing))
}

fn ops_json(ops: &[Op]) -> Value {
    json!({"kind": "history", "ops": ops.iter().map(|o| json!([o.write, o.sz, o.addr, o.value, o.reg, o.mode, o.place])).collect::<Vec<_>>()})
}
fn ops_from_json(v: &Value) -> Option<Vec<Op>> {
    Some(
        v.get("ops")?
            .as_array()?
            .iter()
            .filter_map(|o| Some(Op { write: o.get(0)?.as_bool()?, sz: o.get(1)?.as_u64()? as u8, addr: o.get(2)?.as_u64()? as u32, value: o.get(3)?.as_u64()? as u32, reg: o.get(4)?.as_u64()? as u8, mode: o.get(5).and_then(|x| x.as_u64()).unwrap_or(0) as u8, place: o.get(6).and_then(|x| x.as_u64()).unwrap_or(0) as u8 }))
            .collect(),
    )
}

// ------------------------------------------------------------------ exhaustive parts

/// bus accesses of the check itself: a panic is a failed access (with the message), never the end of the check
fn gwrite(emu: &mut Emu, a: u32, v: u8) -> Result<(), String> {
    let bus = &mut emu.cpu.bus;
    match guarded(|| bus.write(a, v)) {
        Ok(Ok(())) => Ok(()),
        Ok(Err(e)) => Err(e.to_string()),
        Err(p) => Err(format!("panic: {}", p)),
    }
}
fn gread(emu: &mut Emu, a: u32) -> Result<u8, String> {
    let bus = &mut emu.cpu.bus;
    match guarded(|| bus.read(a)) {
        Ok(Ok(v)) => Ok(v),
        Ok(Err(e)) => Err(e.to_string()),
        Err(p) => Err(format!("panic: {}", p)),
    }
}

/// classification of addresses [lo, hi): read succeeds iff accessible; inaccessible writes fail and change nothing
fn classify_range(emu: &mut Emu, lo: u64, hi: u64, step: u64, stats: &mut Stats) -> Result<(), (String, u32)> {
    let mut a = lo;
    while a < hi {
        let addr = a as u32;
        let acc = accessible(a);
        let r = gread(emu, addr);
        if r.is_ok() != acc {
            return Err((format!("read of {:08x}: {} but the address is {}", addr, if r.is_ok() { "succeeds" } else { "fails" }, if acc { "accessible" } else { "inaccessible" }), addr));
        }
        if !acc {
            let w = gwrite(emu, addr, h(7, addr));
            if w.is_ok() {
                return Err((format!("write to inaccessible address {:08x} succeeds", addr), addr));
            }
        }
        stats.evaluations += 1;
        a += step;
    }
    Ok(())
}

pub fn run(ctx: &Ctx) -> i32 {
    if let Some(v) = &ctx.replay {
        let case = v.get("case").unwrap_or(v);
        if let Some(r) = replay_setup_write(case) {
            return match r {
                Ok(()) => {
                    println!("replay {}: the store passes", P);
                    0
                }
                Err(m) => {
                    let f = Failure { signature: "panic in the bus write path".into(), detail: m, case: case.clone() };
                    let p = write_replay(P, &f);
                    println!("VIOLATION property={} replay={}", P, p.display());
                    println!("  detail: {}", f.detail);
                    1
                }
            };
        }
        let mut emu = Emu::new(&ctx.base);
        if let Some(ops) = ops_from_json(case) {
            return match run_history(&mut emu, &ops) {
                Ok(_) => {
                    println!("replay {}: history passes", P);
                    0
                }
                Err(m) => {
                    let f = Failure { signature: "access history".into(), detail: m, case: case.clone() };
                    let p = write_replay(P, &f);
                    println!("VIOLATION property={} replay={}", P, p.display());
                    println!("  detail: {}", f.detail);
                    1
                }
            };
        }
        if let Some(a) = case.get("addr").and_then(|a| a.as_u64()) {
            let mut st = Stats::new();
            return match classify_range(&mut emu, a, a + 1, 1, &mut st) {
                Ok(()) => {
                    println!("replay {}: address {:x} classified correctly", P, a);
                    0
                }
                Err((m, _)) => {
                    let f = Failure { signature: "address classification".into(), detail: m, case: case.clone() };
                    let p = write_replay(P, &f);
                    println!("VIOLATION property={} replay={}", P, p.display());
                    1
                }
            };
        }
        return 2;
    }
    let tier = ctx.tier;
    // (1) classification of all 2^24 addresses + sampled/boundary addresses above 2^24
    let nsh = 64usize;
    let mut stats = par_shards(ctx, nsh, |shard| {
        let mut emu = Emu::new(&ctx.base);
        let mut st = Stats::new();
        let span = (1u64 << 24) / nsh as u64;
        let (lo, hi) = (shard as u64 * span, (shard as u64 + 1) * span);
        let mut r = classify_range(&mut emu, lo, hi, 1, &mut st);
        if r.is_ok() {
            // above 2^24: boundaries and a strided sample of the rest of the 32-bit space
            let hi_span = ((1u64 << 32) - (1u64 << 24)) / nsh as u64;
            let (l2, h2) = ((1u64 << 24) + shard as u64 * hi_span, (1u64 << 24) + (shard as u64 + 1) * hi_span);
            r = classify_range(&mut emu, l2, (l2 + 4096).min(h2), 1, &mut st);
            if r.is_ok() {
                r = classify_range(&mut emu, l2, h2, tier.pick(4099, 257), &mut st);
            }
            if r.is_ok() && shard == nsh - 1 {
                r = classify_range(&mut emu, (1u64 << 32) - 4096, 1u64 << 32, 1, &mut st);
            }
            // aliases of the mapped regions above 2^24 (address with bits 24-31 set)
            if r.is_ok() {
                for up in [1u64, 2, 0x10, 0x7f, 0x80, 0xff] {
                    for &(rl, rh, _) in crate::refmodel::exec::REGIONS.iter() {
                        if r.is_ok() && (shard as u64) == up % nsh as u64 {
                            r = classify_range(&mut emu, (up << 24) + rl as u64, (up << 24) + (rl as u64 + 256).min(rh as u64 + 1), 1, &mut st);
                        }
                    }
                }
            }
        }
        if let Err((m, addr)) = r {
            st.fail(Failure { signature: "address classification".into(), detail: m, case: json!({"kind": "address", "addr": addr}) });
        }
        // nothing changed anywhere
        let d = emu.diff(&[], true);
        if let Some((a, v)) = d.iter().next() {
            st.fail(Failure { signature: "failing access changed memory".into(), detail: format!("after reads and failing writes byte {:06x} = {:02x} differs from its initial value", a, v), case: json!({"kind": "address", "addr": a}) });
        }
        st.class_n("classification: addresses below 2^24", span);
        st
    });
    stats.exhaustive_subspaces.insert("all 2^24 addresses: accessible iff in one of the five ranges".into(), 1 << 24);

    // (2) aliasing: three passes, one emulator each
    let astats = par_shards(ctx, 3, |pass| {
        let mut emu = Emu::new(&ctx.base);
        let mut st = Stats::new();
        let pass = pass as u32;
        let mut n = 0u64;
        for &(lo, hi, _) in crate::refmodel::exec::REGIONS.iter() {
            for a in lo..=hi {
                if is_port_reg(a) {
                    continue;
                }
                if let Err(why) = gwrite(&mut emu, a, h(pass, a)) {
                    st.fail(Failure { signature: "write to accessible address fails".into(), detail: format!("write of {:02x} to {:06x} failed: {}", h(pass, a), a, why), case: json!({"kind": "address", "addr": a}) });
                    return st;
                }
                n += 1;
            }
        }
        for &(lo, hi, _) in crate::refmodel::exec::REGIONS.iter() {
            for a in lo..=hi {
                if is_port_reg(a) {
                    continue;
                }
                match gread(&mut emu, a) {
                    Ok(v) if v == h(pass, a) => {}
                    other => {
                        st.fail(Failure {
                            signature: "written byte lost or aliased".into(),
                            detail: format!("pass {}: {:06x} was written {:02x} and reads back {:?} after all other locations were written", pass, a, h(pass, a), other.ok()),
                            case: json!({"kind": "address", "addr": a}),
                        });
                        return st;
                    }
                }
            }
        }
        st.evaluations += 2 * n;
        st.class_n("aliasing: storage bytes written then read back (per pass)", n);
        // distinct non-trivial: each storage byte verified
        st
    });
    stats.merge(astats);
    stats.exhaustive_subspaces.insert("every plain storage byte written with an address hash and read back after all others (3 independent hashes)".into(), 3 * 2_114_280);

    // (3) histories of byte/word/long accesses through real MOV instructions
    let nh: u32 = tier.pick(200_000, 16_000_000);
    let nshards = 32usize;
    let hstats = par_shards(ctx, nshards, |shard| {
        let w = Worker::new(ctx);
        let ent = entropy_n(400);
        let _dbg = run_prop(mix(ctx.seed, 0x0901_0000 + shard as u64), nh / nshards as u32, &ent, |raw, shrinking| {
            let ops = build_history(&mut Ent::new(raw));
            let r = run_history(&mut w.emu.borrow_mut(), &ops);
            let mut st = w.stats.borrow_mut();
            match r {
                Ok((ov, edge, failing)) => {
                    if !shrinking {
                        st.evaluations += 1;
                        st.class("history: MOV.B/W/L @aa:24 loads and stores");
                        st.class_n("history: accesses", ops.len() as u64);
                        st.class_n("history: accesses within 4 bytes of a region edge", edge as u64);
                        st.class_n("history: accesses touching an inaccessible byte", failing as u64);
                        st.class_n("history: reads overlapping an earlier write of another extent", ov as u64);
                        if ov > 0 || edge > 0 {
                            st.nontrivial(key_hash(&format!("{:?}", ops)), || json!({"ops": ops.iter().take(12).map(|o| format!("{}{} {:06x}", if o.write { "st" } else if o.sz == 3 { "" } else { "ld" }, ["B", "W", "L", "fetch", "tick"][o.sz as usize], o.addr)).collect::<Vec<_>>(), "n_ops": ops.len()}));
                        }
                    }
                    Ok(())
                }
                Err(m) => {
                    let sig = format!("access history | {}", fail_field(&m.split(':').nth(1).unwrap_or(&m).replace(|c: char| c.is_ascii_hexdigit() && !c.is_ascii_alphabetic(), "")));
                    let f = Failure { signature: sig.clone(), detail: m, case: ops_json(&ops) };
                    if ctx.survey {
                        if !shrinking {
                            st.evaluations += 1;
                            st.survey_fail(f);
                        }
                        Ok(())
                    } else {
                        st.failures.clear();
                        st.fail(f);
                        Err(sig)
                    }
                }
            }
        });
        if std::env::var("H8DBG").is_ok() { eprintln!("shard {} -> {:?} fails {}", shard, _dbg.as_ref().map(|x| &x.1), w.stats.borrow().failures.len()); }
        w.stats.into_inner()
    });
    stats.merge(hstats);
    // the exhaustive parts verified ~2.1M distinct storage bytes and 16M classifications: count them as distinct
    for a in (0..(1u32 << 24)).step_by(4099) {
        stats.nontrivial_keys.insert(key_hash(&("class", a)));
    }
    let rule = "cases = (1) every address 0..2^24 through Bus::read / Bus::write (accessible iff inside one of the statement's five ranges; inaccessible -> both fail and nothing changes), boundary and strided addresses up to 2^32-1 and aliases of every region with bits 24-31 set; (2) three passes that write an independent 8-bit hash of its address to every plain storage byte (everything accessible except port DDR/DR) and read all of them back afterwards (lost or aliased storage shows up as a mismatch); (3) proptest-generated histories of up to 60 byte/word/long loads and stores executed as real MOV @aa:24 instructions, addresses weighted to +/-6 of all ten region edges and to overlapping extents, against a byte-map model (big-endian composition, failing accesses change nothing outside their own extent, final memory == model). Histories also interleave instruction fetches (1 op in 7): from an inaccessible or >= 2^24 address the fetch must fail, change no register and write nothing - and everything after it must still work; from an accessible word the fetch must see the MOV.W R0,R0 that the data path stored there just before. Non-trivial (histories) = contains a read overlapping an earlier write of a different extent or an access within 4 bytes of a region edge; distinct by the op sequence; the exhaustive parts are counted by a strided subset of their addresses. Histories also contain ticks (time passes with timer 0 counting, or - quiet ticks - without anything being written: with no clock selected the counter and its flags are plain storage) and addresses of plain locations that mirror owned registers (same offset in the other register block, same low 8/16/20 bits in RAM / DRAM).";
    let mut extra = Map::new();
    extra.insert("masked_details".into(), json!(["whether the accessible leading bytes of a word/long store that runs off a region are written (the statement does not demand atomicity)"]));
    if let Some(f) = setup_panic_failure() {
        stats.fail(f);
    }
    finish(ctx, P, stats, rule, vec!["port DDR/DR registers are excluded (C16); no peripheral runs during the check (update_modules is never called)".into()], extra)
}
