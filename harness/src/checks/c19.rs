//! C19 - bus-cycle costs follow the bus-controller settings for every area configuration.

use crate::cpu::{verif_hooks as hooks, StateType};
use crate::engine::emu::*;
use crate::engine::run::*;
use crate::engine::stats::*;
use crate::refmodel::exec::{cycle_cost, BusCfg, Kind};
use proptest::prelude::*;
use serde_json::{json, Map, Value};

const P: &str = "C19";
const KINDS: [Kind; 6] = [Kind::I, Kind::J, Kind::K, Kind::L, Kind::M, Kind::N];

fn st(k: Kind) -> StateType {
    match k {
        Kind::I => StateType::I,
        Kind::J => StateType::J,
        Kind::K => StateType::K,
        Kind::L => StateType::L,
        Kind::M => StateType::M,
        Kind::N => StateType::N,
    }
}

#[derive(Clone, Debug)]
struct Case {
    cfg: BusCfg,
    kind: usize,
    n: u8,
    addr: u32,
    /// through calc_state (own-instruction address) instead of calc_state_with_addr
    own: bool,
}
impl Case {
    fn to_json(&self) -> Value {
        json!({"kind": "cost", "cfg": [self.cfg.abwcr, self.cfg.astcr, self.cfg.wcrh, self.cfg.wcrl, self.cfg.drcra], "cycle": self.kind, "n": self.n, "addr": self.addr, "own": self.own})
    }
    fn from_json(v: &Value) -> Option<Case> {
        let c = v.get("cfg")?.as_array()?;
        let g = |i: usize| c.get(i).and_then(|x| x.as_u64()).unwrap_or(0) as u8;
        Some(Case {
            cfg: BusCfg { abwcr: g(0), astcr: g(1), wcrh: g(2), wcrl: g(3), drcra: g(4) },
            kind: v.get("cycle")?.as_u64()? as usize,
            n: v.get("n")?.as_u64()? as u8,
            addr: v.get("addr")?.as_u64()? as u32,
            own: v.get("own")?.as_bool()?,
        })
    }
}

/// Ok(Some(expected)) when checked and equal; Err(detail) on mismatch; Ok(None) when outside the quantifier
fn eval(emu: &mut Emu, c: &Case) -> Result<Option<u32>, String> {
    let kind = KINDS[c.kind];
    let Some(unit) = cycle_cost(kind, c.addr, &c.cfg) else { return Ok(None) };
    let expected = unit * c.n as u32;
    emu.set_bus_cfg(&c.cfg);
    let got = guarded(|| {
        if c.own {
            hooks::set_operating_pc(&mut emu.cpu, c.addr);
            emu.cpu.calc_state(st(kind), c.n)
        } else {
            emu.cpu.calc_state_with_addr(st(kind), c.n, c.addr)
        }
    });
    match got {
        Ok(Ok(v)) if v as u32 == expected => Ok(Some(expected)),
        Ok(Ok(v)) => Err(format!("{} cycles of kind {:?} at {:06x} under {:?}: expected {} states, observed {}", c.n, kind, c.addr, c.cfg, expected, v)),
        Ok(Err(e)) => Err(format!("{} cycles of kind {:?} at {:06x} under {:?}: expected {} states, observed error {}", c.n, kind, c.addr, c.cfg, expected, e)),
        Err(p) => Err(format!("{} cycles of kind {:?} at {:06x} under {:?}: panic {}", c.n, kind, c.addr, c.cfg, p)),
    }
}

/// addresses of area `a` (0-7) that are not on-chip RAM / I/O registers: first, middle, last
fn area_addrs(a: u32) -> Vec<u32> {
    let lo = a << 21;
    let hi = lo + 0x1f_ffff;
    let mut v = vec![lo, lo + 0x10_0000, hi, lo + 1, hi - 1, lo + 0x0f_fffe];
    if a == 7 {
        // the end of area 7 holds on-chip RAM and I/O registers; H'FFFFEA-H'FFFFFF is external again
        // - and both neighbours (odd and even) of every excluded block: an address next to a register block is
        // ordinary external space, whatever the width of the access
        v = vec![lo, lo + 0x08_0000, 0xffbf1f, 0xffffea, 0xffffff, 0xfee100, 0xfedfff, 0xfedffe, 0xfee101, 0xffbf1e, 0xffffeb, 0xfffffe];
    }
    v
}

fn set_area(cfg: &mut BusCfg, a: u32, width8: bool, three_state: bool, waits: u8, dras: u8) {
    let bit = 1u8 << a;
    cfg.abwcr = (cfg.abwcr & !bit) | if width8 { bit } else { 0 };
    cfg.astcr = (cfg.astcr & !bit) | if three_state { bit } else { 0 };
    if a < 4 {
        let sh = 2 * a;
        cfg.wcrl = (cfg.wcrl & !(3 << sh)) | (waits << sh);
    } else {
        let sh = 2 * (a - 4);
        cfg.wcrh = (cfg.wcrh & !(3 << sh)) | (waits << sh);
    }
    cfg.drcra = (cfg.drcra & 0x1f) | (dras << 5);
}

/// Before anything was written: on a `Cpu` as `Cpu::new()` makes it, and again after the run loop's own
/// initialisation, costs follow what the five settings registers *read* (an implementation that keeps decoded settings
/// beside the registers must start out in agreement with them).
fn power_on() -> Option<String> {
    let r = guarded(|| {
        let mut cpu = crate::cpu::Cpu::new();
        for round in 0..2 {
            let rd = |cpu: &mut crate::cpu::Cpu, a: u32| cpu.bus.read(a).map_err(|e| e.to_string());
            let cfg = BusCfg { abwcr: rd(&mut cpu, 0xfee020)?, astcr: rd(&mut cpu, 0xfee021)?, wcrh: rd(&mut cpu, 0xfee022)?, wcrl: rd(&mut cpu, 0xfee023)?, drcra: rd(&mut cpu, 0xfee026)? };
            for area in 0..8u32 {
                for addr in area_addrs(area).into_iter().chain([0xffbf20u32, 0xffff1f]) {
                    for (ki, kind) in KINDS.iter().enumerate() {
                        let Some(unit) = cycle_cost(*kind, addr, &cfg) else { continue };
                        match cpu.calc_state_with_addr(st(KINDS[ki]), 1, addr) {
                            Ok(v) if v as u32 == unit => {}
                            other => return Err(format!("{}: one cycle of kind {:?} at {:06x} with the registers reading {:?}: expected {} states, observed {:?}", if round == 0 { "fresh Cpu" } else { "after init_registers" }, kind, addr, cfg, unit, other.map_err(|e| e.to_string()))),
                        }
                    }
                }
            }
            hooks::init_registers(&mut cpu).map_err(|e| e.to_string())?;
        }
        Ok(())
    });
    match r {
        Ok(Ok(())) => None,
        Ok(Err(m)) => Some(m),
        Err(p) => Some(format!("panic: {}", p)),
    }
}

pub fn run(ctx: &Ctx) -> i32 {
    if let Some(v) = &ctx.replay {
        let case = v.get("case").unwrap_or(v);
        if case.get("kind").and_then(|k| k.as_str()) == Some("power-on") {
            return match power_on() {
                None => {
                    println!("replay {}: power-on state passes", P);
                    0
                }
                Some(m) => {
                    let f = Failure { signature: "bus-cycle cost at power-on".into(), detail: m, case: case.clone() };
                    let p = write_replay(P, &f);
                    println!("VIOLATION property={} replay={}", P, p.display());
                    println!("  detail: {}", f.detail);
                    1
                }
            };
        }
        let Some(c) = Case::from_json(case) else { return 2 };
        let mut emu = Emu::new(&ctx.base);
        return match eval(&mut emu, &c) {
            Ok(_) => {
                println!("replay {}: passes", P);
                0
            }
            Err(m) => {
                let f = Failure { signature: "bus-cycle cost".into(), detail: m, case: case.clone() };
                let p = write_replay(P, &f);
                println!("VIOLATION property={} replay={}", P, p.display());
                println!("  detail: {}", f.detail);
                1
            }
        };
    }
    let tier = ctx.tier;
    let nrand: u32 = tier.pick(6, 120);
    // shards = (area 0-7, on-chip RAM = 8) x width
    let stats = par_shards(ctx, 18, |shard| {
        let mut emu = Emu::new(&ctx.base);
        let mut stats = Stats::new();
        let mut runner = proptest_runner(mix(ctx.seed, 0x1901_0000 + shard as u64), 1);
        let anyu8 = any::<[u8; 5]>();
        let area = (shard / 2) as u32;
        let width8 = shard % 2 == 1;
        let addrs: Vec<u32> = if area == 8 { vec![0xffbf20, 0xffdf20, 0xffff1f, 0xffbf21, 0xffff1e] } else { area_addrs(area) };
        let a_for_bits = if area == 8 { 7 } else { area };
        'outer: for three_state in [false, true] {
            for waits in 0..4u8 {
                for dras in 0..8u8 {
                    for (ki, _) in KINDS.iter().enumerate() {
                        for n in 1..=5u8 {
                            for &addr in &addrs {
                                for own in [false, true] {
                                    if own && matches!(KINDS[ki], Kind::L | Kind::M) {
                                        continue; // calc_state refuses L/M by contract
                                    }
                                    // the other areas' bits: random settings + the all-zero / all-one corners
                                    for r in 0..nrand + 2 {
                                        let mut cfg = match r {
                                            0 => BusCfg::ZERO,
                                            1 => BusCfg { abwcr: 0xff, astcr: 0xff, wcrh: 0xff, wcrl: 0xff, drcra: 0x1f },
                                            _ => {
                                                let b = sample(&mut runner, &anyu8);
                                                BusCfg { abwcr: b[0], astcr: b[1], wcrh: b[2], wcrl: b[3], drcra: b[4] & 0x1f }
                                            }
                                        };
                                        set_area(&mut cfg, a_for_bits, width8, three_state, waits, dras);
                                        let c = Case { cfg, kind: ki, n, addr, own };
                                        match eval(&mut emu, &c) {
                                            Ok(None) => stats.skipped += 1,
                                            Ok(Some(exp)) => {
                                                stats.evaluations += 1;
                                                if r == 0 {
                                                    stats.class(&format!("area {}", if area == 8 { "on-chip RAM".to_string() } else { area.to_string() }));
                                                    // the unit tests use 4 settings of area 0 and RAM; everything else is new
                                                    let key = key_hash(&(area, width8, three_state, waits, dras, ki, n, addr, own));
                                                    stats.nontrivial(key, || json!({"case": c.to_json(), "states": exp}));
                                                }
                                            }
                                            Err(m) => {
                                                stats.evaluations += 1;
                                                let sig = format!("bus-cycle cost | area {} kind {:?}", area, KINDS[ki]);
                                                let f = Failure { signature: sig, detail: m, case: c.to_json() };
                                                if ctx.survey {
                                                    stats.survey_fail(f);
                                                } else {
                                                    stats.fail(f);
                                                    break 'outer;
                                                }
                                            }
                                        }
                                        // one-bit-flip neighbours of the other areas' bits (only for the first random setting)
                                        if r == 2 && n == 1 && !own {
                                            for bitpos in 0..32u32 {
                                                let mut c2 = c.clone();
                                                let (reg, b) = (bitpos / 8, bitpos % 8);
                                                match reg {
                                                    0 => c2.cfg.abwcr ^= 1 << b,
                                                    1 => c2.cfg.astcr ^= 1 << b,
                                                    2 => c2.cfg.wcrh ^= 1 << b,
                                                    _ => c2.cfg.wcrl ^= 1 << b,
                                                }
                                                // skip flips of this area's own bits
                                                let mut own_cfg = c2.cfg;
                                                set_area(&mut own_cfg, a_for_bits, width8, three_state, waits, dras);
                                                if own_cfg != c2.cfg {
                                                    continue;
                                                }
                                                match eval(&mut emu, &c2) {
                                                    Ok(Some(_)) => {
                                                        stats.evaluations += 1;
                                                        stats.class("independence: one-bit flip of another area's setting");
                                                    }
                                                    Ok(None) => {}
                                                    Err(m) => {
                                                        stats.fail(Failure { signature: format!("bus-cycle cost | independence area {}", area), detail: m, case: c2.to_json() });
                                                        break 'outer;
                                                    }
                                                }
                                            }
                                        }
                                    }
                                }
                            }
                        }
                    }
                }
            }
        }
        // transitions: a random walk in which every step changes exactly one register (or nothing), then costs a
        // cycle in this shard's area - before and after - interleaved with lookups anywhere else in the address
        // space (whose results are checked only where the statement defines them). Catches costs that follow a
        // setting only when something else changes too, or that depend on what was costed before.
        if stats.failures.is_empty() {
            let steps: u32 = tier.pick(4_000_000, 60_000_000);
            let mut cfg = BusCfg::ZERO;
            let any32 = any::<u32>();
            for _ in 0..steps {
                let x = sample(&mut runner, &any32);
                let v = (x >> 8) as u8;
                match x & 7 {
                    0 => cfg.abwcr = if x & 0x8000_0000 != 0 { cfg.abwcr ^ (1 << (v & 7)) } else { v },
                    1 => cfg.astcr = if x & 0x8000_0000 != 0 { cfg.astcr ^ (1 << (v & 7)) } else { v },
                    2 => cfg.wcrh = if x & 0x8000_0000 != 0 { cfg.wcrh ^ (1 << (v & 7)) } else { v },
                    3 => cfg.wcrl = if x & 0x8000_0000 != 0 { cfg.wcrl ^ (1 << (v & 7)) } else { v },
                    4 => cfg.drcra = if x & 0x8000_0000 != 0 { cfg.drcra ^ 0x20 } else { (v & 0x1f) | (cfg.drcra & 0xe0) },
                    5 => cfg.drcra = (cfg.drcra & 0x1f) | (((x >> 16) & 1) as u8) << 5,
                    _ => {} // no change: the same setting costed again
                }
                // counter-width class: now and then a *silent burst* - 255/256/257, 511-513 or 65535-65537 register
                // writes (through Bus::write, each one a real change) without any lookup in between, ending on a
                // setting that differs from the one last costed: a cost that follows the settings through a
                // change counter of 8 or 16 bits comes out stale after exactly that many writes
                if x % 1500 == 7 {
                    let y = sample(&mut runner, &any32);
                    let n = [255u32, 256, 257, 511, 512, 513, 65535, 65536, 65537][(y % 9) as usize];
                    let n = if tier == Tier::Quick && n > 60000 && (y >> 8) % 4 != 0 { 256 } else { n };
                    let reg = (y >> 4) % 5;
                    let bit = 1u8 << ((y >> 12) % 8);
                    for k in 0..n {
                        // flip one bit back and forth; for an even count the first write flips another bit instead,
                        // so that an odd number of flips remains and the final setting differs from the one last costed
                        let alt = k == 0 && n % 2 == 0;
                        match reg {
                            0 => cfg.abwcr ^= if alt { bit.rotate_left(1) } else { bit },
                            1 => cfg.astcr ^= if alt { bit.rotate_left(1) } else { bit },
                            2 => cfg.wcrh ^= if alt { bit.rotate_left(1) } else { bit },
                            3 => cfg.wcrl ^= if alt { bit.rotate_left(1) } else { bit },
                            _ => cfg.drcra ^= if alt { 0x01 } else { 0x20 },
                        }
                        emu.set_bus_cfg(&cfg);
                    }
                    stats.class("transition walk: silent burst of 255..65537 register writes before the lookup");
                }
                // aliases: a write to an address that only looks like a bus-controller register to a sloppy decoder
                // (register + k x 2^8 / 2^16 / 2^24, one of bits 8-31 flipped) is refused or lands in plain storage -
                // the settings, and so every cost, stay what they are
                if x % 211 == 3 {
                    let y = sample(&mut runner, &any32);
                    let base = 0xfee020u32 + (y % 7);
                    let a = match (y >> 3) & 3 {
                        // (one in four of these: the same offset in the other register block instead)
                        0 if (y >> 12) & 1 == 1 => 0xffff20 + (base - 0xfee000),
                        0 => base.wrapping_add(0x100 * (1 + ((y >> 8) & 3))),
                        1 => base.wrapping_add(0x0100_0000 * (1 + ((y >> 8) & 0xff) % 255)),
                        2 => base ^ (1u32 << (8 + ((y >> 8) % 24))),
                        _ => base.wrapping_add(0x1_0000 * (1 + ((y >> 8) & 1))),
                    };
                    let _ = emu.cpu.bus.write(a, (y >> 24) as u8);
                    stats.class("transition walk: stray write to an alias of a bus-controller register");
                }
                // the rest of the machine: "the cost depends only on the kind and on the settings of the area" - not on
                // any other on-chip register (the bus controller's other registers at H'FEE024/25/27 and everything
                // else in both register blocks), not on the levels at the port pins
                if x % 53 == 11 {
                    let y = sample(&mut runner, &any32);
                    let v = (y >> 24) as u8;
                    let v = if y & 0x10 != 0 { v } else { [0x01u8, 0x80, 0xff, 0xc7, 0x00][((y >> 5) % 5) as usize] };
                    match y & 3 {
                        0 => {
                            let a = [0xfee024u32, 0xfee025, 0xfee027, 0xfee024][((y >> 8) % 4) as usize];
                            let _ = guarded(|| emu.cpu.bus.write(a, v));
                        }
                        1 => {
                            let a = 0xfee000 + (y >> 8) % 0x100;
                            if !matches!(a, 0xfee020..=0xfee023 | 0xfee026) {
                                let _ = guarded(|| emu.cpu.bus.write(a, v));
                            }
                        }
                        2 => {
                            // not the timer block: a running timer is harmless here (no time passes), but keep the walk simple
                            let a = 0xffff20 + (y >> 8) % 0xca;
                            if !(0xffff80..=0xffff99).contains(&a) {
                                let _ = guarded(|| emu.cpu.bus.write(a, v));
                            }
                        }
                        _ => {
                            let p = 1 + ((y >> 8) % 11) as u8;
                            let _ = guarded(|| emu.cpu.bus.write_port(p, v));
                        }
                    }
                    stats.class("transition walk: another register or a port's pin levels changed (the cost must not follow)");
                }
                let ki = ((x >> 20) % 6) as usize;
                let own = (x >> 24) & 1 == 1 && !matches!(KINDS[ki], Kind::L | Kind::M);
                // a lookup somewhere else first (any area, on-chip RAM, I/O registers)
                if (x >> 25) & 3 == 0 {
                    let y = sample(&mut runner, &any32);
                    let other = match y & 3 {
                        0 => y >> 8,
                        1 => 0xffbf20 + (y >> 8) % 0x4000,
                        2 => 0xffff20 + (y >> 8) % 0xca,
                        _ => 0xfee000 + (y >> 8) % 0x100,
                    } & 0xff_ffff;
                    let c = Case { cfg, kind: ((y >> 4) % 6) as usize, n: 1, addr: other, own: false };
                    match eval(&mut emu, &c) {
                        Ok(Some(_)) => stats.evaluations += 1,
                        Ok(None) => {
                            // outside the statement: still performed, result ignored
                            let _ = guarded(|| emu.cpu.calc_state_with_addr(st(KINDS[c.kind]), 1, other));
                        }
                        Err(m) => {
                            stats.fail(Failure { signature: format!("bus-cycle cost | transition walk, area {}", (other >> 21) & 7), detail: m, case: c.to_json() });
                            break;
                        }
                    }
                }
                let addr = addrs[((x >> 27) as usize) % addrs.len()];
                let c = Case { cfg, kind: ki, n: 1 + ((x >> 30) as u8), addr, own };
                match eval(&mut emu, &c) {
                    Ok(Some(_)) => {
                        stats.evaluations += 1;
                        stats.class("transition walk: one register changed (or none) since the previous lookup");
                    }
                    Ok(None) => stats.skipped += 1,
                    Err(m) => {
                        stats.fail(Failure { signature: format!("bus-cycle cost | transition walk, area {}", area), detail: format!("{} (history-dependent: replaying the single lookup may pass)", m), case: c.to_json() });
                        break;
                    }
                }
            }
        }
        emu.set_bus_cfg(&BusCfg::ZERO);
        stats
    });
    let mut stats = stats;
    stats.evaluations += 1;
    stats.class("power-on: costs follow what the settings registers read on a fresh Cpu and after init_registers");
    if let Some(m) = power_on() {
        stats.fail(Failure { signature: "bus-cycle cost at power-on".into(), detail: m, case: json!({"kind": "power-on"}) });
    }
    stats.exhaustive_subspaces.insert("area (0-7, on-chip RAM) x width x access-state x wait field x DRAM select x kind x count 1-5 x address x {calc_state, calc_state_with_addr}".into(), stats.nontrivial_keys.len() as u64);
    let rule = "cases = for each of the eight areas and on-chip RAM: every value of the area's bus-width bit, access-state bit, wait field and the DRAM-area-select field (areas 3-5 only with select 0/1 - others are counted as skipped), all six cycle kinds, counts 1-5, the first / middle / last address of the area outside the on-chip I/O registers, through both calc_state (own-instruction address) and calc_state_with_addr - enumerated completely - each repeated under the all-zero, all-one and proptest-generated settings of all *other* areas' bits plus every one-bit flip of them (independence). Plus a transition walk per shard (4,000,000 quick / 60,000,000 thorough steps): every step changes at most one bus-controller register (written through Bus::write), then costs a cycle in the shard's area, with lookups anywhere else in the address space in between (history-dependent or late-following costs), and now and then a silent burst of 255-257 / 511-513 / 65535-65537 register writes without any lookup (change counters of 8 or 16 bits), stray writes to aliases of the registers, and changes of the rest of the machine (the bus controller's other registers, any other on-chip register, the levels at the port pins) which no cost may follow. Oracle = the cost rule of the statement written as a 10-line function. Non-trivial = every tuple (all differ from the 4 area-0 settings of the unit tests except those 4); distinct = the tuple.";
    let mut extra = Map::new();
    extra.insert("exhaustive_over_own_area_tuples".into(), json!(true));
    extra.insert("independence_settings_per_tuple".into(), json!(nrand + 2));
    finish(ctx, P, stats, rule, vec!["DRAM-area-select decode for areas 3-5 is outside the property (only select 0/1 are used there)".into()], extra)
}
