//! C05 - branches, jumps, calls and returns obey the condition table and stack discipline.

use super::common::*;
use super::driver::*;
use crate::engine::emu::Emu;
use crate::engine::program::*;
use crate::engine::run::*;
use crate::engine::stats::*;
use crate::engine::stepcase::*;
use crate::gen::*;
use crate::refmodel::exec::{cond_true, BusCfg, MASK24};
use crate::refmodel::insn::*;
use serde_json::{json, Map, Value};

const P: &str = "C05";

#[derive(Clone, Copy, Debug, PartialEq, Eq, Hash)]
pub enum Kind {
    Bcc8,
    Bcc16,
    JmpReg,
    JmpAbs,
    JmpInd,
    Bsr8,
    Bsr16,
    JsrReg,
    JsrAbs,
    JsrInd,
    Rts,
}
pub const KINDS: [Kind; 11] = [Kind::Bcc8, Kind::Bcc16, Kind::JmpReg, Kind::JmpAbs, Kind::JmpInd, Kind::Bsr8, Kind::Bsr16, Kind::JsrReg, Kind::JsrAbs, Kind::JsrInd, Kind::Rts];

#[derive(Clone, Copy, Default)]
pub struct Force {
    pub kind: Option<usize>,
    pub cond: Option<u8>,
    pub ccr: Option<u8>,
    pub disp: Option<i32>,
    pub reg: Option<u8>,
}

#[derive(Clone, Debug)]
pub struct Tag {
    pub kind: Kind,
    pub insn: Insn,
    pub taken: bool,
    pub sp_upper: bool,
    pub target: u32,
    pub frame: Option<u32>,
}

/// a code address such that both `pc+len` and `pc+len+disp` (+2 bytes each) are inside one region
fn pc_for_branch(e: &mut Ent, len: u32, disp: i32) -> u32 {
    let span = disp.unsigned_abs() + len + 4;
    let region = if span < 0x3000 && e.chance(1, 2) { Region::Ram } else { Region::Dram };
    let (lo, hi) = region.bounds();
    // next = pc+len ; need lo <= next+disp and next+disp+2 <= hi+1 ; lo <= pc ; next+2 <= hi+1
    let min_pc = if disp < 0 { lo + disp.unsigned_abs() } else { lo };
    let max_pc = if disp > 0 { hi + 1 - 2 - len - disp as u32 } else { hi + 1 - 2 - len };
    let min_pc = (min_pc + 1) & !1;
    let max_pc = max_pc & !1;
    match e.below(6) {
        0 => min_pc,
        1 => max_pc,
        _ => min_pc + 2 * e.below((max_pc - min_pc) / 2 + 1),
    }
}

fn even_target(e: &mut Ent) -> u32 {
    e.jump_target()
}

pub fn build(e: &mut Ent, f: &Force) -> (StepCase, Tag) {
    let kind = KINDS[f.kind.unwrap_or_else(|| e.below(KINDS.len() as u32) as usize)];
    let mut er = e.regfile();
    let ccr = f.ccr.unwrap_or_else(|| e.u8());
    let mut patches: Vec<(u32, Vec<u8>)> = vec![];
    let mut frame = None;
    // stack frame location for calls / returns: 4 bytes in RAM or DRAM, SP may carry an upper byte
    let mut sp_upper = false;
    let mut setup_stack = |e: &mut Ent, er: &mut [u32; 8], push: bool, avoid: u32| -> u32 {
        // 1 frame in 8 at an odd address (byte-addressed memory: "a frame at SP-4" holds for any SP)
        let odd = e.chance(1, 8);
        let mut f = e.data_addr(&[Region::Ram, Region::Dram], 4, if odd { 1 } else { 2 });
        if f.abs_diff(avoid & MASK24) < 64 {
            f = if (f >= 0xffbf20 && f < 0xffe000) || (f >= 0x400000 && f < 0x500000) { f + 0x400 } else { f - 0x400 };
            if !odd {
                f &= !1;
            }
        }
        let up = e.upper_byte();
        sp_upper = up != 0;
        er[7] = (if push { f + 4 } else { f }) | up;
        f
    };
    let (insn, pc, target, taken);
    match kind {
        Kind::Bcc8 | Kind::Bcc16 => {
            let wide = kind == Kind::Bcc16;
            let cond = f.cond.unwrap_or_else(|| e.below(16) as u8) & 15;
            let disp = f.disp.unwrap_or_else(|| {
                if wide {
                    (match e.below(3) {
                        0 => e.pick(&[0i32, 2, -2, 4, -4, 126, 128, -128, -130, 0x7ffe, -0x8000, 0x100, -0x100, 0x3ffe, -0x4000]),
                        _ => (e.u16() as i16) as i32,
                    }) & !1
                } else {
                    ((e.u8() as i8) as i32) & !1
                }
            });
            insn = Insn::Bcc { cond, disp, wide };
            let len = if wide { 4 } else { 2 };
            pc = pc_for_branch(e, len, disp);
            taken = cond_true(cond, ccr);
            target = if taken { (pc + len).wrapping_add(disp as u32) } else { pc + len };
        }
        Kind::JmpReg | Kind::JsrReg => {
            let r = f.reg.unwrap_or_else(|| e.below(if kind == Kind::JsrReg { 7 } else { 8 }) as u8) & 7;
            let r = if kind == Kind::JsrReg && r == 7 { 6 } else { r };
            target = even_target(e);
            if kind == Kind::JsrReg {
                frame = Some(setup_stack(e, &mut er, true, target));
            }
            er[r as usize] = target | e.upper_byte();
            insn = if kind == Kind::JmpReg { Insn::Jmp(JTarget::Reg(r)) } else { Insn::Jsr(JTarget::Reg(r)) };
            pc = e.code_addr(2, &[target, frame.unwrap_or(target)]);
            taken = true;
        }
        Kind::JmpAbs | Kind::JsrAbs => {
            target = even_target(e);
            if kind == Kind::JsrAbs {
                frame = Some(setup_stack(e, &mut er, true, target));
            }
            insn = if kind == Kind::JmpAbs { Insn::Jmp(JTarget::Abs(target)) } else { Insn::Jsr(JTarget::Abs(target)) };
            pc = e.code_addr(4, &[target, frame.unwrap_or(target)]);
            taken = true;
        }
        Kind::JmpInd | Kind::JsrInd => {
            let aa = (e.below(64) * 4) as u8; // long-aligned entry in H'0000-H'00FF
            target = even_target(e);
            let top = (e.upper_byte() >> 24) as u8;
            patches.push((aa as u32, vec![top, (target >> 16) as u8, (target >> 8) as u8, target as u8]));
            if kind == Kind::JsrInd {
                frame = Some(setup_stack(e, &mut er, true, target));
            }
            insn = if kind == Kind::JmpInd { Insn::Jmp(JTarget::MemInd(aa)) } else { Insn::Jsr(JTarget::MemInd(aa)) };
            pc = e.code_addr(2, &[target, frame.unwrap_or(target)]);
            taken = true;
        }
        Kind::Bsr8 | Kind::Bsr16 => {
            let wide = kind == Kind::Bsr16;
            let disp = f.disp.unwrap_or_else(|| if wide { ((e.u16() as i16) as i32) & !1 } else { ((e.u8() as i8) as i32) & !1 });
            insn = Insn::Bsr { disp, wide };
            let len = if wide { 4 } else { 2 };
            pc = pc_for_branch(e, len, disp);
            target = (pc + len).wrapping_add(disp as u32);
            frame = Some(setup_stack(e, &mut er, true, pc));
            taken = true;
        }
        Kind::Rts => {
            target = even_target(e);
            let fr = setup_stack(e, &mut er, false, target);
            let top = (e.upper_byte() >> 24) as u8;
            patches.push((fr, vec![top, (target >> 16) as u8, (target >> 8) as u8, target as u8]));
            frame = Some(fr);
            insn = Insn::Rts;
            pc = e.code_addr(2, &[target, fr]);
            taken = true;
        }
    }
    let code = encode(&insn);
    let mut frame = frame;
    // rare class: the call's stack frame overlaps the call instruction itself (the operand words must be
    // fetched before the frame is written)
    if matches!(kind, Kind::Bsr8 | Kind::Bsr16 | Kind::JsrReg | Kind::JsrAbs | Kind::JsrInd) && e.chance(1, 12) {
        let len = code.len() as u32;
        let f = (pc + len).wrapping_sub(2 * e.below(len / 2 + 3));
        er[7] = (f.wrapping_add(4) & MASK24) | (er[7] & 0xff00_0000);
        frame = Some(f & MASK24);
        if let Insn::Jsr(JTarget::Reg(r)) = insn {
            if r == 7 {
                er[7] = (er[7] & 0xff00_0000) | ((pc + 0x100) & MASK24);
            }
        }
    }
    let bus = e.bus_cfg();
    (StepCase { code, pc, er, ccr, patches, bus, irq: None, primer: None }, Tag { kind, insn, taken, sp_upper, target, frame })
}

fn classify(case: &StepCase, j: &Judged, t: &Tag, stats: &mut Stats) {
    stats.class(&format!("form: {}", t.insn.form()));
    let is_call = matches!(t.kind, Kind::Bsr8 | Kind::Bsr16 | Kind::JsrReg | Kind::JsrAbs | Kind::JsrInd | Kind::Rts);
    let nt = match t.kind {
        Kind::Bcc8 | Kind::Bcc16 => {
            stats.class(if t.taken { "branch taken" } else { "branch not taken" });
            t.taken
        }
        _ => {
            if is_call && t.sp_upper {
                stats.class("call/return with SP upper byte != 0");
            }
            true
        }
    };
    if let Some(f) = t.frame {
        if f < case.pc + case.code.len() as u32 && case.pc < f + 4 {
            stats.class("stack frame overlaps the call instruction itself");
        }
    }
    if nt {
        let detail = match t.insn {
            Insn::Bcc { cond, disp, .. } => (cond as u32, disp as u32),
            Insn::Jmp(JTarget::Reg(r)) | Insn::Jsr(JTarget::Reg(r)) => (r as u32, 0),
            _ => (0, 0),
        };
        let key = key_hash(&(t.insn.form(), detail, case.ccr, region_class(case.pc, 2), region_class(t.target, 2), t.frame.map(|f| region_class(f, 4)), t.sp_upper));
        stats.nontrivial(key, || sample_json(case, j));
    }
}

// ---------------------------------------------------------------------------------------------
// (d) generated programs: random call trees, checked against a shadow call stack and in lockstep

#[derive(Clone, Debug)]
struct Func {
    addr: u32,
    body: Vec<u8>,
}

/// Build a program of `nf` functions; function i only calls functions with a larger index, so every
/// run terminates. Returns (image, entry pc, stop pc, initial registers).
fn build_program(e: &mut Ent) -> (Prog, u32, usize) {
    let nf = 2 + e.below(7) as usize;
    // code zone: RAM or DRAM
    let in_ram = e.chance(1, 2);
    let zone = if in_ram { 0xffc000 + 2 * e.below(0x400) } else { 0x420000 + 2 * e.below(0x40000) };
    // lay the functions out at increasing addresses with gaps
    let mut addrs = vec![];
    let mut a = zone;
    for _ in 0..nf {
        addrs.push(a);
        a += 0x60 + 2 * e.below(0x40);
    }
    let stop = a + 0x10;
    let mut image: Vec<(u32, Vec<u8>)> = vec![];
    // vector entries for JSR @@aa:8
    let mut vec_used = 0u32;
    let mut max_depth = 0usize;
    let mut depth_of = vec![1usize; nf];
    let mut cost = vec![8usize; nf]; // executed instructions including callees
    let mut funcs = vec![];
    for i in (0..nf).rev() {
        let mut body: Vec<u8> = vec![];
        let nseg = 1 + e.below(3);
        for _ in 0..nseg {
            // a few flag-neutral / arithmetic instructions (never touching ER7 or the scratch pointer ER6)
            for _ in 0..e.below(4) {
                let insn = match e.below(5) {
                    0 => Insn::MovImm { sz: Sz::B, imm: e.u8() as u32, d: e.below(12) as u8 % 6 + if e.chance(1, 2) { 8 } else { 0 } },
                    1 => Insn::Alu { op: AluOp::Add, sz: Sz::W, src: Src::Imm(e.u16() as u32), d: e.below(6) as u8 },
                    2 => Insn::Un { op: UnOp::Inc1, sz: Sz::L, d: e.below(6) as u8 },
                    3 => Insn::MovRR { sz: Sz::L, s: e.below(6) as u8, d: e.below(6) as u8 },
                    _ => Insn::Alu { op: AluOp::Xor, sz: Sz::B, src: Src::Imm(e.u8() as u32), d: e.below(6) as u8 },
                };
                body.extend(encode(&insn));
            }
            // maybe a call to a later function
            if i + 1 < nf && e.chance(3, 4) {
                let callee = i + 1 + e.below((nf - i - 1) as u32) as usize;
                if cost[i] + cost[callee] + 8 > 300 {
                    continue;
                }
                cost[i] += cost[callee] + 8;
                depth_of[i] = depth_of[i].max(1 + depth_of[callee]);
                let here = addrs[i] + body.len() as u32;
                let tgt = addrs[callee];
                match e.below(5) {
                    0 if (tgt as i64 - (here as i64 + 2)).abs() < 120 => {
                        body.extend(encode(&Insn::Bsr { disp: (tgt as i64 - (here as i64 + 2)) as i32, wide: false }))
                    }
                    1 if (tgt as i64 - (here as i64 + 4)).abs() < 32000 => {
                        body.extend(encode(&Insn::Bsr { disp: (tgt as i64 - (here as i64 + 4)) as i32, wide: true }))
                    }
                    2 => {
                        // JSR @ER6 with an arbitrary upper byte in the register
                        body.extend(encode(&Insn::MovImm { sz: Sz::L, imm: tgt | e.upper_byte(), d: 6 }));
                        body.extend(encode(&Insn::Jsr(JTarget::Reg(6))));
                    }
                    3 if vec_used < 60 => {
                        let aa = (4 * vec_used) as u8;
                        vec_used += 1;
                        let top = (e.upper_byte() >> 24) as u8;
                        image.push((aa as u32, vec![top, (tgt >> 16) as u8, (tgt >> 8) as u8, tgt as u8]));
                        body.extend(encode(&Insn::Jsr(JTarget::MemInd(aa))));
                    }
                    _ => body.extend(encode(&Insn::Jsr(JTarget::Abs(tgt)))),
                }
            }
        }
        if i == 0 {
            body.extend(encode(&Insn::Jmp(JTarget::Abs(stop))));
        } else {
            body.extend(encode(&Insn::Rts));
        }
        assert!(body.len() < 0x60);
        funcs.push(Func { addr: addrs[i], body });
    }
    max_depth = max_depth.max(depth_of[0]);
    for f in funcs {
        image.push((f.addr, f.body));
    }
    let mut er = e.regfile();
    // stack: RAM or DRAM, away from the code, SP may carry an upper byte
    let sp = if e.chance(1, 2) { 0xfff000 + 4 * e.below(0x300) } else { 0x5f0000 + 4 * e.below(0x3000) };
    er[7] = sp | e.upper_byte();
    let ccr = e.u8();
    let bus = e.bus_cfg();
    image.extend(e.env_noise());
    (Prog { image, er, ccr, pc: addrs[0], bus }, stop, max_depth)
}

/// run one program; Err(detail) on violation
fn run_program(emu: &mut Emu, prog: &Prog, stop: u32) -> Result<(usize, usize, bool), String> {
    // shadow call stack: (return address, SP before the call)
    let mut shadow: Vec<(u32, u32)> = vec![];
    let mut pending_ret: Option<(u32, u32)> = None;
    let mut max_depth = 0usize;
    let mut violation: Option<String> = None;
    let sp_upper = prog.er[7] >> 24 != 0;
    let opts = LsOpts { quirks: &[], max_steps: 400, full_dram: false, compare_memory: true };
    let out = lockstep(emu, prog, &opts, &mut |v: &View| {
        // check the return that just happened
        if let Some((ret, sp)) = pending_ret.take() {
            if v.pc != ret || v.er[7] != sp {
                violation = Some(format!("RTS resumed at {:06x} with SP {:08x}; the matching call expects {:06x} / {:08x}", v.pc, v.er[7], ret, sp));
                return Ctl::Stop;
            }
        }
        if v.pc == stop {
            return Ctl::Stop;
        }
        // what is about to execute?
        let w = |i: u32| Some((((v.peek)(v.pc + 2 * i)? as u16) << 8) | (v.peek)(v.pc + 2 * i + 1)? as u16);
        let d = decode(&w);
        if let Class::Impl(insn) = d.class {
            match insn {
                Insn::Bsr { .. } | Insn::Jsr(_) => {
                    shadow.push(((v.pc + d.len) & MASK24, v.er[7]));
                    max_depth = max_depth.max(shadow.len());
                }
                Insn::Rts => {
                    pending_ret = shadow.pop();
                    if pending_ret.is_none() {
                        violation = Some("RTS without a matching call in the generated program (generator error)".into());
                        return Ctl::Stop;
                    }
                }
                _ => {}
            }
        }
        Ctl::Step
    });
    if let Some(v) = violation {
        return Err(v);
    }
    match out.end {
        End::Stopped => {
            if !shadow.is_empty() {
                return Err(format!("program reached its end with {} unreturned calls", shadow.len()));
            }
            if out.final_er[7] != prog.er[7] {
                return Err(format!("SP at the end {:08x} differs from SP at the start {:08x}", out.final_er[7], prog.er[7]));
            }
            Ok((out.steps, max_depth, sp_upper))
        }
        End::Mismatch(m) => Err(m),
        other => Err(format!("program did not reach its end: {:?}", other)),
    }
}

pub fn replay_program(ctx: &Ctx, v: &Value) -> i32 {
    let case = v.get("case").unwrap_or(v);
    let (Some(prog), Some(stop)) = (case.get("prog").and_then(Prog::from_json), case.get("stop").and_then(|s| s.as_u64())) else {
        eprintln!("bad program replay file");
        return 2;
    };
    let mut emu = Emu::new(&ctx.base);
    match run_program(&mut emu, &prog, stop as u32) {
        Ok(_) => {
            println!("replay {}: program passes", P);
            0
        }
        Err(m) => {
            let f = Failure { signature: "call/return program".into(), detail: m, case: case.clone() };
            let p = write_replay(P, &f);
            println!("VIOLATION property={} replay={}", P, p.display());
            println!("  detail: {}", f.detail);
            1
        }
    }
}

pub fn run(ctx: &Ctx) -> i32 {
    if let Some(v) = &ctx.replay {
        if crate::checks::soup::is_soup_replay(v) {
            return crate::checks::soup::replay(ctx, P, v);
        }
        if v.get("case").and_then(|c| c.get("kind")).and_then(|k| k.as_str()) == Some("program") {
            return replay_program(ctx, v);
        }
        return replay_step(ctx, P, v);
    }
    let tier = ctx.tier;
    let enumerated = |emit: &mut dyn FnMut(&str, Builder<Tag>)| {
        // (a) truth table: 16 conditions x 256 CCR x every even 8-bit displacement
        for cond in 0..16u8 {
            for ccr in 0..=255u8 {
                for d in (-128i32..128).step_by(2) {
                    emit("Bcc d:8: cond x CCR x every even displacement", &|e| build(e, &Force { kind: Some(0), cond: Some(cond), ccr: Some(ccr), disp: Some(d), ..Default::default() }));
                }
                for _k in 0..tier.pick(12, 64) {
                    emit("Bcc d:16: cond x CCR x displacement mix", &|e| build(e, &Force { kind: Some(1), cond: Some(cond), ccr: Some(ccr), ..Default::default() }));
                }
            }
        }
        // (b,c) every register for the register forms, all CCR for every kind
        for k in 2..KINDS.len() {
            for ccr in 0..=255u8 {
                for r in 0..8u8 {
                    emit("jump/call/return kind x CCR x register", &|e| build(e, &Force { kind: Some(k), ccr: Some(ccr), reg: Some(r), ..Default::default() }));
                }
            }
        }
        for d in (-128i32..128).step_by(2) {
            for _k in 0..8 {
                emit("BSR d:8 x every even displacement", &|e| build(e, &Force { kind: Some(5), disp: Some(d), ..Default::default() }));
            }
        }
    };
    let mut stats = Drive {
        ctx,
        property: P,
        aspects: Aspects::STATE,
        salt: 0x0501_0000,
        nshards: 64,
        enumerated: &enumerated,
        random_cases: tier.pick(4_000_000, 240_000_000),
        build_random: &|e| build(e, &Force::default()),
        classify: &|c, j, t: &Tag, s| classify(c, j, t, s),
        all_quirks: false,
    }
    .run();
    stats.exhaustive_subspaces.insert("Bcc d:8: 16 conditions x 256 CCR x 128 even displacements".into(), 16 * 256 * 128);
    stats.exhaustive_subspaces.insert("Bcc d:16: 16 conditions x 256 CCR (displacements sampled)".into(), 16 * 256);

    // (d) programs
    let nprog: u32 = tier.pick(100_000, 2_000_000);
    let nshards = 32usize;
    let pstats = par_shards(ctx, nshards, |shard| {
        let w = Worker::new(ctx);
        let ent = entropy_n(640);
        let fail = run_prop(mix(ctx.seed, 0x0502_0000 + shard as u64), nprog / nshards as u32, &ent, |raw, shrinking| {
            let (prog, stop, _) = build_program(&mut Ent::new(raw));
            let r = run_program(&mut w.emu.borrow_mut(), &prog, stop);
            let mut st = w.stats.borrow_mut();
            match r {
                Ok((steps, depth, sp_upper)) => {
                    if !shrinking {
                        st.evaluations += 1;
                        st.class("program: call tree");
                        st.class_n("program: instructions executed", steps as u64);
                        if depth >= 2 {
                            st.class("program: nesting depth >= 2");
                        }
                        if sp_upper {
                            st.class("program: SP upper byte != 0");
                        }
                        if depth >= 2 || sp_upper {
                            let key = key_hash(&(&prog.image, prog.er[7]));
                            st.nontrivial(key, || json!({"program_functions": prog.image.len(), "steps": steps, "depth": depth, "sp": format!("{:08x}", prog.er[7]), "entry": format!("{:06x}", prog.pc)}));
                        }
                    }
                    Ok(())
                }
                Err(m) => {
                    let sig = format!("call/return program | {}", fail_field(&m.replace(|c: char| c.is_ascii_digit(), "")));
                    if ctx.survey {
                        if !shrinking {
                            st.evaluations += 1;
                            st.survey_fail(Failure { signature: sig, detail: m, case: json!({"kind": "program", "brief": format!("entry {:06x} sp {:08x}", prog.pc, prog.er[7])}) });
                        }
                        Ok(())
                    } else {
                        st.failures.clear();
                        st.fail(Failure { signature: sig.clone(), detail: m, case: json!({"kind": "program", "prog": prog.to_json(), "stop": stop}) });
                        Err(sig)
                    }
                }
            }
        });
        let _ = fail;
        w.stats.into_inner()
    });
    stats.merge(pstats);
    let rule = "cases = (a) the complete Bcc d:8 truth table (16 conditions x 256 CCR x every even displacement) and the d:16 table with sampled even displacements, code placed so that both successors are mapped; (b) JMP @ERn/@aa:24/@@aa:8 with targets across RAM/DRAM, arbitrary register upper byte and vector top byte; (c) BSR d:8/d:16, JSR (3 forms), RTS single steps with frames in RAM/DRAM and SP upper byte arbitrary; (d) generated call-tree programs (BSR/JSR mixes, depth up to 8) run in lockstep with the reference and against a shadow call stack (RTS must resume right after the matching call with SP restored). Oracle = reference model full post-state. Non-trivial = taken branch, or any jump/call/return step, or a program with nesting depth >= 2 or SP upper byte != 0; distinct by (form, condition, displacement/register, CCR, code/target/frame region).";
    let mut extra = Map::new();
    extra.insert("masked_details".into(), json!(["top byte of the 4-byte call frame (property: low 24 bits)", "JSR @ER7 and frames overlapping the @@aa:8 vector are excluded (unspecified order)"]));
    stats.merge(crate::checks::soup::phase(ctx, P, crate::checks::soup::Flavor::Flow, ctx.tier.pick(200_000, 4_000_000), 0x0551_0000, false));
    let rule_soup = format!("{}{}", rule, crate::checks::soup::RULE);
    let rule: &str = &rule_soup;
    finish(ctx, P, stats, rule, vec!["reference model transcribed from the H8/300H programming manual (DESIGN Appendix A.5)".into()], extra)
}
