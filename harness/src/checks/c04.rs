//! C04 - bit-manipulation instructions affect exactly the addressed bit or flag.

use super::common::*;
use super::driver::*;
use crate::engine::run::*;
use crate::engine::stats::*;
use crate::engine::stepcase::*;
use crate::gen::*;
use crate::refmodel::insn::*;
use serde_json::{json, Map};

const P: &str = "C04";

#[derive(Clone, Copy, Debug, PartialEq, Eq, Hash)]
pub enum TgtK {
    Reg,
    Ind,
    A8,
}

/// (operation, bit selector is a register?, operand kind)
pub fn forms() -> Vec<(BitOp, bool, TgtK)> {
    let mut v = vec![];
    for op in BitOp::ALL {
        for t in [TgtK::Reg, TgtK::Ind, TgtK::A8] {
            v.push((op, false, t));
            if op.has_reg_form() {
                v.push((op, true, t));
            }
        }
    }
    v
}

#[derive(Clone, Copy, Default)]
pub struct Force {
    pub form: Option<usize>,
    pub value: Option<u8>,
    pub bit: Option<u8>,
    pub c: Option<u8>,
    pub opreg: Option<u8>,
    pub bitreg: Option<u8>,
    pub bitreg_val: Option<u8>,
    pub areg: Option<u8>,
    /// C08: explicit operand address / upper byte of the address register / @aa:8 operand
    pub target: Option<u32>,
    pub upper: Option<u32>,
    pub abs: Option<u8>,
}

#[derive(Clone, Debug)]
pub struct Tag {
    pub insn: Insn,
    pub value: u8,
    pub bit: u8,
    pub addr: Option<u32>,
    pub same_reg: bool,
}

/// addresses of the @aa:8 page that are plain storage: on-chip RAM tail and I/O registers without
/// peripheral side effects (port DR and timer registers excluded as the property states)
pub fn abs8_ok(aa: u8) -> bool {
    let a = 0xffff00u32 | aa as u32;
    a <= 0xffffe9 && !crate::engine::emu::is_peripheral_reg(a)
}

pub fn build(e: &mut Ent, f: &Force) -> (StepCase, Tag) {
    let fs = forms();
    let fi = f.form.unwrap_or_else(|| e.below(fs.len() as u32) as usize);
    let (op, sel_reg, tk) = fs[fi];
    let mut er = e.regfile();
    let c = f.c.unwrap_or_else(|| e.below(2) as u8) & 1;
    let ccr = (e.u8() & 0xfe) | c;
    let mut value = f.value.unwrap_or_else(|| e.u8());
    let bit = f.bit.unwrap_or_else(|| e.below(8) as u8) & 7;
    let opreg = f.opreg.unwrap_or_else(|| e.below(16) as u8) & 15;
    let bitreg = f.bitreg.unwrap_or_else(|| e.below(16) as u8) & 15;
    let areg = f.areg.unwrap_or_else(|| e.below(8) as u8) & 7;
    // bit-number register value: all 8 bits matter only through their low three bits
    let bitreg_val = f.bitreg_val.unwrap_or_else(|| (e.u8() & 0xf8) | bit);
    let bit = if sel_reg { bitreg_val & 7 } else { bit };
    let sel = if sel_reg { BitSel::Reg(bitreg) } else { BitSel::Imm(bit) };
    let mut patches = vec![];
    let mut addr = None;
    let mut same_reg = false;
    let tgt = match tk {
        TgtK::Reg => {
            put_reg(&mut er, Sz::B, opreg, value as u32);
            BitTgt::Reg(opreg)
        }
        TgtK::Ind => {
            let a = f.target.map(|t| t & 0xff_ffff).unwrap_or_else(|| e.data_addr(&[Region::Ram, Region::Dram, Region::Vector], 1, 1));
            er[areg as usize] = a | f.upper.unwrap_or_else(|| e.upper_byte());
            if crate::refmodel::exec::mapped(a) && !crate::engine::emu::is_peripheral_reg(a) && !(0xfee000..=0xfee0ff).contains(&a) {
                patches.push((a, vec![value]));
            }
            addr = Some(a);
            BitTgt::Ind(areg)
        }
        TgtK::A8 => {
            let mut aa = f.abs.unwrap_or_else(|| e.u8());
            let mut guard = 0;
            while !abs8_ok(aa) && guard < 300 {
                aa = aa.wrapping_add(0x2b);
                guard += 1;
            }
            let a = 0xffff00 | aa as u32;
            if crate::refmodel::exec::mapped(a) {
                patches.push((a, vec![value]));
            }
            addr = Some(a);
            BitTgt::A8(aa)
        }
    };
    if sel_reg {
        put_reg(&mut er, Sz::B, bitreg, bitreg_val as u32);
        if tk == TgtK::Reg && bitreg == opreg {
            // the operand register is its own bit-number register
            value = bitreg_val;
            same_reg = true;
        } else if tk == TgtK::Reg {
            value = get_reg(&er, Sz::B, opreg) as u8;
        } else if tk == TgtK::Ind && (bitreg & 7) == areg {
            // the bit-number register is part of the address register: rebuild the address from it
            let a = er[areg as usize] & 0xff_ffff;
            if crate::refmodel::exec::mapped(a) && !crate::engine::emu::is_peripheral_reg(a) && Region::of(a).is_some() {
                patches = vec![(a, vec![value])];
                addr = Some(a);
            } else {
                // keep the operand location, use another bit-number register
                let nb = (bitreg & 8) | ((areg + 1) & 7);
                let a0 = addr.unwrap();
                er[areg as usize] = (er[areg as usize] & 0xff00_0000) | a0;
                put_reg(&mut er, Sz::B, nb, bitreg_val as u32);
                let insn = Insn::Bit { op, sel: BitSel::Reg(nb), tgt };
                return finish_case(e, insn, er, ccr, patches, value, bit, addr, false);
            }
        }
    }
    let insn = Insn::Bit { op, sel, tgt };
    finish_case(e, insn, er, ccr, patches, value, bit, addr, same_reg)
}

fn finish_case(e: &mut Ent, insn: Insn, er: [u32; 8], ccr: u8, patches: Vec<(u32, Vec<u8>)>, value: u8, bit: u8, addr: Option<u32>, same_reg: bool) -> (StepCase, Tag) {
    let code = encode(&insn);
    let avoid: Vec<u32> = addr.into_iter().collect();
    let mut pc = e.code_addr(code.len() as u32, &avoid);
    let (mut patches, mut value) = (patches, value);
    // self-overlap: now and then the operand byte is one of the instruction's own bytes (the instruction is
    // fetched completely before its operand is accessed, so it may test or modify itself)
    if let Some(a) = addr {
        if e.chance(1, 16) {
            let k = e.below(code.len() as u32);
            let cand = a.wrapping_sub(k) & !1;
            let len = code.len() as u32;
            let fits = |lo: u32, hi: u32| cand >= lo && cand as u64 + len as u64 + 2 <= hi as u64 + 1;
            if (fits(RAM_LO, RAM_HI) || fits(DRAM_LO, DRAM_HI)) && cand <= a && a - cand < len {
                pc = cand;
                patches.retain(|(pa, _)| *pa != a);
                value = code[(a - cand) as usize];
            }
        }
    }
    let bus = e.bus_cfg();
    (StepCase { code, pc, er, ccr, patches, bus, irq: None, primer: None }, Tag { insn, value, bit, addr, same_reg })
}

pub fn classify(case: &StepCase, j: &Judged, t: &Tag, stats: &mut Stats) {
    let form = t.insn.form();
    stats.class(&format!("form: {}", form));
    if let Some(a) = t.addr {
        stats.class(&format!("operand: {}", if a >= 0xffff20 { "io2".to_string() } else { region_class(a, 1) }));
    }
    // did the operation change the operand bit or a flag?
    let changed_flag = case.ccr != j.emu_ccr;
    let changed_bit = match t.insn {
        Insn::Bit { tgt: BitTgt::Reg(r), .. } => get_reg(&j.emu_er, Sz::B, r) as u8 != t.value,
        Insn::Bit { op, .. } if op.is_rmw() => {
            // memory operand: recompute from the reference semantics (the comparison already proved equality)
            let b = (t.value >> t.bit) & 1;
            let c = case.ccr & 1;
            match op {
                BitOp::Bset => b == 0,
                BitOp::Bclr => b == 1,
                BitOp::Bnot => true,
                BitOp::Bst => b != c,
                BitOp::Bist => b == c,
                _ => false,
            }
        }
        _ => false,
    };
    if changed_bit {
        stats.class("operand bit changed");
    }
    if changed_flag {
        stats.class("flag changed");
    }
    if changed_bit || changed_flag {
        let regs = match t.insn {
            Insn::Bit { sel, tgt, .. } => (format!("{:?}", sel), match tgt {
                BitTgt::Reg(r) => r as u32,
                BitTgt::Ind(r) => 16 + r as u32,
                BitTgt::A8(a) => 32 + a as u32,
            }),
            _ => (String::new(), 0),
        };
        let key = key_hash(&(form, regs, t.value, t.bit, case.ccr & 1));
        stats.nontrivial(key, || sample_json(case, j));
    }
}

pub fn run(ctx: &Ctx) -> i32 {
    if let Some(v) = &ctx.replay {
        if crate::checks::soup::is_soup_replay(v) {
            return crate::checks::soup::replay(ctx, P, v);
        }
        return replay_step(ctx, P, v);
    }
    let fs = forms();
    let tier = ctx.tier;
    let enumerated = |emit: &mut dyn FnMut(&str, Builder<Tag>)| {
        let fs = forms();
        for fi in 0..fs.len() {
            // (1) every (operand byte, bit number, C)
            for value in 0..=255u8 {
                for bit in 0..8u8 {
                    for c in 0..2u8 {
                        emit("form x 256 operand bytes x 8 bit numbers x C", &|e| {
                            let hi = e.u8() & 0xf8;
                            build(e, &Force { form: Some(fi), value: Some(value), bit: Some(bit), c: Some(c), bitreg_val: Some(hi | bit), ..Default::default() })
                        });
                    }
                }
            }
            let (_, sel_reg, tk) = fs[fi];
            // (2) every operand register x every bit-number register / every address register
            match tk {
                TgtK::Reg => {
                    for r in 0..16u8 {
                        let nb = if sel_reg { 16 } else { 1 };
                        for br in 0..nb as u8 {
                            emit("form x operand register x bit-number register", &|e| build(e, &Force { form: Some(fi), opreg: Some(r), bitreg: Some(br), ..Default::default() }));
                        }
                    }
                }
                TgtK::Ind => {
                    for a in 0..8u8 {
                        let nb = if sel_reg { 16 } else { 1 };
                        for br in 0..nb as u8 {
                            emit("form x address register x bit-number register", &|e| build(e, &Force { form: Some(fi), areg: Some(a), bitreg: Some(br), ..Default::default() }));
                        }
                    }
                }
                TgtK::A8 => {
                    if sel_reg {
                        for br in 0..16u8 {
                            emit("form x bit-number register", &|e| build(e, &Force { form: Some(fi), bitreg: Some(br), ..Default::default() }));
                        }
                    }
                }
            }
            // (3) every bit-number register value 0-255
            if sel_reg {
                for v in 0..=255u8 {
                    for _k in 0..tier.pick(2, 16) {
                        emit("form x bit-number register value 0-255", &|e| build(e, &Force { form: Some(fi), bitreg_val: Some(v), ..Default::default() }));
                    }
                }
            }
        }
    };
    let mut stats = Drive {
        ctx,
        property: P,
        aspects: Aspects::STATE,
        salt: 0x0401_0000,
        nshards: 64,
        enumerated: &enumerated,
        random_cases: tier.pick(6_000_000, 400_000_000),
        build_random: &|e| build(e, &Force::default()),
        classify: &|c, j, t: &Tag, s| classify(c, j, t, s),
        all_quirks: false,
    }
    .run();
    stats.exhaustive_subspaces.insert("form x (operand byte, bit number, C)".into(), fs.len() as u64 * 4096);
    stats.exhaustive_subspaces.insert("register-selector forms x bit-number register value 0-255".into(), fs.iter().filter(|f| f.1).count() as u64 * 256);
    let nt_share = if stats.evaluations > 0 { stats.nontrivial_cases as f64 / stats.evaluations as f64 } else { 0.0 };
    let mut extra = Map::new();
    extra.insert("nontrivial_fraction".into(), json!(nt_share));
    extra.insert("forms".into(), json!(fs.len()));
    let rule = "cases = the 14 bit instructions x {Rd, @ERd, @aa:8} x {#imm, Rn where defined}: exhaustive over 256 operand bytes x 8 bit numbers x C per form, all operand / bit-number / address registers, all bit-number register values 0-255, crossed with proptest-generated register files, operand addresses (RAM, DRAM, vector area, @aa:8 page without port DR / timer registers), upper bytes, code placement; oracle = reference model post-state (addressed bit, other seven bits, all flags, all other registers and memory, PC). Non-trivial = the operation changes the operand bit or a flag; distinct by (form, registers, operand byte, bit number, C).";
    stats.merge(crate::checks::soup::phase(ctx, P, crate::checks::soup::Flavor::Bit, ctx.tier.pick(300000, 6000000), 0x4510000, false));
    let rule_soup = format!("{}{}", rule, crate::checks::soup::RULE);
    let rule: &str = &rule_soup;
    finish(ctx, P, stats, rule, vec!["reference model transcribed from the H8/300H programming manual (DESIGN 1.3, Appendix A.4)".into()], extra)
}
