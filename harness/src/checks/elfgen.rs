//! ELF32 big-endian builder: the inverse of the loader. A generated `ElfSpec` *is* the expected image.

use crate::gen::*;
use serde_json::{json, Value};

pub const BASE: u32 = 0x416900;



#[derive(Clone, Debug, PartialEq)]
pub struct Seg {
    pub ty: u32,
    pub vaddr: u32,
    pub paddr: u32,
    pub memsz: u32,
    pub flags: u32,
    pub align: u32,
    /// file contents (filesz = data.len())
    pub data: Vec<u8>,
    /// file offset (assigned by the layout)
    pub offset: u32,
}

#[derive(Clone, Debug, PartialEq)]
pub struct Sec {
    pub name: String,
    pub ty: u32,
    pub flags: u32,
    pub addr: u32,
    pub size: u32,
    pub link: u32,
    pub info: u32,
    pub align: u32,
    pub entsize: u32,
    /// own file contents (symtab, strtab, shstrtab, fillers); None = refers to segment data / nothing
    pub data: Option<Vec<u8>>,
    pub offset: u32,
}

#[derive(Clone, Debug, PartialEq)]
pub struct ElfSpec {
    pub segs: Vec<Seg>,
    pub secs: Vec<Sec>,
    pub shstrndx: u16,
    /// (.got address relative to the image, entry values as stored in the file)
    pub got: Option<(u32, Vec<u32>)>,
    pub stack_size: Option<u32>,
    /// (name, value) in symbol-table order
    pub symbols: Vec<(String, u32)>,
    pub exit_value: Option<u32>,
    pub phoff: u32,
    pub shoff: u32,
    pub file: Vec<u8>,
    pub args: String,
    /// Some: the name the file is given on disk (the loader is handed a path; what that path is must not matter)
    pub file_name: Option<String>,
}

impl ElfSpec {
    pub fn image_end(&self) -> u32 {
        self.segs.iter().filter(|s| s.ty == 1).map(|s| s.vaddr + s.memsz).max().unwrap_or(0)
    }
    pub fn brief(&self) -> Value {
        json!({
            "program_headers": self.segs.iter().map(|s| format!("type {:x} off {:x} vaddr {:x} filesz {:x} memsz {:x}", s.ty, s.offset, s.vaddr, s.data.len(), s.memsz)).collect::<Vec<_>>(),
            "sections": self.secs.iter().map(|s| format!("{} addr {:x} off {:x} size {:x}", s.name, s.addr, s.offset, s.size)).collect::<Vec<_>>(),
            "got_entries": self.got.as_ref().map(|g| g.1.len()),
            "stack_size": self.stack_size,
            "symbols": self.symbols.len(),
            "args": self.args,
            "file_len": self.file.len(),
        })
    }
    pub fn to_json(&self) -> Value {
        json!({"kind": "elf", "file": crate::engine::stepcase::hex(&self.file), "args": self.args, "file_name": self.file_name, "brief": self.brief()})
    }
}

fn be32(v: &mut Vec<u8>, x: u32) {
    v.extend_from_slice(&x.to_be_bytes());
}
fn be16(v: &mut Vec<u8>, x: u16) {
    v.extend_from_slice(&x.to_be_bytes());
}

#[derive(Clone, Copy, Default)]
pub struct Opts {
    /// C12's quantifier: p_paddr = p_vaddr, PT_LOAD ascending, .stack and .symtab present
    pub c12: bool,
}

fn graphic_name(e: &mut Ent, first_pool: &[u8]) -> String {
    let n = 1 + e.below(12) as usize;
    let mut s = String::new();
    s.push(e.pick(first_pool) as char);
    for _ in 1..n {
        s.push((0x21 + e.below(0x7e - 0x21 + 1) as u8) as char);
    }
    s
}

pub fn arg_string(e: &mut Ent) -> String {
    // 0-32 words of printable ASCII up to 200 bytes, separated and surrounded by runs of blanks/tabs
    let nwords = match e.below(4) {
        0 => 0,
        1 => 1 + e.below(3),
        _ => e.below(33),
    };
    let blanks = |e: &mut Ent, min: u32| -> String {
        let n = min + if e.chance(1, 2) { 0 } else { e.below(4) };
        (0..n).map(|_| if e.chance(1, 4) { '\t' } else { ' ' }).collect()
    };
    let mut s = blanks(e, 0);
    for i in 0..nwords {
        if i > 0 {
            s.push_str(&blanks(e, 1));
        }
        let len = match e.below(8) {
            0 => 1 + e.below(200),
            _ => 1 + e.below(12),
        };
        for _ in 0..len {
            s.push((0x21 + e.below(0x7e - 0x21 + 1) as u8) as char);
        }
    }
    s.push_str(&blanks(e, 0));
    s
}

pub fn build(e: &mut Ent, o: &Opts) -> ElfSpec {
    // ---- program headers
    let nload = 1 + e.below(4) as usize;
    let mut segs: Vec<Seg> = vec![];
    let mut v = if e.chance(1, 2) { 0 } else { e.below(0x40) };
    for _ in 0..nload {
        let filesz = match e.below(6) {
            0 => 0,
            1 => 1 + e.below(8),
            2 => 0x1000 + e.below(0x3000),
            _ => 1 + e.below(0x400),
        };
        let memsz = filesz + match e.below(4) {
            0 => 0,
            1 => e.below(8),
            _ => e.below(0x800),
        };
        let data: Vec<u8> = {
            // cheap pseudo-random contents derived from two draws
            let mut x = e.u32() | 1;
            (0..filesz)
                .map(|_| {
                    x = x.wrapping_mul(1664525).wrapping_add(1013904223);
                    (x >> 24) as u8
                })
                .collect()
        };
        let paddr = if o.c12 || e.chance(3, 4) { v } else { e.u32() };
        segs.push(Seg { ty: 1, vaddr: v, paddr, memsz, flags: e.below(8), align: 1 << e.below(5), data, offset: 0 });
        v += memsz + if e.chance(1, 2) { 0 } else { e.below(0x100) };
    }
    let mut edge = false;
    if !o.c12 && e.chance(1, 10) {
        edge = true;
        // edge layout: the highest segment ends exactly at (or a few bytes below) the end of DRAM
        // (such an image leaves no room for a stack: the file then has no .stack section)
        let top: u32 = 0x60_0000 - BASE;
        let last = segs.len() - 1;
        let slack = e.pick(&[0u32, 0, 1, 3, 4]);
        let ms = segs[last].memsz;
        if segs[last].vaddr + ms < top {
            let bss_free = e.chance(1, 2);
            if bss_free {
                segs[last].memsz = segs[last].data.len() as u32;
            }
            segs[last].vaddr = top - slack - segs[last].memsz;
            segs[last].paddr = segs[last].vaddr;
        }
    }
    if !o.c12 && e.chance(1, 3) {
        // PT_LOAD entries need not be sorted by address
        let k = e.below(nload as u32) as usize;
        segs.swap(0, k);
    }
    // interleaved non-load headers with arbitrary fields
    let nother = e.below(4) as usize;
    for _ in 0..nother {
        let ty = e.pick(&[4u32, 6, 0x6474e551, 0, 2, 7, 0x6474e550, 0x70000001]);
        let pos = e.below(segs.len() as u32 + 1) as usize;
        let (va, ms) = match e.below(3) {
            0 => (0, 0),
            1 => (e.below(0x1000), e.below(0x100)),
            _ => (e.u32() >> 12, e.u32() >> 16),
        };
        segs.insert(pos, Seg { ty, vaddr: va, paddr: va, memsz: ms, flags: e.below(8), align: e.below(0x20), data: vec![], offset: e.below(0x2000) });
    }
    let loads: Vec<usize> = (0..segs.len()).filter(|&i| segs[i].ty == 1).collect();

    // ---- .got inside a segment's file-backed part
    let mut got = None;
    let mut got_sec: Option<(u32, u32)> = None; // (addr, size)
    let ngot = match e.below(4) {
        0 => 0,
        1 => 1 + e.below(3),
        _ => e.below(65),
    } as usize;
    let cands: Vec<usize> = loads.iter().copied().filter(|&i| segs[i].data.len() >= 4 * ngot).collect();
    if !cands.is_empty() && (o.c12 || e.chance(5, 6)) {
        let si = if e.chance(1, 3) { *cands.iter().max_by_key(|&&i| segs[i].vaddr).unwrap() } else { e.pick(&cands) };
        let room = segs[si].data.len() - 4 * ngot;
        // position inside the file-backed extent: flush at its start, flush at its end, or anywhere
        let mut off = match e.below(5) {
            0 => 0,
            1 => room,
            _ => e.below(room as u32 + 1) as usize,
        };
        if e.chance(1, 3) {
            off &= !3;
        }
        let mut entries: Vec<u32> = vec![];
        let got_addr = segs[si].vaddr + off as u32;
        for k in 0..ngot {
            let val = match e.below(7) {
                0 => e.pick(&[0u32, 1, 0x00be96ff, 0x00be9700, 0x00be9701, 0xffbe96ff, 0x7fbe9700, 0xff000000, 0x0000ffff, 0x00010000]),
                1 => e.below(0x2000),
                // values related to the table itself and to the other entries (what a real GOT holds are image
                // addresses - also of GOT words - and a loader that keeps books by value or by address confuses them):
                // the image-relative or the loaded address of some entry of this table, an earlier entry's value again,
                // its relocated value, its value minus the base, the base itself, a segment's address
                2 => {
                    let i = e.below(ngot as u32);
                    let a = got_addr + 4 * i;
                    if e.chance(1, 2) { a } else { a.wrapping_add(BASE) }
                }
                3 if k > 0 => {
                    let prev = entries[e.below(k as u32) as usize];
                    match e.below(3) {
                        0 => prev,
                        1 => prev.wrapping_add(BASE),
                        _ => prev.wrapping_sub(BASE),
                    }
                }
                4 if e.chance(1, 2) => {
                    let sv = segs[e.pick(&loads)].vaddr;
                    e.pick(&[BASE, sv, sv.wrapping_add(BASE), BASE + 4, BASE.wrapping_neg()])
                }
                _ => e.u32(),
            };
            // file value + base stays a natural number below 2^32
            let val = if val > u32::MAX - BASE { val - BASE } else { val };
            entries.push(val);
            segs[si].data[off + 4 * k..off + 4 * k + 4].copy_from_slice(&val.to_be_bytes());
        }
        let addr = segs[si].vaddr + off as u32;
        got = Some((addr, entries));
        got_sec = Some((addr, 4 * ngot as u32));
    }

    // ---- symbols
    let mut symbols: Vec<(String, u32)> = vec![];
    let mut exit_value = None;
    let have_symtab = o.c12 || e.chance(2, 3);
    if have_symtab {
        let nsym = 1 + match e.below(4) {
            0 => 0,
            1 => e.below(6),
            _ => e.below(200),
        } as usize;
        let exit_at = e.below(nsym as u32) as usize;
        for i in 0..nsym {
            if i == exit_at {
                let val = match e.below(3) {
                    0 => e.below(0x2000) & !1,
                    _ => e.below(0x100000),
                };
                exit_value = Some(val);
                symbols.push(("___exit".to_string(), val));
            } else {
                let name = match e.below(8) {
                    0 => e.pick(&["___exit2", "__exit", "x___exit", "___exi", "____exit", "_exit", "___EXIT", ""]).to_string(),
                    _ => graphic_name(e, b"ABCxyz_.$mainfoo"),
                };
                symbols.push((name, e.u32()));
            }
        }
    }

    // ---- sections
    let mut secs: Vec<Sec> = vec![];
    let mk = |name: &str, ty: u32, addr: u32, size: u32, data: Option<Vec<u8>>| Sec { name: name.to_string(), ty, flags: 0, addr, size, link: 0, info: 0, align: 1, entsize: 0, data, offset: 0 };
    // ordinary sections describing the segments
    for (k, &i) in loads.iter().enumerate() {
        let names = [".text", ".data", ".rodata", ".data.rel"];
        secs.push(mk(names[k % 4], 1, segs[i].vaddr, segs[i].data.len() as u32, None));
    }
    if e.chance(1, 2) {
        secs.push(mk(".bss", 8, segs[*loads.last().unwrap()].vaddr + segs[*loads.last().unwrap()].data.len() as u32, 0x10, None));
    }
    if let Some((a, s)) = got_sec {
        secs.push(mk(".got", 1, a, s, None));
    }
    let stack_size = if edge {
        None
    } else if o.c12 || e.chance(1, 2) {
        Some(match e.below(5) {
            0 => 0,
            1 => e.pick(&[0x400u32, 0x401, 0x3ff, 0x1000, 0xffff, 0x10000, 1, 2, 3]),
            _ => e.below(0x10001),
        })
    } else {
        None
    };
    if let Some(sz) = stack_size {
        // the MES toolchain encodes the stack size in the section's address field
        secs.push(mk(".stack", 1, sz, 0, None));
    }
    for _ in 0..e.below(4) {
        let n = graphic_name(e, b".cdr_");
        let n = if [".got", ".stack", ".symtab"].contains(&n.as_str()) { format!("{}x", n) } else { n };
        let len = e.below(40);
        secs.push(mk(&n, e.pick(&[1u32, 7, 0x70000000, 3]), e.u32() >> 8, len, Some((0..len).map(|k| (k as u8).wrapping_mul(37)).collect())));
    }
    // string table for the symbols. One table in three is written the way a linker with string merging writes
    // it: a name that is the tail of a string already in the table (or equal to one) refers into that entry
    // instead of getting its own - legal ELF (a string table index may point at any byte of the section) - and
    // now and then unreferenced strings sit between the entries.
    let share_sym = e.chance(1, 3);
    let share_sec = e.chance(1, 3);
    fn intern(table: &mut Vec<u8>, name: &str, share: bool) -> u32 {
        let n = name.as_bytes();
        if share && !n.is_empty() {
            let mut p = 0usize;
            while p + n.len() < table.len() {
                if &table[p..p + n.len()] == n && table[p + n.len()] == 0 {
                    return p as u32;
                }
                p += 1;
            }
        }
        let idx = table.len() as u32;
        table.extend_from_slice(n);
        table.push(0);
        idx
    }
    if have_symtab {
        let mut strtab: Vec<u8> = vec![0];
        let mut symdata: Vec<u8> = vec![];
        if share_sym && e.chance(1, 2) {
            // strings no symbol refers to, some of them with the exit symbol's name as their tail
            for _ in 0..1 + e.below(3) {
                let junk = match e.below(3) {
                    0 => e.pick(&["_call___exit", "at___exit", "___exit.part.0", "x___exit", "__libc___exit"]).to_string(),
                    _ => graphic_name(e, b"ABCxyz_.$mainfoo"),
                };
                intern(&mut strtab, &junk, false);
            }
        }
        for (name, val) in &symbols {
            let idx = if name.is_empty() { 0 } else { intern(&mut strtab, name, share_sym) };
            be32(&mut symdata, idx);
            be32(&mut symdata, *val);
            be32(&mut symdata, e.below(0x100));
            // st_info (binding / type), st_other (visibility), st_shndx: nothing the statement makes the start
            // environment depend on - generated over their whole range, the reserved section indices
            // (SHN_UNDEF, SHN_ABS, SHN_COMMON, SHN_XINDEX, the LORESERVE / processor ranges) as often as ordinary ones
            symdata.push(if e.chance(1, 2) { e.u8() } else { (e.pick(&[0u8, 1, 2]) << 4) | e.pick(&[0u8, 1, 2, 3, 4]) });
            symdata.push(if e.chance(1, 2) { 0 } else { e.u8() });
            let shndx = match e.below(3) {
                0 => e.pick(&[0u16, 0xfff1, 0xfff2, 0xffff, 0xff00, 0xff1f, 0xff20, 0xff3f, 0xfff0]),
                1 => e.below(12) as u16,
                _ => e.u16(),
            };
            be16(&mut symdata, shndx);
        }
        let mut st = mk(".symtab", 2, 0, symdata.len() as u32, Some(symdata));
        st.entsize = 16;
        st.align = 4;
        secs.push(st);
        secs.push(mk(".strtab", 3, 0, strtab.len() as u32, Some(strtab)));
    }
    secs.push(mk(".shstrtab", 3, 0, 0, Some(vec![])));
    // shuffle the section order (draw-driven Fisher-Yates); keep a null section first most of the time
    for i in (1..secs.len()).rev() {
        let j = e.below(i as u32 + 1) as usize;
        secs.swap(i, j);
    }
    if e.chance(3, 4) {
        secs.insert(0, Sec { name: String::new(), ty: 0, flags: 0, addr: 0, size: 0, link: 0, info: 0, align: 0, entsize: 0, data: None, offset: 0 });
    }
    // links after shuffling
    let idx_of = |secs: &Vec<Sec>, n: &str| secs.iter().position(|s| s.name == n);
    if let (Some(si), Some(ti)) = (idx_of(&secs, ".symtab"), idx_of(&secs, ".strtab")) {
        secs[si].link = ti as u32;
        secs[si].info = e.below(symbols.len() as u32 + 1);
    }
    let shstrndx = idx_of(&secs, ".shstrtab").unwrap();
    // section name string table
    let mut shstr: Vec<u8> = vec![0];
    let mut name_idx: Vec<u32> = vec![];
    if share_sec && e.chance(1, 2) {
        for _ in 0..1 + e.below(3) {
            let junk = e.pick(&[".rela.got", ".rela.text", ".init.stack", ".dynsymtab", ".gnu.strtab", ".note.shstrtab", ".data.rel.got"]);
            intern(&mut shstr, junk, false);
        }
    }
    for s in &secs {
        if s.name.is_empty() {
            name_idx.push(0);
        } else {
            name_idx.push(intern(&mut shstr, &s.name, share_sec));
        }
    }
    secs[shstrndx].size = shstr.len() as u32;
    secs[shstrndx].data = Some(shstr);

    // ---- file layout: header, then blobs in a drawn order with gaps of junk
    #[derive(Clone, Copy)]
    enum Blob {
        Pht,
        Sht,
        Seg(usize),
        Sec(usize),
    }
    let mut blobs: Vec<Blob> = vec![Blob::Pht, Blob::Sht];
    for i in 0..segs.len() {
        if segs[i].ty == 1 {
            blobs.push(Blob::Seg(i));
        }
    }
    for i in 0..secs.len() {
        if secs[i].data.is_some() {
            blobs.push(Blob::Sec(i));
        }
    }
    for i in (1..blobs.len()).rev() {
        let j = e.below(i as u32 + 1) as usize;
        blobs.swap(i, j);
    }
    let mut file: Vec<u8> = vec![0; 52];
    let (mut phoff, mut shoff) = (0u32, 0u32);
    let mut junk = e.u32() | 1;
    for b in blobs {
        // gaps of junk between the blobs; rarely a large one, so that file offsets exceed 16 bits
        let gap = match e.below(160) {
            0 => 0x1_0000 + e.below(0x800),
            1..=79 => 0,
            _ => e.below(24),
        };
        for _ in 0..gap {
            junk = junk.wrapping_mul(1103515245).wrapping_add(12345);
            file.push((junk >> 16) as u8);
        }
        match b {
            Blob::Pht => {
                phoff = file.len() as u32;
                file.extend(std::iter::repeat(0).take(32 * segs.len()));
            }
            Blob::Sht => {
                shoff = file.len() as u32;
                file.extend(std::iter::repeat(0).take(40 * secs.len()));
            }
            Blob::Seg(i) => {
                segs[i].offset = file.len() as u32;
                file.extend_from_slice(&segs[i].data);
            }
            Blob::Sec(i) => {
                secs[i].offset = file.len() as u32;
                file.extend_from_slice(secs[i].data.as_ref().unwrap());
            }
        }
    }
    // sections that describe segment data point into it
    for s in secs.iter_mut() {
        if s.data.is_none() && s.ty != 0 {
            if let Some(seg) = segs.iter().find(|g| g.ty == 1 && s.addr >= g.vaddr && s.addr <= g.vaddr + g.data.len() as u32) {
                s.offset = seg.offset + (s.addr - seg.vaddr);
            } else {
                s.offset = file.len() as u32;
            }
        }
    }
    // program header table
    for (i, g) in segs.iter().enumerate() {
        let mut h = vec![];
        be32(&mut h, g.ty);
        be32(&mut h, g.offset);
        be32(&mut h, g.vaddr);
        be32(&mut h, g.paddr);
        be32(&mut h, g.data.len() as u32);
        be32(&mut h, g.memsz);
        be32(&mut h, g.flags);
        be32(&mut h, g.align);
        let o = phoff as usize + 32 * i;
        file[o..o + 32].copy_from_slice(&h);
    }
    for (i, s) in secs.iter().enumerate() {
        let mut h = vec![];
        be32(&mut h, name_idx[i]);
        be32(&mut h, s.ty);
        be32(&mut h, s.flags);
        be32(&mut h, s.addr);
        be32(&mut h, s.offset);
        be32(&mut h, s.size);
        be32(&mut h, s.link);
        be32(&mut h, s.info);
        be32(&mut h, s.align);
        be32(&mut h, s.entsize);
        let o = shoff as usize + 40 * i;
        file[o..o + 40].copy_from_slice(&h);
    }
    // ELF header
    let mut h: Vec<u8> = vec![0x7f, b'E', b'L', b'F', 1, 2, 1, e.pick(&[0u8, 0, 3, 9]), 0, 0, 0, 0, 0, 0, 0, 0];
    be16(&mut h, 2);
    be16(&mut h, 46);
    be32(&mut h, 1);
    be32(&mut h, e.below(0x1000));
    be32(&mut h, phoff);
    be32(&mut h, shoff);
    be32(&mut h, 0x810000);
    be16(&mut h, 52);
    be16(&mut h, 32);
    be16(&mut h, segs.len() as u16);
    be16(&mut h, 40);
    be16(&mut h, secs.len() as u16);
    be16(&mut h, shstrndx as u16);
    file[..52].copy_from_slice(&h);
    let mut args = arg_string(e);
    // the path the loader is given is environment, not input: now and then the file carries a name that is also
    // one of the argument words (a command line pasted with the program's name in it), "prog.elf" itself, or a
    // name with blanks in it
    let mut file_name = None;
    if e.chance(1, 5) {
        let safe = |w: &str| !w.is_empty() && w.len() <= 40 && w != "." && w != ".." && w.bytes().all(|c| c.is_ascii_alphanumeric() || b"._-+=,@".contains(&c));
        let words: Vec<String> = args.split(|c| c == ' ' || c == '\t').filter(|w| safe(w)).map(|w| w.to_string()).collect();
        let name = match e.below(4) {
            0 if !words.is_empty() => words[e.below(words.len() as u32) as usize].clone(),
            1 => "prog.elf".to_string(),
            2 => {
                // make the name the first (or a later) word of the argument string
                let n = e.pick(&["one.elf", "a.out", "prog.elf", "test.elf", "x"]).to_string();
                args = match e.below(3) {
                    0 => format!("{} {}", n, args),
                    1 => format!(" \t{}\t{} {}", n, args, n),
                    _ => format!("{} {}", args, n),
                };
                n
            }
            _ => "my prog.elf".to_string(),
        };
        file_name = Some(name);
    }
    ElfSpec { segs, secs, shstrndx: shstrndx as u16, got, stack_size, symbols, exit_value, phoff, shoff, file, args, file_name }
}

/// expected content of the image area [0, image_end): file contents where file-backed (GOT entries
/// relocated once), zero elsewhere
pub fn expected_image(spec: &ElfSpec) -> Vec<u8> {
    let end = spec.image_end() as usize;
    let mut img = vec![0u8; end];
    for s in spec.segs.iter().filter(|s| s.ty == 1) {
        img[s.vaddr as usize..s.vaddr as usize + s.data.len()].copy_from_slice(&s.data);
    }
    if let Some((addr, entries)) = &spec.got {
        for (k, v) in entries.iter().enumerate() {
            let a = *addr as usize + 4 * k;
            img[a..a + 4].copy_from_slice(&v.wrapping_add(BASE).to_be_bytes());
        }
    }
    img
}

/// A minimal MES-style executable: one PT_LOAD segment holding `code` (+ `bss` zero bytes), a .stack
/// section of `stack` bytes, and a symbol table whose `___exit` has value `exit`.
pub fn simple_elf(code: &[u8], bss: u32, stack: u32, exit: u32) -> Vec<u8> {
    let shstr: &[u8] = b"\0.text\0.stack\0.symtab\0.strtab\0.shstrtab\0.got\0";
    let name = |n: &str| -> u32 {
        let pat = format!("{}\0", n);
        shstr.windows(pat.len()).position(|w| w == pat.as_bytes()).unwrap() as u32
    };
    let strtab: &[u8] = b"\0_start\0___exit\0";
    let mut symtab: Vec<u8> = vec![0; 16];
    for (n, v) in [(1u32, 0u32), (8, exit)] {
        be32(&mut symtab, n);
        be32(&mut symtab, v);
        be32(&mut symtab, 0);
        symtab.push(0x10);
        symtab.push(0);
        be16(&mut symtab, 1);
    }
    let mut file: Vec<u8> = vec![0; 52];
    let phoff = file.len() as u32;
    file.extend(std::iter::repeat(0).take(32));
    let code_off = file.len() as u32;
    file.extend_from_slice(code);
    let sym_off = file.len() as u32;
    file.extend_from_slice(&symtab);
    let str_off = file.len() as u32;
    file.extend_from_slice(strtab);
    let shstr_off = file.len() as u32;
    file.extend_from_slice(shstr);
    while file.len() % 4 != 0 {
        file.push(0);
    }
    let shoff = file.len() as u32;
    // sections: null, .text, .got (empty), .stack, .symtab, .strtab, .shstrtab
    let secs: Vec<[u32; 10]> = vec![
        [0; 10],
        [name(".text"), 1, 6, 0, code_off, code.len() as u32, 0, 0, 4, 0],
        [name(".got"), 1, 3, code.len() as u32, code_off + code.len() as u32, 0, 0, 0, 4, 0],
        [name(".stack"), 1, 3, stack, shoff, 0, 0, 0, 1, 0],
        [name(".symtab"), 2, 0, 0, sym_off, symtab.len() as u32, 5, 1, 4, 16],
        [name(".strtab"), 3, 0, 0, str_off, strtab.len() as u32, 0, 0, 1, 0],
        [name(".shstrtab"), 3, 0, 0, shstr_off, shstr.len() as u32, 0, 0, 1, 0],
    ];
    for s in &secs {
        for f in s {
            be32(&mut file, *f);
        }
    }
    let mut ph = vec![];
    for f in [1u32, code_off, 0, 0, code.len() as u32, code.len() as u32 + bss, 7, 1] {
        be32(&mut ph, f);
    }
    file[phoff as usize..phoff as usize + 32].copy_from_slice(&ph);
    let mut h: Vec<u8> = vec![0x7f, b'E', b'L', b'F', 1, 2, 1, 0, 0, 0, 0, 0, 0, 0, 0, 0];
    be16(&mut h, 2);
    be16(&mut h, 46);
    be32(&mut h, 1);
    be32(&mut h, 0);
    be32(&mut h, phoff);
    be32(&mut h, shoff);
    be32(&mut h, 0x810000);
    be16(&mut h, 52);
    be16(&mut h, 32);
    be16(&mut h, 1);
    be16(&mut h, 40);
    be16(&mut h, secs.len() as u16);
    be16(&mut h, 6);
    file[..52].copy_from_slice(&h);
    file
}
