pub mod common;
pub mod selftest;
pub mod driver;
pub mod alu;
pub mod c01;
pub mod c02;
pub mod c03;
pub mod c04;
pub mod c05;
pub mod c06;
pub mod c07;
pub mod c08;
pub mod c09;
pub mod c10;
pub mod c11;
pub mod c12;
pub mod c13;
pub mod c14;
pub mod c15;
pub mod elfgen;
pub mod c16;
pub mod c17;
pub mod c18;
pub mod c19;
pub mod c20;
pub mod soup;

use crate::engine::run::Ctx;

pub const ALL: [&str; 1] = ["C01"];

pub fn dispatch(id: &str, ctx: &Ctx) -> Option<i32> {
    Some(match id {
        "C01" => c01::run(ctx),
        "C02" => c02::run(ctx),
        "C03" => c03::run(ctx),
        "C04" => c04::run(ctx),
        "C05" => c05::run(ctx),
        "C06" => c06::run(ctx),
        "C07" => c07::run(ctx),
        "C08" => c08::run(ctx),
        "C09" => c09::run(ctx),
        "C10" => c10::run(ctx),
        "C11" => c11::run(ctx),
        "C12" => c12::run(ctx),
        "C13" => c13::run(ctx),
        "C14" => c14::run(ctx),
        "C15" => c15::run(ctx),
        "C16" => c16::run(ctx),
        "C17" => c17::run(ctx),
        "C18" => c18::run(ctx),
        "C19" => c19::run(ctx),
        "C20" => c20::run(ctx),
        "SELFTEST" => selftest::run(),
        "SOUP" => soup::dev(ctx),
        "CORPUS" => crate::fuzzapi::gen_corpus(),
        _ => return None,
    })
}
