pub mod common;
pub mod driver;
pub mod c01;

use crate::engine::run::Ctx;

pub const ALL: [&str; 1] = ["C01"];

pub fn dispatch(id: &str, ctx: &Ctx) -> Option<i32> {
    Some(match id {
        "C01" => c01::run(ctx),
        _ => return None,
    })
}
