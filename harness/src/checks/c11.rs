//! C11 - ELF loading places every segment byte and relocates the GOT exactly once.
//! C12 - a loaded program starts in the MES process environment it expects.

use super::elfgen::*;
use crate::cpu::Cpu;
use crate::engine::emu::guarded;
use crate::engine::run::*;
use crate::engine::stats::*;
use crate::gen::*;
use serde_json::{json, Map, Value};
use std::path::PathBuf;

pub struct Loader {
    pub cpu: Cpu,
    pub fresh: Cpu,
    path: PathBuf,
    /// highest DRAM offset that may be dirty
    dirty_hi: usize,
    pub cases_since_full_check: u32,
}

impl Loader {
    pub fn new(tag: &str) -> Loader {
        *crate::setting::ENABLE_PRINT_OPCODE.write().unwrap() = false;
        let dir = std::env::temp_dir().join(format!("h8verif-{}", std::process::id()));
        let _ = std::fs::create_dir_all(&dir);
        Loader { cpu: Cpu::new(), fresh: Cpu::new(), path: dir.join(format!("{}.elf", tag)), dirty_hi: 0, cases_since_full_check: 0 }
    }
    /// load `file` with `args` into the (clean) cpu; Err(panic message) if the loader panics
    pub fn load(&mut self, file: &[u8], args: &str) -> Result<(), String> {
        self.load_named(file, args, None)
    }
    /// `name`: the file name on disk (inside a directory of this loader's own)
    pub fn load_named(&mut self, file: &[u8], args: &str, name: Option<&str>) -> Result<(), String> {
        let path_buf = match name {
            Some(n) => {
                let d = self.path.with_extension("d");
                let _ = std::fs::create_dir_all(&d);
                d.join(n)
            }
            None => self.path.clone(),
        };
        std::fs::write(&path_buf, file).map_err(|e| format!("cannot write scratch file: {}", e))?;
        let path = path_buf.to_string_lossy().to_string();
        let cleanup = name.map(|_| path_buf.clone());
        struct Rm(Option<PathBuf>);
        impl Drop for Rm {
            fn drop(&mut self) {
                if let Some(p) = &self.0 {
                    let _ = std::fs::remove_file(p);
                }
            }
        }
        let _rm = Rm(cleanup);
        let cpu = &mut self.cpu;
        let args = args.to_string();
        guarded(move || crate::elf::load(path, cpu, args)).map_err(|p| format!("loader panicked: {}", p))
    }
    /// make the cpu pristine again (DRAM up to `hi` zeroed, registers cleared)
    pub fn reset(&mut self, hi: usize) {
        // wherever the loader put the start environment (also when it is misplaced)
        let mut hi = hi;
        for r in [self.cpu.er[1], self.cpu.er[7]] {
            if (0x400000..0x600000).contains(&r) {
                hi = hi.max((r - 0x400000) as usize + 0x4000);
            }
        }
        let hi = hi.max(self.dirty_hi).min(self.cpu.bus.dram.len());
        self.cpu.bus.dram[..hi].fill(0);
        self.cpu.er = [0; 8];
        self.cpu.exit_addr = 0;
        self.dirty_hi = 0;
    }
    /// non-DRAM regions and registers untouched by loading (compared with a fresh Cpu)
    pub fn outside_dram_clean(&self) -> Option<String> {
        if self.cpu.bus.memory[..] != self.fresh.bus.memory[..] {
            return Some("on-chip RAM modified".into());
        }
        if self.cpu.bus.exception_handling_vector[..] != self.fresh.bus.exception_handling_vector[..] {
            return Some("vector area modified".into());
        }
        if self.cpu.bus.io_registrs1[..] != self.fresh.bus.io_registrs1[..] || self.cpu.bus.io_registrs2[..] != self.fresh.bus.io_registrs2[..] {
            return Some("I/O registers modified".into());
        }
        None
    }
}
impl Drop for Loader {
    fn drop(&mut self) {
        let _ = std::fs::remove_file(&self.path);
        let _ = std::fs::remove_dir_all(self.path.with_extension("d"));
        if let Some(d) = self.path.parent() {
            let _ = std::fs::remove_dir(d);
        }
    }
}

const BASE_OFF: usize = (BASE - DRAM_LO) as usize;

/// C11's oracle. Ok(classes) / Err(detail)
pub fn check_c11(ld: &mut Loader, spec: &ElfSpec) -> Result<(), String> {
    let r = ld.load_named(&spec.file, &spec.args, spec.file_name.as_deref());
    let end = spec.image_end() as usize;
    let hi = (BASE_OFF + end + 0x10000 + 0x4000 + spec.args.len() * 6 + 0x400).min(0x200000);
    let res = (|| {
        r?;
        let img = expected_image(spec);
        let dram = &ld.cpu.bus.dram;
        // below the load base: untouched
        if let Some(k) = dram[..BASE_OFF].iter().position(|b| *b != 0) {
            return Err(format!("DRAM below the load base modified at {:06x}", DRAM_LO as usize + k));
        }
        // the image
        if dram[BASE_OFF..BASE_OFF + end] != img[..] {
            let k = (0..end).find(|&k| dram[BASE_OFF + k] != img[k]).unwrap();
            let in_got = spec.got.as_ref().map(|(a, e)| k as u32 >= *a && (k as u32) < *a + 4 * e.len() as u32).unwrap_or(false);
            let backed = spec.segs.iter().any(|s| s.ty == 1 && k >= s.vaddr as usize && k < s.vaddr as usize + s.data.len());
            return Err(format!(
                "image byte at base+{:x}: expected {:02x} observed {:02x} ({})",
                k,
                img[k],
                dram[BASE_OFF + k],
                if in_got { "GOT entry: file value + load base, big-endian" } else if backed { "file contents of a PT_LOAD segment" } else { "not file-backed: must read zero" }
            ));
        }
        // above the image: nothing when there is no .stack section; otherwise C12's territory
        if spec.stack_size.is_none() {
            if let Some(k) = dram[BASE_OFF + end..].iter().position(|b| *b != 0) {
                return Err(format!("DRAM above the image modified at base+{:x} although the file has no .stack section", end + k));
            }
        }
        if let Some(m) = ld.outside_dram_clean() {
            return Err(m);
        }
        Ok(())
    })();
    let full = spec.stack_size.is_none();
    let _ = full;
    ld.reset(hi);
    ld.cases_since_full_check += 1;
    if ld.cases_since_full_check >= 64 {
        ld.cases_since_full_check = 0;
        if res.is_ok() {
            if let Some(k) = ld.cpu.bus.dram.iter().position(|b| *b != 0) {
                ld.cpu.bus.dram.fill(0);
                return Err(format!("stray DRAM write at {:06x} by one of the last 64 loads", DRAM_LO as usize + k));
            }
        }
    }
    res
}

fn be32_at(d: &[u8], off: usize) -> u32 {
    u32::from_be_bytes([d[off], d[off + 1], d[off + 2], d[off + 3]])
}

/// C12's oracle, computed from the statement. Ok(()) / Err(detail)
pub fn check_c12(ld: &mut Loader, spec: &ElfSpec) -> Result<(), String> {
    let r = ld.load_named(&spec.file, &spec.args, spec.file_name.as_deref());
    let end = spec.image_end();
    let hi = (BASE_OFF + end as usize + 0x10000 + 0x4000 + spec.args.len() * 6 + 0x400).min(0x200000);
    let res = (|| {
        r?;
        let cpu = &ld.cpu;
        let dram = &cpu.bus.dram;
        if cpu.er[2] != BASE {
            return Err(format!("ER2 = {:08x}, execution must start at the load base {:06x}", cpu.er[2], BASE));
        }
        if let Some((a, _)) = &spec.got {
            if cpu.er[5] != BASE + a {
                return Err(format!("ER5 = {:08x}, run-time address of .got is {:08x}", cpu.er[5], BASE + a));
            }
        }
        let stack_size = spec.stack_size.unwrap();
        let image_end = BASE + end;
        let stack_end = (image_end + stack_size + 3) & !3;
        let sp = cpu.er[7];
        if sp % 4 != 0 || sp + 8 != stack_end {
            return Err(format!("ER7 = {:08x}: must be 4-aligned and 8 below the aligned end {:08x} of a {:#x}-byte stack region starting at the image end {:08x}", sp, stack_end, stack_size, image_end));
        }
        // words of the argument string (independent splitter on blank / tab)
        let words: Vec<&str> = spec.args.split(|c| c == ' ' || c == '\t').filter(|w| !w.is_empty()).collect();
        let argc = 1 + words.len() as u32;
        if cpu.er[0] != argc {
            return Err(format!("ER0 = {}, argc is {} for argument string {:?}", cpu.er[0], argc, spec.args));
        }
        let argv = cpu.er[1];
        // interval arithmetic on the observed pointers
        let in_dram = |a: u32, n: u32| a >= DRAM_LO && (a as u64 + n as u64) <= DRAM_HI as u64 + 1;
        let tcb_end = stack_end + 88;
        if !in_dram(argv, 4 * (argc + 1)) {
            return Err(format!("argv table at {:08x} is not inside DRAM", argv));
        }
        if argv < tcb_end {
            return Err(format!("argv table at {:08x} overlaps the stack region / 88-byte TCB area ending at {:08x}", argv, tcb_end));
        }
        let mut blocks: Vec<(u32, u32, String)> = vec![(argv, argv + 4 * (argc + 1), "argv table".into())];
        let get = |a: u32| dram[(a - DRAM_LO) as usize];
        for i in 0..argc {
            let p = be32_at(dram, (argv - DRAM_LO) as usize + 4 * i as usize);
            let expect: &[u8] = if i == 0 { b"prog.elf" } else { words[i as usize - 1].as_bytes() };
            if !in_dram(p, expect.len() as u32 + 1) {
                return Err(format!("argv[{}] = {:08x} does not point into DRAM", i, p));
            }
            for (k, b) in expect.iter().enumerate() {
                if get(p + k as u32) != *b {
                    return Err(format!("argv[{}] at {:08x}: byte {} is {:02x}, expected {:02x} of {:?}", i, p, k, get(p + k as u32), b, String::from_utf8_lossy(expect)));
                }
            }
            if get(p + expect.len() as u32) != 0 {
                return Err(format!("argv[{}] at {:08x} is not NUL-terminated after {} bytes", i, p, expect.len()));
            }
            if p < tcb_end {
                return Err(format!("argv[{}] string at {:08x} overlaps the stack region / TCB area", i, p));
            }
            blocks.push((p, p + expect.len() as u32 + 1, format!("argv[{}] string", i)));
        }
        let null = be32_at(dram, (argv - DRAM_LO) as usize + 4 * argc as usize);
        if null != 0 {
            return Err(format!("argv[argc] = {:08x}, must be a null pointer", null));
        }
        blocks.sort();
        for w in blocks.windows(2) {
            if w[0].1 > w[1].0 {
                return Err(format!("{} [{:08x},{:08x}) overlaps {} [{:08x},{:08x})", w[0].2, w[0].0, w[0].1, w[1].2, w[1].0, w[1].1));
            }
        }
        // the image itself is intact (stack/TCB/args must not overlap it)
        let img = expected_image(spec);
        if dram[BASE_OFF..BASE_OFF + end as usize] != img[..] {
            let k = (0..end as usize).find(|&k| dram[BASE_OFF + k] != img[k]).unwrap();
            return Err(format!("image byte at base+{:x} is {:02x}, expected {:02x}: the start environment overlaps the image", k, dram[BASE_OFF + k], img[k]));
        }
        match spec.exit_value {
            Some(v) => {
                if cpu.exit_addr != BASE.wrapping_add(v) {
                    return Err(format!("exit address {:08x}, value of ___exit + load base is {:08x}", cpu.exit_addr, BASE.wrapping_add(v)));
                }
            }
            None => {}
        }
        if let Some(m) = ld.outside_dram_clean() {
            return Err(m);
        }
        Ok(())
    })();
    ld.reset(hi);
    ld.cases_since_full_check += 1;
    if ld.cases_since_full_check >= 64 {
        ld.cases_since_full_check = 0;
        if res.is_ok() {
            if let Some(k) = ld.cpu.bus.dram.iter().position(|b| *b != 0) {
                ld.cpu.bus.dram.fill(0);
                return Err(format!("stray DRAM write at {:06x} by one of the last 64 loads", DRAM_LO as usize + k));
            }
        }
    }
    res
}

fn classify_spec(spec: &ElfSpec, st: &mut Stats, c12: bool) -> bool {
    let nload = spec.segs.iter().filter(|s| s.ty == 1).count();
    let nonload = spec.segs.len() - nload;
    let got_nonempty = spec.got.as_ref().map(|g| !g.1.is_empty()).unwrap_or(false);
    if nload >= 2 {
        st.class(">= 2 PT_LOAD segments");
    }
    if nonload > 0 {
        st.class("non-load program header present");
    }
    if got_nonempty {
        st.class(".got non-empty");
    }
    if spec.segs.last().map(|s| s.ty != 1).unwrap_or(false) {
        st.class("last program header is not PT_LOAD");
    }
    if spec.segs.iter().any(|s| s.ty == 1 && s.memsz as usize > s.data.len()) {
        st.class("segment with memsz > filesz");
    }
    if spec.image_end() + BASE >= 0x5f_fff8 {
        st.class("image reaches the last bytes of DRAM");
    }
    if let Some((a, ents)) = &spec.got {
        if spec.segs.iter().any(|g| g.ty == 1 && !ents.is_empty() && a + 4 * ents.len() as u32 == g.vaddr + g.data.len() as u32) {
            st.class(".got flush at the end of a segment's file contents");
        }
    }
    if spec.got.as_ref().map(|g| g.0 % 4 != 0).unwrap_or(false) {
        st.class(".got at an unaligned address");
    }
    if spec.got.as_ref().map(|g| g.1.iter().any(|v| (v & 0xffffff) + (BASE & 0xffffff) > 0xffffff)).unwrap_or(false) {
        st.class("GOT entry whose relocation carries into the top byte");
    }
    if c12 {
        let words = spec.args.split(|c| c == ' ' || c == '\t').filter(|w| !w.is_empty()).count();
        let multi = spec.args.contains("  ") || spec.args.contains('\t');
        if words >= 2 && multi {
            st.class(">= 2 argument words with multi-blank / tab separators");
        }
        if spec.image_end() % 4 != 0 {
            st.class("image end not 4-aligned");
        }
        (words >= 2 && multi) || spec.segs.last().map(|s| s.ty != 1).unwrap_or(false) || spec.image_end() % 4 != 0
    } else {
        (nload >= 2 || nonload > 0) && got_nonempty
    }
}

pub fn run_elf(ctx: &Ctx, property: &'static str) -> i32 {
    let c12 = property == "C12";
    if let Some(v) = &ctx.replay {
        if let Some(code) = replay_fuzz(property, v) {
            return code;
        }
        let case = v.get("case").unwrap_or(v);
        let (Some(file), Some(args)) = (case.get("file").and_then(|f| f.as_str()).and_then(crate::engine::stepcase::unhex), case.get("args").and_then(|a| a.as_str())) else { return 2 };
        // rebuild a minimal spec from the file is not possible in general: the replay re-parses the file
        // with the harness's own ELF reader
        let Some(mut spec) = spec_from_file(&file, args) else {
            eprintln!("replay file's ELF cannot be parsed by the harness");
            return 2;
        };
        spec.file_name = case.get("file_name").and_then(|n| n.as_str()).map(|n| n.to_string());
        let mut ld = Loader::new("replay");
        let r = if c12 { check_c12(&mut ld, &spec) } else { check_c11(&mut ld, &spec) };
        return match r {
            Ok(()) => {
                println!("replay {}: passes", property);
                0
            }
            Err(m) => {
                let f = Failure { signature: "elf load".into(), detail: m, case: case.clone() };
                let p = write_replay(property, &f);
                println!("VIOLATION property={} replay={}", property, p.display());
                println!("  detail: {}", f.detail);
                1
            }
        };
    }
    let tier = ctx.tier;
    let n: u32 = tier.pick(150_000, 3_000_000);
    let nshards = 64usize;
    let stats = par_shards(ctx, nshards, |shard| {
        let ld = std::cell::RefCell::new(Loader::new(&format!("{}-{}", property, shard)));
        let stats = std::cell::RefCell::new(Stats::new());
        let ent = entropy_n(900);
        set_shrink_iters(250); // a case costs about a millisecond (scratch file, load, image comparison) and all shards shrink at once
        let _ = run_prop(mix(ctx.seed, if c12 { 0x1201_0000 } else { 0x1101_0000 } + shard as u64), n / nshards as u32, &ent, |raw, shrinking| {
            let spec = build(&mut Ent::new(raw), &Opts { c12 });
            let r = if c12 { check_c12(&mut ld.borrow_mut(), &spec) } else { check_c11(&mut ld.borrow_mut(), &spec) };
            let mut st = stats.borrow_mut();
            match r {
                Ok(()) => {
                    if !shrinking {
                        st.evaluations += 1;
                        if classify_spec(&spec, &mut st, c12) {
                            st.nontrivial(key_hash(&spec.file), || spec.brief());
                        }
                    }
                    Ok(())
                }
                Err(m) => {
                    let sig = format!("elf load | {}", fail_field(&m.replace(|c: char| c.is_ascii_digit(), "")));
                    let f = Failure { signature: sig.clone(), detail: m, case: spec.to_json() };
                    if ctx.survey {
                        if !shrinking {
                            st.evaluations += 1;
                            st.survey_fail(f);
                        }
                        Ok(())
                    } else {
                        st.failures.clear();
                        st.fail(f);
                        Err(sig)
                    }
                }
            }
        });
        // final whole-DRAM check of this worker
        let mut st = stats.into_inner();
        if let Some(k) = ld.borrow().cpu.bus.dram.iter().position(|b| *b != 0) {
            st.fail(Failure { signature: "elf load | stray DRAM write".into(), detail: format!("DRAM byte {:06x} non-zero after all loads of the shard were undone", DRAM_LO as usize + k), case: json!({"shard": shard}) });
        }
        st
    });
    let mut stats = stats;
    if tier == Tier::Thorough {
        fuzz_campaign(ctx, "fuzz_elf", 8, 6_000, 4096, &mut stats);
    }
    let rule = if c12 {
        "cases = proptest-generated ELF32-BE files as in C11 restricted to the quantifier (p_paddr = p_vaddr, PT_LOAD ascending, non-load headers in any position incl. last) with a .stack section of size 0-64 KiB (encoded in its address field like the MES toolchain does), a symbol table of 1-200 symbols with ___exit at any index (other names incl. prefixes/suffixes of ___exit), and argument strings of 0-32 printable-ASCII words up to 200 bytes separated and surrounded by runs of blanks/tabs. Oracle computed from the statement on the *observed* pointers (any correct layout passes): ER2 = base, ER5 = base + .got, ER7 aligned and 8 below align4(image end + stack size), ER0 = argc, ER1 -> argc pointers + NULL, strings byte-exact and NUL-terminated, all blocks inside DRAM above stack + 88-byte TCB, pairwise disjoint, image intact, exit address = ___exit + base. Non-trivial = >= 2 words with multi-blank/tab separators, or last program header not PT_LOAD, or image end not 4-aligned; distinct by file contents."
    } else {
        "cases = proptest-generated structurally valid ELF32-BE files rendered by the harness's builder: 1-4 non-overlapping PT_LOAD segments (filesz <= memsz, zero-size segments, gaps, any order), 0-3 interleaved non-load headers with arbitrary fields, tables and contents at arbitrary (also unaligned, out-of-order) file offsets separated by junk, shuffled section order, .shstrtab at any index, .got of 0-64 entries at any (also unaligned) position inside a segment's file-backed part with entry values incl. sums that carry into the top byte, optional .stack/.symtab/.strtab and filler sections. Oracle = the spec itself: every DRAM byte of the image equals the file contents (GOT words: file value + 0x416900, once), zero where not file-backed; DRAM below the base, DRAM above the image (when there is no .stack section) and all non-DRAM regions untouched; whole-DRAM check every 64 loads. Non-trivial = (>= 2 PT_LOAD or a non-load header) and non-empty .got; distinct by file contents."
    };
    finish(ctx, property, stats, rule, vec!["ELF files are written to a per-worker scratch file because elf::load takes a path".into()], Map::new())
}

pub fn run(ctx: &Ctx) -> i32 {
    run_elf(ctx, "C11")
}

/// minimal ELF reader of the harness (replay only): recovers what the oracles need from a file
pub fn spec_from_file(file: &[u8], args: &str) -> Option<ElfSpec> {
    let r32 = |o: usize| -> Option<u32> { Some(u32::from_be_bytes(file.get(o..o + 4)?.try_into().ok()?)) };
    let r16 = |o: usize| -> Option<u16> { Some(u16::from_be_bytes(file.get(o..o + 2)?.try_into().ok()?)) };
    let (phoff, shoff) = (r32(28)? as usize, r32(32)? as usize);
    let (phnum, shnum, shstrndx) = (r16(44)? as usize, r16(48)? as usize, r16(50)? as usize);
    let mut segs = vec![];
    for i in 0..phnum {
        let o = phoff + 32 * i;
        let (ty, off, va, pa, fs, ms) = (r32(o)?, r32(o + 4)?, r32(o + 8)?, r32(o + 12)?, r32(o + 16)?, r32(o + 20)?);
        let data = if ty == 1 { file.get(off as usize..(off + fs) as usize)?.to_vec() } else { vec![] };
        segs.push(Seg { ty, vaddr: va, paddr: pa, memsz: ms, flags: r32(o + 24)?, align: r32(o + 28)?, data, offset: off });
    }
    let names_off = r32(shoff + 40 * shstrndx + 16)? as usize;
    let cstr = |o: usize| -> String { file[o..].iter().take_while(|b| **b != 0).map(|b| *b as char).collect() };
    let mut secs = vec![];
    for i in 0..shnum {
        let o = shoff + 40 * i;
        secs.push(Sec { name: cstr(names_off + r32(o)? as usize), ty: r32(o + 4)?, flags: r32(o + 8)?, addr: r32(o + 12)?, offset: r32(o + 16)?, size: r32(o + 20)?, link: r32(o + 24)?, info: r32(o + 28)?, align: r32(o + 32)?, entsize: r32(o + 36)?, data: None });
    }
    let mut got = None;
    let mut stack_size = None;
    let mut symbols = vec![];
    let mut exit_value = None;
    for s in &secs {
        if s.name == ".got" {
            let seg = segs.iter().find(|g| g.ty == 1 && s.addr >= g.vaddr && s.addr + s.size <= g.vaddr + g.data.len() as u32)?;
            let entries = (0..s.size / 4).map(|k| u32::from_be_bytes(seg.data[(s.addr - seg.vaddr + 4 * k) as usize..][..4].try_into().unwrap())).collect();
            got = Some((s.addr, entries));
        } else if s.name == ".stack" {
            stack_size = Some(s.addr);
        } else if s.name == ".symtab" && s.entsize == 16 {
            let stroff = secs.get(s.link as usize)?.offset as usize;
            for k in 0..(s.size / 16) as usize {
                let o = s.offset as usize + 16 * k;
                let name = cstr(stroff + r32(o)? as usize);
                let val = r32(o + 4)?;
                if name == "___exit" {
                    exit_value = Some(val);
                }
                symbols.push((name, val));
            }
        }
    }
    Some(ElfSpec { segs, secs, shstrndx: shstrndx as u16, got, stack_size, symbols, exit_value, phoff: phoff as u32, shoff: shoff as u32, file: file.to_vec(), args: args.to_string(), file_name: None })
}
