//! Shared builder for register-operand instructions (C02 arithmetic, C03 logic/shift/rotate).

use super::common::*;
use crate::engine::stepcase::*;
use crate::gen::*;
use crate::refmodel::insn::*;

#[derive(Clone, Copy, Debug, PartialEq, Eq, Hash)]
pub enum FormT {
    Alu(AluOp, Sz, bool), // imm?
    Addx(bool),
    Un(UnOp, Sz),
    Adds(u8),
    Subs(u8),
    Mulxu(Sz),
    Divxu(Sz),
}

impl FormT {
    /// size of the destination operand view
    pub fn dsz(&self) -> Sz {
        match *self {
            FormT::Alu(_, sz, _) | FormT::Un(_, sz) => sz,
            FormT::Addx(_) => Sz::B,
            FormT::Adds(_) | FormT::Subs(_) => Sz::L,
            FormT::Mulxu(sz) | FormT::Divxu(sz) => {
                if sz == Sz::B {
                    Sz::W
                } else {
                    Sz::L
                }
            }
        }
    }
    /// size of the source register operand (None: no source register)
    pub fn ssz(&self) -> Option<Sz> {
        match *self {
            FormT::Alu(_, sz, false) => Some(sz),
            FormT::Addx(false) => Some(Sz::B),
            FormT::Mulxu(sz) | FormT::Divxu(sz) => Some(sz),
            _ => None,
        }
    }
    pub fn has_imm(&self) -> bool {
        matches!(self, FormT::Alu(_, _, true) | FormT::Addx(true))
    }
    pub fn is_binary(&self) -> bool {
        self.ssz().is_some() || self.has_imm()
    }
}

pub fn arith_forms() -> Vec<FormT> {
    let mut v = vec![];
    for op in [AluOp::Add, AluOp::Sub, AluOp::Cmp] {
        for sz in [Sz::B, Sz::W, Sz::L] {
            v.push(FormT::Alu(op, sz, false));
            if !(op == AluOp::Sub && sz == Sz::B) {
                v.push(FormT::Alu(op, sz, true));
            }
        }
    }
    v.push(FormT::Addx(false));
    v.push(FormT::Addx(true));
    for sz in [Sz::B, Sz::W, Sz::L] {
        v.push(FormT::Un(UnOp::Neg, sz));
        v.push(FormT::Un(UnOp::Inc1, sz));
        v.push(FormT::Un(UnOp::Dec1, sz));
        if sz != Sz::B {
            v.push(FormT::Un(UnOp::Inc2, sz));
            v.push(FormT::Un(UnOp::Dec2, sz));
        }
    }
    for n in [1u8, 2, 4] {
        v.push(FormT::Adds(n));
        v.push(FormT::Subs(n));
    }
    for sz in [Sz::B, Sz::W] {
        v.push(FormT::Mulxu(sz));
        v.push(FormT::Divxu(sz));
    }
    v
}

pub fn logic_forms() -> Vec<FormT> {
    let mut v = vec![];
    for op in [AluOp::And, AluOp::Or, AluOp::Xor] {
        for sz in [Sz::B, Sz::W, Sz::L] {
            v.push(FormT::Alu(op, sz, false));
            v.push(FormT::Alu(op, sz, true));
        }
    }
    for sz in [Sz::B, Sz::W, Sz::L] {
        v.push(FormT::Un(UnOp::Not, sz));
        if sz != Sz::B {
            v.push(FormT::Un(UnOp::Extu, sz));
        }
        for op in [UnOp::Shll, UnOp::Shal, UnOp::Shlr, UnOp::Shar, UnOp::Rotxl, UnOp::Rotl, UnOp::Rotxr, UnOp::Rotr] {
            v.push(FormT::Un(op, sz));
        }
    }
    v
}

#[derive(Clone, Copy, Default)]
pub struct Force {
    pub form: Option<usize>,
    pub sreg: Option<u8>,
    pub dreg: Option<u8>,
    pub a: Option<u32>,
    pub b: Option<u32>,
    pub ccr: Option<u8>,
}

#[derive(Clone, Debug)]
pub struct Tag {
    pub form: FormT,
    pub insn: Insn,
    pub sreg: Option<u8>,
    pub dreg: u8,
    /// destination / source operand values as actually placed in the register file
    pub a: u32,
    pub b: u32,
    pub same_reg: bool,
}

pub fn build(forms: &[FormT], e: &mut Ent, f: &Force) -> (StepCase, Tag) {
    let fi = f.form.unwrap_or_else(|| e.below(forms.len() as u32) as usize);
    let form = forms[fi];
    let dsz = form.dsz();
    let dreg = f.dreg.unwrap_or_else(|| e.below(nregs(dsz)) as u8) % nregs(dsz) as u8;
    let sreg = form.ssz().map(|ssz| f.sreg.unwrap_or_else(|| e.below(nregs(ssz)) as u8) % nregs(ssz) as u8);
    let mut er = e.regfile();
    let ccr = f.ccr.unwrap_or_else(|| e.u8());
    // operand values
    let (mut a, mut b);
    match form {
        FormT::Divxu(sz) => {
            // divisor != 0 and quotient fits, by construction: dividend = q*d + r, r < d
            let (dmax, qmax) = if sz == Sz::B { (0xffu32, 0xffu32) } else { (0xffff, 0xffff) };
            let d = f.b.map(|x| x & dmax).filter(|x| *x != 0).unwrap_or_else(|| match e.below(4) {
                0 => e.pick(&[1u32, 2, 3, 0x7f, 0x80, 0xff, 0x100, 0x7fff, 0x8000, 0xffff]) & dmax,
                _ => 1 + e.below(dmax),
            });
            let d = if d == 0 { 1 } else { d };
            let q = match f.a {
                Some(x) => x & qmax,
                None => match e.below(4) {
                    0 => e.pick(&[0u32, 1, 0x7f, 0x80, 0xff, 0x7fff, 0x8000, 0xffff]) & qmax,
                    _ => e.below(qmax + 1),
                },
            };
            let r = e.below(d);
            a = q * d + r;
            b = d;
        }
        _ => {
            a = f.a.unwrap_or_else(|| e.val(match form {
                FormT::Mulxu(sz) => sz,
                _ => dsz,
            }));
            let bsz = form.ssz().unwrap_or(dsz);
            b = f.b.unwrap_or_else(|| e.val(bsz));
            if f.b.is_none() && e.chance(1, 8) {
                // coincidences of the two operands: equal, complement, negation, neighbours, shifted
                b = match e.below(7) {
                    0 => a,
                    1 => !a,
                    2 => a.wrapping_neg(),
                    3 => a.wrapping_add(1),
                    4 => a.wrapping_sub(1),
                    5 => a >> 1,
                    _ => a << 1,
                };
            }
            if let FormT::Mulxu(_) = form {
                // the multiplicand is the low half of the destination; the high half is arbitrary
                a = (e.u32() & !form.ssz().unwrap().mask()) | (a & form.ssz().unwrap().mask());
            }
            a &= dsz.mask();
            b &= bsz.mask();
        }
    }
    put_reg(&mut er, dsz, dreg, a);
    if let (Some(s), Some(ssz)) = (sreg, form.ssz()) {
        put_reg(&mut er, ssz, s, b);
        // overlapping source/destination: record what the registers really hold
        a = get_reg(&er, dsz, dreg);
        b = get_reg(&er, ssz, s);
    }
    let same_reg = match (sreg, form.ssz()) {
        (Some(s), Some(ssz)) => {
            let (i1, m1) = reg_bits(dsz, dreg);
            let (i2, m2) = reg_bits(ssz, s);
            i1 == i2 && m1 & m2 != 0
        }
        _ => false,
    };
    let src = if form.has_imm() { Src::Imm(b) } else { Src::Reg(sreg.unwrap_or(0)) };
    let insn = match form {
        FormT::Alu(op, sz, _) => Insn::Alu { op, sz, src, d: dreg },
        FormT::Addx(_) => Insn::Addx { src, d: dreg },
        FormT::Un(op, sz) => Insn::Un { op, sz, d: dreg },
        FormT::Adds(n) => Insn::Adds { n, d: dreg },
        FormT::Subs(n) => Insn::Subs { n, d: dreg },
        FormT::Mulxu(sz) => Insn::Mulxu { sz, s: sreg.unwrap(), d: dreg },
        FormT::Divxu(sz) => Insn::Divxu { sz, s: sreg.unwrap(), d: dreg },
    };
    let code = encode(&insn);
    let pc = e.code_addr(code.len() as u32, &[]);
    let bus = e.bus_cfg();
    (StepCase { code, pc, er, ccr, patches: vec![], bus, irq: None, primer: None }, Tag { form, insn, sreg, dreg, a, b, same_reg })
}
