//! C12 - see c11.rs (shared ELF machinery).
use crate::engine::run::Ctx;
pub fn run(ctx: &Ctx) -> i32 {
    super::c11::run_elf(ctx, "C12")
}
