//! C16 - I/O ports behave as data latch + direction register + external pins.

use super::common::*;
use crate::engine::emu::*;
use crate::engine::run::*;
use crate::engine::stats::*;
use crate::gen::*;
use crate::refmodel::insn::*;
use serde_json::{json, Map, Value};

const P: &str = "C16";
pub const QUIRK_SIG: &str = "port-latch-merged-with-pins";

#[derive(Clone, Copy, Debug, PartialEq, Eq, Hash)]
pub enum Op {
    /// CPU write to DDR of port p (1-11) through Bus::write
    Ddr(u8, u8),
    /// CPU write to DR through Bus::write
    Dr(u8, u8),
    /// external pin levels through Bus::write_port
    Pins(u8, u8),
    /// external pin levels through the `ioport:<port>:<value>` control line handler
    PinsLine(u8, u8),
    /// CPU write to DR through a real MOV.B Rs,@aa:8 instruction
    DrMov(u8, u8),
    /// BSET / BCLR #bit on DR through a real instruction (read-modify-write)
    DrBit(u8, u8, bool),
    /// any read-modify-write bit instruction on DR (port, bit, kind 0 BSET 1 BCLR 2 BNOT 3 BST 4 BIST, flags: bit 0 =
    /// C before the instruction, bit 1 = bit number from a register, bit 2 = operand through @ERd instead of @aa:8):
    /// the CPU reads DR, changes one bit and writes the whole byte back - also when the byte comes out unchanged
    DrRmw(u8, u8, u8, u8),
    /// advance the time base (the state counter is 64 bits wide: increments reach past 2^32)
    Tick(u64),
    /// one MOV.W Rs,@aa:16 over the DRs of ports p (odd) and p+1: a 16-bit access is the composition of two byte
    /// accesses, each port latches its own byte
    DrWord(u8, u8, u8),
    /// a CPU write to an address that is *not* a port register but looks like one to a sloppy decoder: a port
    /// register's address plus a multiple of 2^8 / 2^16 / 2^24, or with one of the bits 8-31 flipped. Whether the
    /// write fails (inaccessible) or lands in plain storage, no port may notice.
    Stray(u32, u8),
}
impl Op {
    fn port(&self) -> Option<u8> {
        match *self {
            Op::Ddr(p, _) | Op::Dr(p, _) | Op::Pins(p, _) | Op::PinsLine(p, _) | Op::DrMov(p, _) | Op::DrBit(p, _, _) | Op::DrWord(p, _, _) | Op::DrRmw(p, _, _, _) => Some(p),
            Op::Tick(_) | Op::Stray(..) => None,
        }
    }
    /// is a message about port `q` a possible consequence of this op?
    fn concerns(&self, q: u8) -> bool {
        match *self {
            Op::DrWord(p, _, _) => q == p || q == p + 1,
            _ => self.port() == Some(q),
        }
    }
}

pub fn ddr_addr(p: u8) -> u32 {
    0xfee000 + p as u32 - 1
}
pub fn dr_addr(p: u8) -> u32 {
    0xffffd0 + p as u32 - 1
}

#[derive(Clone, Copy, Default, Debug)]
struct PortModel {
    latch: u8,
    ddr: u8,
    pins: u8,
}
impl PortModel {
    fn read(&self) -> u8 {
        (self.latch & self.ddr) | (self.pins & !self.ddr)
    }
    fn out(&self) -> u8 {
        self.latch & self.ddr
    }
}

/// The open finding's automaton: one byte holds latch and pin levels merged, writes of an unchanged
/// value are dropped (exactly the three functions of ioport.rs + the `value != previous` guards).
#[derive(Clone, Copy, Default, Debug)]
struct MergedModel {
    m: u8,
    ddr: u8,
    pins: u8,
}

#[derive(Clone, Debug, Default)]
struct Expect {
    /// messages (port, value) that must / may have been emitted during the step
    msgs: Vec<(u8, u8)>,
}

struct Outcome {
    reads_ok: bool,
    detail: String,
}

const CODE: u32 = 0xffd000;

fn parse_msg(m: &str) -> Option<(u8, u8, u64)> {
    let mut it = m.split(':');
    if it.next()? != "ioport" {
        return None;
    }
    let p = u8::from_str_radix(it.next()?, 16).ok()?;
    let v = u8::from_str_radix(it.next()?, 16).ok()?;
    let t = it.next()?.parse::<u64>().ok()?;
    if it.next().is_some() {
        return None;
    }
    Some((p, v, t))
}

/// Execute the history on the emulator. Returns per step: DR read-back of all 11 ports and the messages.
fn execute(emu: &mut Emu, ops: &[Op]) -> Result<Vec<([u8; 11], Vec<String>)>, String> {
    // fresh ports
    emu.cpu.bus.io_port_in = [0; 11];
    for p in 1..=11u8 {
        raw_set(&mut emu.cpu.bus, ddr_addr(p), 0);
        // bring any internal latch to 0 through the public write path, then clear the visible byte
        let _ = emu.cpu.bus.write(dr_addr(p), 0xff);
        let _ = emu.cpu.bus.write(dr_addr(p), 0);
        raw_set(&mut emu.cpu.bus, dr_addr(p), 0);
    }
    emu.cpu.bus.cpu_state_sum = 0;
    let _ = emu.drain_msgs();
    let mut out = vec![];
    let mut undo: Vec<(u32, u8)> = vec![];
    for (i, op) in ops.iter().enumerate() {
        let r: Result<(), String> = match *op {
            Op::Ddr(p, v) => emu.cpu.bus.write(ddr_addr(p), v).map_err(|e| e.to_string()),
            Op::Dr(p, v) => emu.cpu.bus.write(dr_addr(p), v).map_err(|e| e.to_string()),
            Op::Pins(p, v) => {
                emu.cpu.bus.write_port(p, v);
                Ok(())
            }
            Op::PinsLine(p, v) => {
                let a = format!("{:x}", p);
                let b = format!("{:x}", v);
                emu.cpu.parse_ioport(vec!["ioport", &a, &b]);
                Ok(())
            }
            Op::DrMov(p, v) | Op::DrBit(p, v, _) => {
                let insn = match *op {
                    Op::DrMov(..) => Insn::Store { sz: Sz::B, s: 8, ea: Ea::A8(dr_addr(p) as u8) },
                    Op::DrBit(_, b, set) => Insn::Bit { op: if set { BitOp::Bset } else { BitOp::Bclr }, sel: BitSel::Imm(b & 7), tgt: BitTgt::A8(dr_addr(p) as u8) },
                    _ => unreachable!(),
                };
                for (k, b) in encode(&insn).iter().enumerate() {
                    raw_set(&mut emu.cpu.bus, CODE + k as u32, *b);
                }
                emu.cpu.er = [v as u32, 0, 0, 0, 0, 0, 0, 0xffe000];
                emu.set_pc(CODE);
                match emu.step() {
                    EmuResult::Ok(_) => Ok(()),
                    other => Err(format!("{:?}", other)),
                }
            }
            Op::Tick(n) => {
                emu.cpu.bus.cpu_state_sum = emu.cpu.bus.cpu_state_sum.wrapping_add(n as usize);
                Ok(())
            }
            Op::DrRmw(p, b, kind, fl) => {
                let bop = [BitOp::Bset, BitOp::Bclr, BitOp::Bnot, BitOp::Bst, BitOp::Bist][kind as usize % 5];
                let by_reg = fl & 2 != 0 && bop.has_reg_form();
                let sel = if by_reg { BitSel::Reg(9) } else { BitSel::Imm(b & 7) }; // R1L
                let tgt = if fl & 4 != 0 { BitTgt::Ind(2) } else { BitTgt::A8(dr_addr(p) as u8) };
                let insn = Insn::Bit { op: bop, sel, tgt };
                for (k, x) in encode(&insn).iter().enumerate() {
                    raw_set(&mut emu.cpu.bus, CODE + k as u32, *x);
                }
                emu.cpu.er = [0, 0xffff_ff00 | (0xf8 | (b & 7)) as u32, dr_addr(p) | 0x5a00_0000, 0, 0, 0, 0, 0xffe000];
                emu.set_pc(CODE);
                emu.set_ccr(0x80 | (fl & 1));
                match emu.step() {
                    EmuResult::Ok(_) => Ok(()),
                    other => Err(format!("{:?}", other)),
                }
            }
            Op::Stray(a, v) => {
                if let Some(old) = raw_get(&emu.cpu.bus, a) {
                    undo.push((a, old));
                }
                let _ = emu.cpu.bus.write(a, v);
                Ok(())
            }
            Op::DrWord(p, hi, lo) => {
                let insn = Insn::Store { sz: Sz::W, s: 0, ea: Ea::A16(dr_addr(p) as u16) };
                for (k, b) in encode(&insn).iter().enumerate() {
                    raw_set(&mut emu.cpu.bus, CODE + k as u32, *b);
                }
                emu.cpu.er = [((hi as u32) << 8) | lo as u32, 0, 0, 0, 0, 0, 0, 0xffe000];
                emu.set_pc(CODE);
                match emu.step() {
                    EmuResult::Ok(_) => Ok(()),
                    other => Err(format!("{:?}", other)),
                }
            }
        };
        if let Err(e) = r {
            return Err(format!("op {} {:?} failed: {}", i, op, e));
        }
        let mut reads = [0u8; 11];
        for p in 1..=11u8 {
            reads[p as usize - 1] = emu.cpu.bus.read(dr_addr(p)).map_err(|e| e.to_string())?;
        }
        out.push((reads, emu.drain_msgs()));
    }
    for k in 0..8 {
        raw_set(&mut emu.cpu.bus, CODE + k, baseline_byte(CODE + k));
    }
    for (a, old) in undo.into_iter().rev() {
        raw_set(&mut emu.cpu.bus, a, old);
    }
    Ok(out)
}

/// the byte a read-modify-write bit instruction writes back
fn rmw(cur: u8, b: u8, kind: u8, fl: u8) -> u8 {
    let m = 1u8 << (b & 7);
    let c = fl & 1 != 0;
    match kind % 5 {
        0 => cur | m,
        1 => cur & !m,
        2 => cur ^ m,
        3 => if c { cur | m } else { cur & !m },
        _ => if !c { cur | m } else { cur & !m },
    }
}

/// compare the observation with the latch/direction/pins model of the statement
fn check_pure(ops: &[Op], obs: &[([u8; 11], Vec<String>)]) -> Result<(), String> {
    let mut ports = [PortModel::default(); 11];
    let mut announced = [0u8; 11];
    let mut time = 0u64;
    let mut last_stamp = 0u64;
    for (i, op) in ops.iter().enumerate() {
        let before: Vec<u8> = ports.iter().map(|p| p.out()).collect();
        match *op {
            Op::Ddr(p, v) => ports[p as usize - 1].ddr = v,
            Op::Dr(p, v) | Op::DrMov(p, v) => ports[p as usize - 1].latch = v,
            Op::Pins(p, v) | Op::PinsLine(p, v) => ports[p as usize - 1].pins = v,
            Op::DrBit(p, b, set) => {
                // read-modify-write of the DR as the CPU sees it
                let m = &mut ports[p as usize - 1];
                let cur = m.read();
                m.latch = if set { cur | (1 << (b & 7)) } else { cur & !(1 << (b & 7)) };
            }
            Op::Tick(n) => time = time.wrapping_add(n),
            Op::DrWord(p, hi, lo) => {
                ports[p as usize - 1].latch = hi;
                ports[p as usize].latch = lo;
            }
            Op::Stray(..) => {}
            Op::DrRmw(p, b, kind, fl) => {
                let m = &mut ports[p as usize - 1];
                let cur = m.read();
                m.latch = rmw(cur, b, kind, fl);
            }
        }
        let (reads, msgs) = &obs[i];
        for p in 0..11 {
            if reads[p] != ports[p].read() {
                return Err(format!(
                    "after op {} {:?}: port {:x} DR reads {:02x}; latch {:02x}, DDR {:02x}, pins {:02x} give {:02x}",
                    i, op, p + 1, reads[p], ports[p].latch, ports[p].ddr, ports[p].pins, ports[p].read()
                ));
            }
        }
        for m in msgs {
            let Some((mp, mv, mt)) = parse_msg(m) else {
                if m.starts_with("ioport") {
                    return Err(format!("after op {} {:?}: malformed message {:?}", i, op, m));
                }
                continue;
            };
            if !op.concerns(mp) {
                return Err(format!("after op {} {:?}: message {:?} names another port", i, op, m));
            }
            if mt < last_stamp || mt != time {
                return Err(format!("after op {} {:?}: message {:?} carries time {} (time base is {}, previous stamp {})", i, op, m, mt, time, last_stamp));
            }
            last_stamp = mt;
            announced[mp as usize - 1] = mv;
        }
        for p in 0..11 {
            if ports[p].out() != before[p] && !msgs.iter().any(|m| parse_msg(m).map(|x| x.0 as usize == p + 1).unwrap_or(false)) {
                return Err(format!("after op {} {:?}: output of port {:x} changed {:02x} -> {:02x} without an ioport message", i, op, p + 1, before[p], ports[p].out()));
            }
            if announced[p] != ports[p].out() {
                return Err(format!("after op {} {:?}: last announced value of port {:x} is {:02x}, the driven output is {:02x}", i, op, p + 1, announced[p], ports[p].out()));
            }
        }
    }
    Ok(())
}

/// does the observation equal the open finding's merged-byte automaton exactly (reads and messages)?
fn check_merged(ops: &[Op], obs: &[([u8; 11], Vec<String>)]) -> bool {
    let mut ports = [MergedModel::default(); 11];
    let mut time = 0u64;
    for (i, op) in ops.iter().enumerate() {
        let mut exp: Vec<String> = vec![];
        let mut wr_dr = |m: &mut MergedModel, p: u8, v: u8, exp: &mut Vec<String>| {
            if v != m.m {
                m.m = (v & m.ddr) | (!m.ddr & m.pins);
                exp.push(format!("ioport:{:x}:{:x}:{}", p, v & m.ddr, time));
            }
        };
        match *op {
            Op::Ddr(p, v) => {
                let m = &mut ports[p as usize - 1];
                if v != m.ddr {
                    m.ddr = v;
                    m.m = (m.m & v) | (!v & m.pins);
                    exp.push(format!("ioport:{:x}:{:x}:{}", p, m.m & v, time));
                }
            }
            Op::Dr(p, v) | Op::DrMov(p, v) => wr_dr(&mut ports[p as usize - 1], p, v, &mut exp),
            Op::DrBit(p, b, set) => {
                let cur = ports[p as usize - 1].m;
                let v = if set { cur | (1 << (b & 7)) } else { cur & !(1 << (b & 7)) };
                wr_dr(&mut ports[p as usize - 1], p, v, &mut exp);
            }
            Op::Pins(p, v) | Op::PinsLine(p, v) => {
                let m = &mut ports[p as usize - 1];
                m.pins = v;
                m.m = (m.m & m.ddr) | (!m.ddr & v);
            }
            Op::Tick(n) => time = time.wrapping_add(n),
            Op::DrWord(p, hi, lo) => {
                wr_dr(&mut ports[p as usize - 1], p, hi, &mut exp);
                wr_dr(&mut ports[p as usize], p + 1, lo, &mut exp);
            }
            Op::Stray(..) => {}
            Op::DrRmw(p, b, kind, fl) => {
                let cur = ports[p as usize - 1].m;
                wr_dr(&mut ports[p as usize - 1], p, rmw(cur, b, kind, fl), &mut exp);
            }
        }
        let (reads, msgs) = &obs[i];
        for p in 0..11 {
            if reads[p] != ports[p].m {
                return false;
            }
        }
        if *msgs != exp {
            return false;
        }
    }
    true
}

fn values(e: &mut Ent) -> u8 {
    match e.below(3) {
        0 => e.pick(&[0x00u8, 0xff, 0x0f, 0xf0, 0x55, 0xaa, 0x01, 0x80]),
        _ => e.u8(),
    }
}

fn build_history(e: &mut Ent) -> Vec<Op> {
    let long = e.chance(1, 4);
    let n = 1 + e.below(if long { 200 } else { 24 }) as usize;
    let p1 = 1 + e.below(11) as u8;
    let p2 = if e.chance(1, 3) { 1 + e.below(11) as u8 } else { p1 };
    let mut ops = vec![];
    let mut total: u64 = 0;
    for _ in 0..n {
        let p = if e.chance(1, 2) { p1 } else { p2 };
        let v = values(e);
        ops.push(match e.below(15) {
            14 => Op::DrRmw(p, v & 7, e.below(5) as u8, e.below(8) as u8),
            13 => {
                let base = if e.chance(1, 2) { dr_addr(p) } else { ddr_addr(p) };
                let a = match e.below(6) {
                    // the same offset in the other register block (H'FFFF20 + k <-> H'FEE000 + k)
                    4 | 5 => {
                        if base >= 0xffff20 {
                            0xfee000 + (base - 0xffff20)
                        } else {
                            0xffff20 + (base - 0xfee000)
                        }
                    }
                    0 => base.wrapping_add(0x100 * (1 + e.below(4))),
                    1 => base.wrapping_add(0x0100_0000 * (1 + e.below(255))),
                    2 => base ^ (1u32 << (8 + e.below(24))),
                    _ => base.wrapping_add(0x1_0000 * (1 + e.below(3))),
                };
                Op::Stray(a, v)
            }
            12 => {
                // the pair (p, p+1) with p odd: the DR of an odd port sits at an even address
                let q = if p >= 10 { 9 } else { p | 1 };
                Op::DrWord(q, v, values(e))
            }
            0 | 1 | 2 => Op::Ddr(p, v),
            3 | 4 | 5 => Op::Dr(p, v),
            6 | 7 => Op::Pins(p, v),
            8 => Op::PinsLine(p, v),
            9 => Op::DrMov(p, v),
            10 => Op::DrBit(p, v & 7, v & 8 != 0),
            _ => Op::Tick(match e.below(6) {
                0 => e.pick(&[0xffff_fff0u64, 0x1_0000_0000, 0x7fff_ffff, 0x8000_0000, 0xffff_ffff, 0x1_0000_0010, 1 << 40]),
                1 => (e.u32() as u64) << e.below(12),
                _ => e.u16() as u64,
            }),
        });
        if let Some(Op::Tick(t)) = ops.last().copied() {
            // the time base is a natural number: keep the running total far from the 64-bit limit
            if total.saturating_add(t) > (1 << 60) {
                ops.pop();
            } else {
                total += t;
            }
        }
    }
    ops
}

fn interesting(ops: &[Op]) -> (bool, bool) {
    // (DR bit written while input and later switched to output, pins change while some bits are outputs)
    let mut ddr = [0u8; 11];
    let mut written_while_input = [0u8; 11];
    let (mut a, mut b) = (false, false);
    for op in ops {
        match *op {
            Op::Dr(p, _) | Op::DrMov(p, _) | Op::DrBit(p, _, _) | Op::DrRmw(p, _, _, _) => written_while_input[p as usize - 1] |= !ddr[p as usize - 1],
            Op::DrWord(p, _, _) => {
                written_while_input[p as usize - 1] |= !ddr[p as usize - 1];
                written_while_input[p as usize] |= !ddr[p as usize];
            }
            Op::Ddr(p, v) => {
                if v & !ddr[p as usize - 1] & written_while_input[p as usize - 1] != 0 {
                    a = true;
                }
                written_while_input[p as usize - 1] &= !v;
                ddr[p as usize - 1] = v;
            }
            Op::Pins(p, _) | Op::PinsLine(p, _) => {
                if ddr[p as usize - 1] != 0 {
                    b = true;
                }
            }
            _ => {}
        }
    }
    (a, b)
}

fn ops_json(ops: &[Op]) -> Value {
    json!({"kind": "port-history", "ops": ops.iter().map(|o| match *o {
        Op::Ddr(p, v) => json!(["ddr", p, v]), Op::Dr(p, v) => json!(["dr", p, v]), Op::Pins(p, v) => json!(["pins", p, v]),
        Op::PinsLine(p, v) => json!(["pinsline", p, v]), Op::DrMov(p, v) => json!(["drmov", p, v]),
        Op::DrBit(p, b, s) => json!(["drbit", p, b, s]), Op::Tick(n) => json!(["tick", n]), Op::DrWord(p, h, l) => json!(["drword", p, h, l]), Op::Stray(a, v) => json!(["stray", a, v]), Op::DrRmw(p, b, k, f) => json!(["drrmw", p, b, k, f]) }).collect::<Vec<_>>()})
}
fn ops_from_json(v: &Value) -> Option<Vec<Op>> {
    Some(
        v.get("ops")?
            .as_array()?
            .iter()
            .filter_map(|o| {
                let k = o.get(0)?.as_str()?;
                let a = o.get(1)?.as_u64()?;
                let b = o.get(2).and_then(|x| x.as_u64()).unwrap_or(0);
                Some(match k {
                    "ddr" => Op::Ddr(a as u8, b as u8),
                    "dr" => Op::Dr(a as u8, b as u8),
                    "pins" => Op::Pins(a as u8, b as u8),
                    "pinsline" => Op::PinsLine(a as u8, b as u8),
                    "drmov" => Op::DrMov(a as u8, b as u8),
                    "drword" => Op::DrWord(a as u8, b as u8, o.get(3)?.as_u64()? as u8),
                    "stray" => Op::Stray(a as u32, b as u8),
                    "drrmw" => Op::DrRmw(a as u8, b as u8, o.get(3)?.as_u64()? as u8, o.get(4)?.as_u64()? as u8),
                    "drbit" => Op::DrBit(a as u8, b as u8, o.get(3)?.as_bool()?),
                    _ => Op::Tick(a),
                })
            })
            .collect(),
    )
}

enum Res {
    Pass,
    Known,
    Fail(String),
}

fn judge_history(emu: &mut Emu, ops: &[Op], quirk_open: bool) -> Res {
    // a port that panics on a write, a read or a pin change does not behave as latch + direction + pins either
    let obs = match crate::engine::emu::guarded(|| execute(emu, ops)) {
        Ok(Ok(o)) => o,
        Ok(Err(m)) => return Res::Fail(m),
        Err(p) => return Res::Fail(format!("panic: {}", p)),
    };
    match check_pure(ops, &obs) {
        Ok(()) => Res::Pass,
        Err(m) => {
            if quirk_open && check_merged(ops, &obs) {
                Res::Known
            } else {
                Res::Fail(m)
            }
        }
    }
}

fn record(ctx: &Ctx, st: &mut Stats, ops: &[Op], r: Res, count: bool, enumerated: bool) -> Result<(), String> {
    match r {
        Res::Pass | Res::Known => {
            if count {
                st.evaluations += 1;
                let (a, b) = interesting(ops);
                if a {
                    st.class("DR bit written while input, later switched to output");
                }
                if b {
                    st.class("pins change while some bits are outputs");
                }
                if a || b {
                    st.nontrivial(key_hash(&ops), || json!(format!("{:?}", &ops[..ops.len().min(16)])));
                }
                if let Res::Known = r {
                    st.known_hit(QUIRK_SIG, || json!(format!("{:?}", &ops[..ops.len().min(16)])));
                }
            }
            Ok(())
        }
        Res::Fail(m) => {
            let sig = format!("port history | {}", fail_field(&m.splitn(2, ':').nth(1).unwrap_or(&m).replace(|c: char| c.is_ascii_digit(), "")));
            let f = Failure { signature: sig.clone(), detail: m, case: ops_json(ops) };
            if ctx.survey {
                if count {
                    st.evaluations += 1;
                    st.survey_fail(f);
                }
                Ok(())
            } else {
                if !enumerated {
                    st.failures.clear();
                }
                st.fail(f);
                Err(sig)
            }
        }
    }
}

/// The empty history: a `Cpu` as `Cpu::new()` makes it (and again after the run loop's own initialisation), before any
/// write or pin change. Whatever the emulator's initial latch, direction and pin levels are, DR must read what the
/// statement's formula gives for them - power-on contents of the register file that disagree with the port's own
/// state are a port that "reads something nobody wrote and no pin shows".
fn power_on() -> Option<String> {
    let r = guarded(|| {
        let mut cpu = crate::cpu::Cpu::new();
        for round in 0..2 {
            for p in 1..=11u8 {
                let ddr = cpu.bus.read(ddr_addr(p)).map_err(|e| e.to_string())?;
                let dr = cpu.bus.read(dr_addr(p)).map_err(|e| e.to_string())?;
                let (latch, pins) = (cpu.bus.io_port_latch[p as usize - 1], cpu.bus.io_port_in[p as usize - 1]);
                let exp = (latch & ddr) | (pins & !ddr);
                if dr != exp {
                    return Err(format!("{}: port {:x} DR reads {:02x}; latch {:02x}, DDR {:02x}, pins {:02x} give {:02x}", if round == 0 { "fresh Cpu" } else { "after init_registers" }, p, dr, latch, ddr, pins, exp));
                }
            }
            crate::cpu::verif_hooks::init_registers(&mut cpu).map_err(|e| e.to_string())?;
        }
        Ok(())
    });
    match r {
        Ok(Ok(())) => None,
        Ok(Err(m)) => Some(m),
        Err(p) => Some(format!("panic: {}", p)),
    }
}

pub fn run(ctx: &Ctx) -> i32 {
    let quirk_open = ctx.findings.is_open(P, QUIRK_SIG);
    if let Some(v) = &ctx.replay {
        let case = v.get("case").unwrap_or(v);
        if case.get("kind").and_then(|k| k.as_str()) == Some("power-on") {
            return match power_on() {
                Some(m) => {
                    let f = Failure { signature: "port power-on state".into(), detail: m, case: case.clone() };
                    let p = write_replay(P, &f);
                    println!("VIOLATION property={} replay={}", P, p.display());
                    println!("  detail: {}", f.detail);
                    1
                }
                None => {
                    println!("replay {}: power-on state passes", P);
                    0
                }
            };
        }
        let Some(ops) = ops_from_json(case) else { return 2 };
        let mut emu = Emu::new(&ctx.base);
        return match judge_history(&mut emu, &ops, quirk_open) {
            Res::Fail(m) => {
                let f = Failure { signature: "port history".into(), detail: m, case: case.clone() };
                let p = write_replay(P, &f);
                println!("VIOLATION property={} replay={}", P, p.display());
                println!("  detail: {}", f.detail);
                1
            }
            Res::Known => {
                println!("replay {}: matches the open finding {}", P, QUIRK_SIG);
                0
            }
            Res::Pass => {
                println!("replay {}: history passes", P);
                0
            }
        };
    }
    let tier = ctx.tier;
    // (0) the empty history
    let mut pstats = Stats::new();
    pstats.evaluations += 1;
    pstats.class("power-on: DR of all 11 ports against the emulator's own initial latch / direction / pins");
    if let Some(m) = power_on() {
        pstats.fail(Failure { signature: "port power-on state".into(), detail: m, case: json!({"kind": "power-on"}) });
    }
    // (1) bounded-exhaustive: every history up to depth d over {DDR v, DR v, pins v}
    let set6 = [0x00u8, 0xff, 0x0f, 0xf0, 0x55, 0xaa];
    let set3 = [0x00u8, 0xff, 0xa5];
    // work items: (port, value set, depth)
    let mut items: Vec<(u8, Vec<u8>, usize)> = vec![];
    for p in 1..=11u8 {
        items.push((p, set6.to_vec(), tier.pick(4, 5)));
    }
    for p in if tier == Tier::Thorough { (1..=11u8).collect::<Vec<u8>>() } else { vec![1u8, 5, 11] } {
        items.push((p, set3.to_vec(), 6));
    }
    let estats = par_shards(ctx, items.len() * 4, |shard| {
        let (p, set, depth) = &items[shard / 4];
        let part = shard % 4;
        let mut emu = Emu::new(&ctx.base);
        let mut st = Stats::new();
        let alphabet: Vec<Op> = set.iter().flat_map(|&v| [Op::Ddr(*p, v), Op::Dr(*p, v), Op::Pins(*p, v)]).collect();
        let k = alphabet.len();
        let mut count = 0u64;
        // every sequence of exactly `depth` symbols (its prefixes are checked step by step, so all shorter
        // histories are covered too)
        let total = (k as u64).pow(*depth as u32);
        let mut idx = part as u64;
        while idx < total {
            let mut ops = Vec::with_capacity(*depth);
            let mut x = idx;
            for _ in 0..*depth {
                ops.push(alphabet[(x % k as u64) as usize]);
                x /= k as u64;
            }
            let r = judge_history(&mut emu, &ops, quirk_open);
            count += 1;
            if record(ctx, &mut st, &ops, r, true, true).is_err() {
                break;
            }
            idx += 4;
        }
        st.class_n(&format!("bounded-exhaustive: depth {} over {} values", depth, set.len()), count);
        emu.soft_reset();
        st
    });
    let mut stats = estats;
    stats.merge(pstats);
    stats.exhaustive_subspaces.insert("per port: all histories of depth 4 (thorough: 5) over {DDR,DR,pins} x {00,FF,0F,F0,55,AA}".into(), 11 * 18u64.pow(tier.pick(4, 5)));
    stats.exhaustive_subspaces.insert("ports 1,5,B (thorough: all): all histories of depth 6 over {DDR,DR,pins} x {00,FF,A5}".into(), tier.pick(3, 11) * 9u64.pow(6));

    // (2) random histories (single ports and pairs, all 256 values, instruction-driven writes, control lines)
    let nh: u32 = tier.pick(300_000, 30_000_000);
    let nshards = 32usize;
    let hstats = par_shards(ctx, nshards, |shard| {
        let w = Worker::new(ctx);
        let ent = entropy_n(700);
        let _ = run_prop(mix(ctx.seed, 0x1601_0000 + shard as u64), nh / nshards as u32, &ent, |raw, shrinking| {
            let ops = build_history(&mut Ent::new(raw));
            let r = judge_history(&mut w.emu.borrow_mut(), &ops, quirk_open);
            let mut st = w.stats.borrow_mut();
            if !shrinking {
                st.class("random history");
                if ops.iter().any(|o| matches!(o, Op::DrMov(..) | Op::DrBit(..) | Op::DrRmw(..))) {
                    st.class("history with DR writes by real instructions");
                }
                let ports: std::collections::BTreeSet<u8> = ops.iter().filter_map(|o| o.port()).collect();
                if ports.len() > 1 {
                    st.class("history interleaving two ports");
                }
            }
            record(ctx, &mut st, &ops, r, !shrinking, false)
        });
        w.emu.borrow_mut().soft_reset();
        w.stats.into_inner()
    });
    stats.merge(hstats);
    let rule = "cases = the empty history on a fresh Cpu and after init_registers (DR of all 11 ports against the emulator's own initial latch / direction / pins); per port 1-B every history of depth 4 over {write DDR, write DR, external pins} x {00,FF,0F,F0,55,AA} and of depth 6 over {00,FF,A5} (ports 1,5,B in quick; all in thorough), plus proptest-generated histories up to 200 ops over all 256 values on single ports and pairs of ports, with DR writes through Bus::write and through real MOV.B/BSET/BCLR instructions, pin changes through Bus::write_port and through the `ioport:` control-line handler, and a moving time base. Oracle = the statement's model (latch, direction, pins): after every step DR of all 11 ports reads (L&D)|(P&~D); a change of L&D must be announced by an ioport message of that port, the last announced value equals the driven output, stamps equal the time base and never decrease. Non-trivial = a DR bit written while input and later switched to output, or pins changing while some bits are outputs; distinct by the op sequence.";
    finish(ctx, P, stats, rule, vec!["extra messages that repeat the current output value are allowed (the statement does not forbid them)".into()], Map::new())
}
