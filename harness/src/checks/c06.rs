//! C06 - exception entry (TRAPA #1-#3, interrupt acceptance) and RTE save and restore the context exactly.

use super::common::*;
use super::driver::*;
use crate::engine::emu::Emu;
use crate::engine::program::*;
use crate::engine::run::*;
use crate::engine::stats::*;
use crate::engine::stepcase::*;
use crate::gen::*;
use crate::refmodel::exec::{BusCfg, F_I, MASK24};
use crate::refmodel::insn::*;
use serde_json::{json, Map, Value};

const P: &str = "C06";

#[derive(Clone, Copy, Default)]
pub struct Force {
    /// 0 = TRAPA, 1 = interrupt, 2 = RTE
    pub kind: Option<u8>,
    pub n: Option<u8>,
    pub ccr: Option<u8>,
}
#[derive(Clone, Debug)]
pub struct Tag {
    pub kind: u8,
    pub n: u8,
    pub frame: u32,
    pub target: u32,
    pub top: u8,
}

pub fn build(e: &mut Ent, f: &Force) -> (StepCase, Tag) {
    let kind = f.kind.unwrap_or_else(|| e.below(3) as u8);
    let mut er = e.regfile();
    let mut ccr = f.ccr.unwrap_or_else(|| e.u8());
    let target = e.jump_target();
    let top = (e.upper_byte() >> 24) as u8;
    // 1 frame in 8 at an odd address: the statement says "at SP-4", whatever SP is, and the emulator's memory is
    // byte-addressed (nothing rounds a stack address - not for the access and not because of how the area is costed)
    let odd = e.chance(1, 8);
    let mut frame = e.data_addr(&[Region::Ram, Region::Dram], 4, if odd { 1 } else { 2 });
    if frame.abs_diff(target) < 64 {
        frame = if (frame >= 0xffbf20 && frame < 0xffe000) || (frame >= 0x400000 && frame < 0x500000) { frame + 0x400 } else { frame - 0x400 };
    }
    let up = e.upper_byte();
    let mut patches = vec![];
    let (code, irq, n);
    match kind {
        0 => {
            n = f.n.unwrap_or_else(|| 1 + e.below(3) as u8);
            let n = n.clamp(1, 3);
            er[7] = (frame + 4) | up;
            patches.push((4 * (8 + n as u32), vec![top, (target >> 16) as u8, (target >> 8) as u8, target as u8]));
            code = encode(&Insn::Trapa(n));
            irq = None;
        }
        1 => {
            n = f.n.unwrap_or_else(|| 1 + e.below(63) as u8).clamp(1, 63);
            ccr &= !F_I; // an interrupt is only accepted while I is clear
            er[7] = (frame + 4) | up;
            patches.push((4 * n as u32, vec![top, (target >> 16) as u8, (target >> 8) as u8, target as u8]));
            code = vec![];
            irq = Some(n);
        }
        _ => {
            n = 0;
            er[7] = frame | up;
            // the frame: CCR byte arbitrary, 24-bit return address
            patches.push((frame, vec![top, (target >> 16) as u8, (target >> 8) as u8, target as u8]));
            code = encode(&Insn::Rte);
            irq = None;
        }
    }
    let pc = e.code_addr(2, &[target, frame]);
    if kind == 0 && e.chance(1, 16) {
        // rare class: the exception frame overlaps the TRAPA instruction itself
        let f = (pc + 2).wrapping_sub(2 * e.below(4));
        er[7] = (f.wrapping_add(4) & MASK24) | (er[7] & 0xff00_0000);
        frame = f & MASK24;
    }
    let bus = e.bus_cfg();
    (StepCase { code, pc, er, ccr, patches, bus, irq, primer: None }, Tag { kind, n, frame, target, top })
}

fn classify(case: &StepCase, j: &Judged, t: &Tag, stats: &mut Stats) {
    let name = match t.kind {
        0 => "TRAPA #n",
        1 => "interrupt acceptance",
        _ => "RTE",
    };
    stats.class(&format!("form: {}", name));
    if case.er[7] >> 24 != 0 {
        stats.class("SP upper byte != 0");
    }
    if t.top != 0 {
        stats.class("vector / frame top byte != 0");
    }
    let c = if t.kind == 2 { t.top } else { case.ccr };
    if c != 0 && c != 0xff {
        let key = key_hash(&(t.kind, t.n, c, region_class(t.frame, 4), region_class(t.target, 2), t.top != 0, case.er[7] >> 24 != 0));
        stats.nontrivial(key, || sample_json(case, j));
    }
}

// ---------------------------------------------------------------------------------------------
// histories of nested entries and returns

#[derive(Clone, Copy, Debug, PartialEq)]
enum Op {
    Trap(u8),
    Irq(u8),
    Rte,
    SetCcr(u8),
    /// the guest installs a handler for vector v through the MES call (TRAPA #0, ER0 = 113): another writer
    /// of the vector table - a later interrupt must enter what the table holds *then*
    SetHandler(u8, u32),
    /// the guest stores a long word into the vector's table entry (MOV.L ER0,@aa:24)
    StoreVec(u8, u32),
    /// a peripheral raises a request while interrupts are masked: it stays pending - through whatever TRAPA, RTE and
    /// CCR changes follow - until `Accept`
    Raise(u8),
    /// the run loop's poll with I clear: the pending request is accepted now, through its own vector
    Accept,
}

struct History {
    prog: Prog,
    ops: Vec<Op>,
}

fn build_history(e: &mut Ent) -> History {
    let in_ram = e.chance(1, 2);
    let hbase = if in_ram { 0xffc000 + 0x10 * e.below(0x40) } else { 0x430000 + 0x10 * e.below(0x8000) };
    let mut image: Vec<(u32, Vec<u8>)> = vec![];
    for v in 1..64u32 {
        let h = hbase + 0x10 * v;
        let t = e.u32();
        let top = if t & 0x100 == 0 { 0 } else { t as u8 };
        image.push((4 * v, vec![top, (h >> 16) as u8, (h >> 8) as u8, h as u8]));
    }
    let n = 1 + e.below(40) as usize;
    let mut ops = vec![];
    let mut depth = 0usize;
    let mut outstanding: Option<u8> = None;
    // vectors of this history come from a small pool now and then, so that the table entry an interrupt
    // uses has been rewritten (by set_handler, by a store, by both) before
    let pool = [1 + e.below(63) as u8, 1 + e.below(63) as u8];
    for _ in 0..n {
        let vec_of = |e: &mut Ent| if e.chance(1, 2) { pool[e.below(2) as usize] } else { 1 + e.below(63) as u8 };
        let op = match e.below(10) {
            0 | 1 => Op::Trap(1 + e.below(3) as u8),
            2 | 3 => Op::Irq(vec_of(e)),
            4 | 5 | 6 if depth > 0 => Op::Rte,
            7 => {
                let v = if e.chance(1, 8) { e.pick(&[0u8, 64, 200, 255, 9, 10, 11]) } else { vec_of(e) };
                Op::SetHandler(v, (hbase + 0x10 * (1 + e.below(63))) | e.upper_byte())
            }
            8 => Op::StoreVec(if e.chance(1, 4) { 9 + e.below(3) as u8 } else { vec_of(e) }, (hbase + 0x10 * (1 + e.below(63))) | e.upper_byte()),
            9 if outstanding.is_none() && e.chance(1, 2) => Op::Raise(vec_of(e)),
            9 if outstanding.is_some() => Op::Accept,
            _ => Op::SetCcr(e.u8()),
        };
        match op {
            Op::Trap(_) | Op::Irq(_) | Op::Accept => {
                if depth >= 16 {
                    continue;
                }
                // one request in flight at a time (the order of simultaneously pending requests is not constrained)
                if matches!(op, Op::Irq(_)) && outstanding.is_some() {
                    continue;
                }
                if matches!(op, Op::Accept) {
                    outstanding = None;
                }
                depth += 1;
            }
            Op::Raise(v) => outstanding = Some(v),
            Op::Rte => depth -= 1,
            _ => {}
        }
        ops.push(op);
    }
    if outstanding.is_some() {
        ops.push(Op::Accept);
        depth += 1;
    }
    // unwind completely at the end: the round trip must restore the initial context
    for _ in 0..depth {
        ops.push(Op::Rte);
    }
    let mut er = e.regfile();
    let sp = if e.chance(1, 2) { 0xfff000 + 4 * e.below(0x300) } else { 0x5e0000 + 4 * e.below(0x4000) };
    er[7] = sp | e.upper_byte();
    let start = hbase + 0x800 + 2 * e.below(0x100);
    let (ccr, bus) = (e.u8(), e.bus_cfg());
    image.extend(e.env_noise());
    History { prog: Prog { image, er, ccr, pc: start, bus }, ops }
}

/// Err(detail) on violation; Ok((entries, max depth))
fn run_history(emu: &mut Emu, h: &History) -> Result<(usize, usize), String> {
    // shadow stack of complete contexts at entry
    let mut shadow: Vec<([u32; 8], u8, u32)> = vec![];
    let mut check_restore: Option<([u32; 8], u8, u32)> = None;
    let mut violation = None;
    let mut i = 0usize;
    let mut stage = 0u8; // 0 = fresh op, 1 = instruction patched / ccr prepared
    let mut entries = 0usize;
    let mut maxd = 0usize;
    let mut pending: std::collections::VecDeque<Ctl> = Default::default();
    let mut raised: Option<u8> = None;
    let mut sync_regs = false;
    // argument block of the MES call: 8 bytes outside every handler slot, frame and start position
    let blk = (h.prog.image[0].1[1] as u32) << 16 | (h.prog.image[0].1[2] as u32) << 8 | h.prog.image[0].1[3] as u32;
    let blk = (blk & !0xf) + 0x600; // handler of vector 1 is hbase + 0x10: hbase + 0x610 .. is past the 63 handler slots
    let opts = LsOpts { quirks: &[], max_steps: 400, full_dram: false, compare_memory: true };
    let out = lockstep(emu, &h.prog, &opts, &mut |v: &View| {
        if let Some(c) = pending.pop_front() {
            return c;
        }
        if sync_regs {
            // the two helper instructions of the last op loaded ER0/ER1: RTE does not restore registers, so the
            // contexts expected at the matching returns carry the new values
            sync_regs = false;
            for sh in shadow.iter_mut() {
                sh.0[0] = v.er[0];
                sh.0[1] = v.er[1];
            }
        }
        if let Some((er, ccr, pc)) = check_restore.take() {
            if *v.er != er || v.ccr != ccr || v.pc != pc {
                violation = Some(format!(
                    "after RTE the context is er={:08x?} ccr={:02x} pc={:06x}; at the matching entry it was er={:08x?} ccr={:02x} pc={:06x}",
                    v.er, v.ccr, v.pc, er, ccr, pc
                ));
                return Ctl::Stop;
            }
        }
        if i >= h.ops.len() {
            return Ctl::Stop;
        }
        match h.ops[i] {
            Op::SetCcr(c) => {
                i += 1;
                Ctl::SetCcr(c)
            }
            Op::Trap(n) => {
                if stage == 0 {
                    stage = 1;
                    return Ctl::Patch(v.pc, encode(&Insn::Trapa(n)));
                }
                stage = 0;
                i += 1;
                // the context to be restored: registers and CCR as now, PC after the TRAPA
                shadow.push((*v.er, v.ccr, (v.pc + 2) & MASK24));
                entries += 1;
                maxd = maxd.max(shadow.len());
                Ctl::Step
            }
            Op::Irq(n) => {
                if v.ccr & F_I != 0 && stage == 0 {
                    stage = 1;
                    return Ctl::SetCcr(v.ccr & !F_I);
                }
                stage = 0;
                i += 1;
                shadow.push((*v.er, v.ccr, v.pc & MASK24));
                entries += 1;
                maxd = maxd.max(shadow.len());
                Ctl::Irq(n)
            }
            Op::Rte => {
                if stage == 0 {
                    stage = 1;
                    return Ctl::Patch(v.pc, encode(&Insn::Rte));
                }
                stage = 0;
                i += 1;
                check_restore = shadow.pop();
                Ctl::Step
            }
            Op::Raise(vn) => {
                // masked first, so that nothing can be accepted on the way
                if v.ccr & F_I == 0 && stage == 0 {
                    stage = 1;
                    return Ctl::SetCcr(v.ccr | F_I);
                }
                stage = 0;
                i += 1;
                raised = Some(vn);
                Ctl::Raise(vn)
            }
            Op::Accept => {
                let Some(vn) = raised else {
                    i += 1;
                    return Ctl::SetCcr(v.ccr);
                };
                if v.ccr & F_I != 0 && stage == 0 {
                    stage = 1;
                    return Ctl::SetCcr(v.ccr & !F_I);
                }
                stage = 0;
                i += 1;
                raised = None;
                shadow.push((*v.er, v.ccr, v.pc & MASK24));
                entries += 1;
                maxd = maxd.max(shadow.len());
                Ctl::Poll(vn)
            }
            Op::SetHandler(vn, target) => {
                i += 1;
                let mut b = (vn as u32).to_be_bytes().to_vec();
                b.extend(target.to_be_bytes());
                let mut code = encode(&Insn::MovImm { sz: Sz::L, imm: 113, d: 0 });
                code.extend(encode(&Insn::MovImm { sz: Sz::L, imm: blk, d: 1 }));
                code.extend(encode(&Insn::Trapa(0)));
                pending.push_back(Ctl::Patch(v.pc, code));
                pending.push_back(Ctl::Step);
                pending.push_back(Ctl::Step);
                pending.push_back(Ctl::Step);
                sync_regs = true;
                Ctl::Patch(blk, b)
            }
            Op::StoreVec(vn, value) => {
                i += 1;
                let mut code = encode(&Insn::MovImm { sz: Sz::L, imm: value, d: 0 });
                code.extend(encode(&Insn::Store { sz: Sz::L, s: 0, ea: Ea::A24(4 * vn as u32) }));
                pending.push_back(Ctl::Step);
                pending.push_back(Ctl::Step);
                sync_regs = true;
                Ctl::Patch(v.pc, code)
            }
        }
    });
    if let Some(v) = violation {
        return Err(v);
    }
    match out.end {
        End::Stopped => Ok((entries, maxd)),
        End::Mismatch(m) => Err(m),
        other => Err(format!("history did not run to its end: {:?}", other)),
    }
}

fn history_json(h: &History) -> Value {
    json!({"kind": "history", "prog": h.prog.to_json(), "ops": h.ops.iter().map(|o| match o {
        Op::Trap(n) => json!(["trap", n]), Op::Irq(n) => json!(["irq", n]), Op::Rte => json!(["rte", 0]), Op::SetCcr(c) => json!(["ccr", c]),
        Op::SetHandler(v, t) => json!(["sethandler", v, t]), Op::StoreVec(v, t) => json!(["storevec", v, t]),
        Op::Raise(v) => json!(["raise", v]), Op::Accept => json!(["accept", 0]) }).collect::<Vec<_>>()})
}
fn history_from_json(v: &Value) -> Option<History> {
    let prog = Prog::from_json(v.get("prog")?)?;
    let ops = v
        .get("ops")?
        .as_array()?
        .iter()
        .filter_map(|o| {
            let k = o.get(0)?.as_str()?;
            let n = o.get(1)?.as_u64()? as u8;
            Some(match k {
                "trap" => Op::Trap(n),
                "irq" => Op::Irq(n),
                "rte" => Op::Rte,
                "raise" => Op::Raise(n),
                "accept" => Op::Accept,
                "sethandler" => Op::SetHandler(n, o.get(2)?.as_u64()? as u32),
                "storevec" => Op::StoreVec(n, o.get(2)?.as_u64()? as u32),
                _ => Op::SetCcr(n),
            })
        })
        .collect();
    Some(History { prog, ops })
}

pub fn run(ctx: &Ctx) -> i32 {
    if let Some(v) = &ctx.replay {
        if crate::checks::soup::is_soup_replay(v) {
            return crate::checks::soup::replay(ctx, P, v);
        }
        let case = v.get("case").unwrap_or(v);
        if case.get("kind").and_then(|k| k.as_str()) == Some("history") {
            let Some(h) = history_from_json(case) else { return 2 };
            let mut emu = Emu::new(&ctx.base);
            return match run_history(&mut emu, &h) {
                Ok(_) => {
                    println!("replay {}: history passes", P);
                    0
                }
                Err(m) => {
                    let f = Failure { signature: "entry/return history".into(), detail: m, case: case.clone() };
                    let p = write_replay(P, &f);
                    println!("VIOLATION property={} replay={}", P, p.display());
                    println!("  detail: {}", f.detail);
                    1
                }
            };
        }
        return replay_step(ctx, P, v);
    }
    let tier = ctx.tier;
    let enumerated = |emit: &mut dyn FnMut(&str, Builder<Tag>)| {
        for ccr in 0..=255u8 {
            for n in 1..=3u8 {
                for _k in 0..tier.pick(8, 64) {
                    emit("TRAPA #1-3 x all 256 CCR", &|e| build(e, &Force { kind: Some(0), n: Some(n), ccr: Some(ccr) }));
                }
            }
            for v in 1..=63u8 {
                emit("interrupt vector 1-63 x all CCR values with I clear", &|e| build(e, &Force { kind: Some(1), n: Some(v), ccr: Some(ccr) }));
            }
            for _k in 0..tier.pick(8, 64) {
                emit("RTE x initial CCR", &|e| build(e, &Force { kind: Some(2), n: None, ccr: Some(ccr) }));
            }
        }
    };
    let mut stats = Drive {
        ctx,
        property: P,
        aspects: Aspects::STATE,
        salt: 0x0601_0000,
        nshards: 64,
        enumerated: &enumerated,
        random_cases: tier.pick(3_000_000, 240_000_000),
        build_random: &|e| build(e, &Force::default()),
        classify: &|c, j, t: &Tag, s| classify(c, j, t, s),
        all_quirks: false,
    }
    .run();
    stats.exhaustive_subspaces.insert("TRAPA #1-3 x 256 CCR".into(), 3 * 256);
    stats.exhaustive_subspaces.insert("interrupt vectors 1-63 x 128 CCR values with I clear".into(), 63 * 128);

    let nh: u32 = tier.pick(100_000, 2_000_000);
    let nshards = 32usize;
    let hstats = par_shards(ctx, nshards, |shard| {
        let w = Worker::new(ctx);
        let ent = entropy_n(640);
        let _ = run_prop(mix(ctx.seed, 0x0602_0000 + shard as u64), nh / nshards as u32, &ent, |raw, shrinking| {
            let h = build_history(&mut Ent::new(raw));
            let r = run_history(&mut w.emu.borrow_mut(), &h);
            if std::env::var("H8DBG").is_ok() {
                eprintln!("{:?} -> {:?}", h.ops, r);
            }
            let mut st = w.stats.borrow_mut();
            match r {
                Ok((entries, depth)) => {
                    if !shrinking {
                        st.evaluations += 1;
                        st.class("history: nested entries/returns");
                        st.class_n("history: entries", entries as u64);
                        {
                            // an interrupt whose table entry was rewritten earlier in the same history
                            let mut rewritten: std::collections::BTreeSet<u8> = Default::default();
                            let mut both = false;
                            for o in &h.ops {
                                match o {
                                    Op::SetHandler(v, _) | Op::StoreVec(v, _) => {
                                        rewritten.insert(*v);
                                    }
                                    Op::Irq(v) if rewritten.contains(v) => both = true,
                                    _ => {}
                                }
                            }
                            if both {
                                st.class("history: interrupt through a table entry rewritten earlier (set_handler / guest store)");
                            }
                            let mut out = false;
                            let mut trap_while_pending = false;
                            for o in &h.ops {
                                match o {
                                    Op::Raise(_) => out = true,
                                    Op::Accept => out = false,
                                    Op::Trap(_) | Op::Rte if out => trap_while_pending = true,
                                    _ => {}
                                }
                            }
                            if trap_while_pending {
                                st.class("history: TRAPA / RTE executed while a masked request is pending");
                            }
                        }
                        if depth >= 2 {
                            st.class("history: nesting depth >= 2");
                            let key = key_hash(&(format!("{:?}", h.ops), h.prog.er[7], h.prog.pc));
                            st.nontrivial(key, || json!({"ops": format!("{:?}", h.ops), "sp": format!("{:08x}", h.prog.er[7]), "start": format!("{:06x}", h.prog.pc)}));
                        }
                    }
                    Ok(())
                }
                Err(m) => {
                    let sig = format!("entry/return history | {}", fail_field(&m.replace(|c: char| c.is_ascii_digit(), "")));
                    if ctx.survey {
                        if !shrinking {
                            st.evaluations += 1;
                            st.survey_fail(Failure { signature: sig, detail: m, case: json!({"brief": format!("{:?}", h.ops)}) });
                        }
                        Ok(())
                    } else {
                        st.failures.clear();
                        st.fail(Failure { signature: sig.clone(), detail: m, case: history_json(&h) });
                        Err(sig)
                    }
                }
            }
        });
        w.stats.into_inner()
    });
    stats.merge(hstats);
    let rule = "cases = single steps of TRAPA #1-#3 (all 256 CCR), interrupt acceptance for every vector 1-63 (every CCR value with I clear; through request + the run loop's poll), RTE on crafted frames, with vector/frame top bytes arbitrary, SP across RAM and DRAM incl. non-zero upper byte; plus histories of nested {TRAPA, interrupt, RTE, CCR change, vector-table entry rewritten by the MES set_handler call or by a guest store, a request raised while masked and accepted later} up to depth 16 executed in lockstep with the reference and against a shadow stack of saved contexts (after entry;RTE registers, CCR and PC must equal the pre-entry context). Oracle = reference post-state (frame bytes, SP, I set, UI masked, PC from the low 24 bits of the vector) and the round trip. Non-trivial = entry with CCR not 0x00/0xff, or a history with nesting depth >= 2.";
    let mut extra = Map::new();
    extra.insert("masked_details".into(), json!(["UI after entry (the property allows it to change)"]));
    stats.merge(crate::checks::soup::phase_irq(ctx, P, crate::checks::soup::Flavor::All, ctx.tier.pick(200_000, 4_000_000), 0x6510000, false, true));
    let rule_soup = format!("{}{}", rule, crate::checks::soup::RULE_IRQ);
    let rule: &str = &rule_soup;
    finish(ctx, P, stats, rule, vec!["reference model transcribed from the H8/300H programming manual (DESIGN Appendix A.5)".into()], extra)
}

