//! C15 - guest-triggered faults surface as errors, never as a crash of the emulator.
//!
//! The same code is compiled in two profiles (release: wrapping arithmetic; checked: overflow checks
//! and debug assertions). `check C15` runs its own profile in-process and the other one as a child
//! process of the sibling binary; the verdict is the union.

use super::c18::build_lines;
use crate::cpu::{verif_hooks as hooks, Cpu};
use crate::engine::emu::*;
use crate::engine::run::*;
use crate::engine::stats::*;
use crate::engine::stdio::Redirect;
use crate::engine::stepcase::{hex, unhex};
use crate::gen::*;
use crate::refmodel::exec::BusCfg;
use crate::refmodel::insn::*;
use crate::socket::Socket;
use serde_json::{json, Map, Value};
use std::sync::mpsc::channel;

const P: &str = "C15";

/// the harness-wide logger: log arguments (which contain arithmetic) are evaluated at the level of the case
pub fn install_logger() {
    crate::engine::logctl::install();
}

pub const ADVERSARIAL: [u32; 40] = [
    0, 1, 2, 3, 4, 5, 7, 8, 0xff, 0x100, 0x7fff_ffff, 0x8000_0000, 0xffff_fffc, 0xffff_fffd, 0xffff_fffe, 0xffff_ffff, 0x00ff_ffff, 0x0100_0000, 0x0000_00fe, 0x0000_00ff, 0x0000_0100, 0x0040_0000, 0x003f_ffff,
    0x005f_ffff, 0x0060_0000, 0x00fe_e000, 0x00fe_e0ff, 0x00fe_e100, 0x00ff_bf20, 0x00ff_bf1f, 0x00ff_ff1f, 0x00ff_ff20, 0x00ff_ffe9, 0x00ff_ffea, 0x0041_6900, 0x0041_6901, 0x0041_68ff, 0xff40_0001, 0x8041_6903, 0x7fff_fffe,
];

#[derive(Clone, Debug, PartialEq)]
pub struct FCase {
    pub code: Vec<u8>,
    pub pc: u32,
    pub er: [u32; 8],
    pub ccr: u8,
    pub bus: [u8; 5],
    pub timer: [u8; 5],
    /// vector-area / argument-block patches
    pub patches: Vec<(u32, Vec<u8>)>,
    /// states fed to the peripherals after the step (exercises the timer with the case's registers)
    pub elapse: u8,
}
impl FCase {
    fn to_json(&self) -> Value {
        json!({"kind": "fault-step", "code": hex(&self.code), "pc": self.pc, "er": self.er.to_vec(), "ccr": self.ccr, "bus": self.bus.to_vec(), "timer": self.timer.to_vec(),
            "patches": self.patches.iter().map(|(a, b)| json!([a, hex(b)])).collect::<Vec<_>>(), "elapse": self.elapse})
    }
    fn from_json(v: &Value) -> Option<FCase> {
        let arr = |k: &str| -> Option<Vec<u64>> { Some(v.get(k)?.as_array()?.iter().filter_map(|x| x.as_u64()).collect()) };
        let er_v = arr("er")?;
        let mut er = [0u32; 8];
        for i in 0..8 {
            er[i] = *er_v.get(i)? as u32;
        }
        let b = arr("bus")?;
        let t = arr("timer")?;
        Some(FCase {
            code: unhex(v.get("code")?.as_str()?)?,
            pc: v.get("pc")?.as_u64()? as u32,
            er,
            ccr: v.get("ccr")?.as_u64()? as u8,
            bus: [b[0] as u8, b[1] as u8, b[2] as u8, b[3] as u8, b[4] as u8],
            timer: [t[0] as u8, t[1] as u8, t[2] as u8, t[3] as u8, t[4] as u8],
            patches: v.get("patches")?.as_array()?.iter().filter_map(|p| Some((p.get(0)?.as_u64()? as u32, unhex(p.get(1)?.as_str()?)?))).collect(),
            elapse: v.get("elapse")?.as_u64()? as u8,
        })
    }
}

fn adv_reg(e: &mut Ent) -> u32 {
    match e.below(8) {
        0..=3 => e.pick(&ADVERSARIAL),
        4 => e.pick(&ADVERSARIAL).wrapping_add(e.below(9)).wrapping_sub(4),
        5 => {
            // region edges +/- {0,1,2,4}
            let (lo, hi, _) = e.pick(&crate::refmodel::exec::REGIONS);
            let b = if e.chance(1, 2) { lo } else { hi };
            b.wrapping_add(e.pick(&[0u32, 1, 2, 4, 0xffff_ffff, 0xffff_fffe, 0xffff_fffc])) | e.upper_byte()
        }
        6 => e.val32() | 1,
        _ => e.val32(),
    }
}

/// code positions: every mapped region including its last 2/4/6/8 bytes, the vector area, DRAM below
/// the load base, odd addresses
fn adv_pc(e: &mut Ent, len: u32) -> u32 {
    let (lo, hi, _) = e.pick(&crate::refmodel::exec::REGIONS);
    match e.below(11) {
        // outside mapped memory: just past a region, in a gap, above 2^24 (fetch must fail with an error)
        10 => match e.below(4) {
            0 => hi + 1,
            1 => lo.wrapping_sub(2),
            2 => e.u32() & 0x00ff_fffe,
            _ => (e.u32() & !1) | 0x0100_0000,
        },
        0 => lo,
        1 => (hi + 1).wrapping_sub(2),
        2 => (hi + 1).wrapping_sub(4),
        3 => (hi + 1).wrapping_sub(6),
        4 => (hi + 1).wrapping_sub(8),
        5 => (hi + 1).wrapping_sub(len.max(2)),
        6 => 0x400000 + 2 * e.below(0xb480), // DRAM below the load base 0x416900
        7 => (lo + 2 * e.below(((hi - lo) / 2).max(1))) | 1,
        _ => lo + 2 * e.below(((hi - lo) / 2).max(1)),
    }
}

pub fn build(e: &mut Ent) -> FCase {
    // well-formed MES calls (long valid UTF-8 texts, every vector number): faults deep inside the
    // emulator's own services are only reachable through well-formed requests
    if e.chance(1, 12) {
        let (c, _) = super::c14::build(e, None, None);
        let mut code = c.code.clone();
        code.resize(10, 0);
        return FCase { code, pc: c.pc, er: c.er, ccr: c.ccr, bus: [e.u8(), e.u8(), e.u8(), e.u8(), e.u8()], timer: [0, e.u8(), e.u8(), e.u8(), e.u8()], patches: c.patches, elapse: e.u8() };
    }
    // instruction bytes: a valid form with adversarial fields, or raw words
    let mut code: Vec<u8> = match e.below(10) {
        0..=2 => (0..10).map(|_| e.u8()).collect(),
        3 => {
            // interesting first bytes with random rest
            let b0 = e.pick(&[0x01u8, 0x0a, 0x0b, 0x1a, 0x1b, 0x55, 0x57, 0x58, 0x59, 0x5a, 0x5b, 0x5c, 0x5d, 0x5e, 0x5f, 0x54, 0x56, 0x63, 0x73, 0x6a, 0x6b, 0x6c, 0x6d, 0x78, 0x7c, 0x7d, 0x7e, 0x7f, 0x51, 0x53, 0x7b]);
            let mut v = vec![b0];
            v.extend((0..9).map(|_| e.u8()));
            v
        }
        4 => {
            let (c, _) = super::c07::build(e, [None, None, None, None, None], 4);
            c.code
        }
        5 => {
            let (c, _, _, _) = super::c01::build(e, &super::c01::Force::default());
            c.code
        }
        6 => {
            let (c, _) = super::c05::build(e, &super::c05::Force::default());
            c.code
        }
        7 => {
            let (c, _) = super::c04::build(e, &super::c04::Force::default());
            c.code
        }
        8 => encode(&Insn::Trapa(e.below(4) as u8)),
        _ => {
            let (c, _) = super::alu::build(&super::alu::arith_forms(), e, &super::alu::Force::default());
            c.code
        }
    };
    code.resize(10, 0);
    for i in 2..10 {
        if e.chance(1, 6) {
            code[i] = e.pick(&[0x00u8, 0xff, 0x80, 0x7f]);
        }
    }
    let mut er = [0u32; 8];
    for r in er.iter_mut() {
        *r = adv_reg(e);
    }
    // MES calls with adversarial argument blocks
    if code[0] == 0x57 && e.chance(2, 3) {
        er[0] = e.pick(&[104u32, 113, 104, 113, 0, 105]);
    }
    let mut patches = vec![];
    if code[0] == 0x57 {
        // argument block contents when ER1 happens to be mapped
        let words = [adv_reg(e), adv_reg(e), match e.below(3) { 0 => e.below(16), 1 => adv_reg(e), _ => 0xffff_ffff }];
        let a = er[1] & 0xff_ffff;
        if crate::refmodel::exec::mapped(a) && !is_peripheral_reg(a) {
            let mut b = vec![];
            for w in words {
                b.extend(w.to_be_bytes());
            }
            patches.push((a, b));
        }
    }
    let pc = adv_pc(e, 10);
    let bus = [e.u8(), e.u8(), e.u8(), e.u8(), e.u8()];
    let timer = [e.u8(), e.u8(), e.u8(), e.u8(), e.u8()];
    FCase { code, pc, er, ccr: e.u8(), bus, timer, patches, elapse: e.u8() }
}

/// run one case; returns the panic message if the emulator panicked
fn exec_case(emu: &mut Emu, c: &FCase) -> (Option<String>, &'static str) {
    let mut touched: Vec<u32> = vec![];
    for (i, b) in c.code.iter().enumerate() {
        let a = c.pc.wrapping_add(i as u32);
        if raw_set(&mut emu.cpu.bus, a, *b) {
            touched.push(a);
        }
    }
    for (a, bytes) in &c.patches {
        for (i, b) in bytes.iter().enumerate() {
            if raw_set(&mut emu.cpu.bus, a + i as u32, *b) {
                touched.push(a + i as u32);
            }
        }
    }
    emu.set_bus_cfg(&BusCfg { abwcr: c.bus[0], astcr: c.bus[1], wcrh: c.bus[2], wcrl: c.bus[3], drcra: c.bus[4] });
    // timer registers through the CPU's write path (TCR decodes the clock)
    for (a, v) in [(0xffff84u32, c.timer[1]), (0xffff86, c.timer[2]), (0xffff88, c.timer[3]), (0xffff82, c.timer[4]), (0xffff80, c.timer[0])] {
        let _ = emu.cpu.bus.write(a, v);
    }
    emu.cpu.er = c.er;
    emu.set_ccr(c.ccr);
    emu.set_pc(c.pc);
    emu.clear_write_log();
    let r = emu.step();
    let mut panic = None;
    let mut kind = r.kind();
    let fetch_ok = {
        let a = (c.pc & !1) as u64;
        let acc = |x: u64| crate::refmodel::exec::REGIONS.iter().any(|&(lo, hi, _)| x >= lo as u64 && x <= hi as u64);
        acc(a) && acc(a + 1)
    };
    if let EmuResult::Panic(p) = r {
        panic = Some(p);
    } else if !fetch_ok && kind != "Err" {
        // the statement: an instruction fetch outside mapped memory is reported as an error
        panic = Some(format!("instruction fetch outside mapped memory was not reported as an error: outcome {} @ harness/fetch", kind));
    } else {
        // the peripherals see the charge
        let cpu = &mut emu.cpu;
        let n = c.elapse;
        match guarded(|| hooks::update_modules(cpu, n)) {
            Ok(_) => {}
            Err(p) => {
                panic = Some(p);
                kind = "Panic";
            }
        }
        if panic.is_none() {
            // the run loop polls for interrupts before the next fetch: with the flags and the PC the step left
            // behind (a PC outside the 24-bit space exists for exactly this one poll), I clear so that a pending
            // request - the timer's, or one raised here for half of the cases - is accepted
            let keep = emu.ccr() & 0x7f;
            emu.set_ccr(keep);
            let cpu = &mut emu.cpu;
            if c.elapse & 1 == 1 {
                hooks::request_interrupt(cpu, 1 + (c.bus[0] ^ c.timer[1]) % 63);
            }
            if let Err(p) = guarded(|| hooks::try_interrupt(cpu)) {
                panic = Some(p);
                kind = "Panic";
            }
        }
    }
    // undo
    emu.restore(touched.iter());
    let log: Vec<u32> = emu.cpu.bus.verif_write_log.clone();
    emu.restore(log.iter());
    emu.soft_reset();
    (panic, kind)
}

/// stable key of a panic: message without numbers + source file (no line number)
pub fn panic_key(p: &str) -> String {
    let (msg, loc) = p.rsplit_once(" @ ").unwrap_or((p, ""));
    let file = loc.rsplit_once(':').map(|x| x.0).unwrap_or(loc);
    let file = file.rsplit('/').take(2).collect::<Vec<_>>().into_iter().rev().collect::<Vec<_>>().join("/");
    // keep the stable head of the message: cut at the first value-dependent part
    let mut head = msg;
    for stop in [" inside ", "`", "[0x", "'", "\"", ": "] {
        if let Some(i) = head.find(stop) {
            if i > 12 {
                head = &head[..i];
            }
        }
    }
    let msg: String = head.chars().filter(|c| !c.is_ascii_digit() && !c.is_control()).take(70).collect();
    format!("panic: {} [{}]", msg.trim(), file)
}

// ---------------------------------------------------------------------------------------------
// (2) short programs through run(), (3) control lines through run()

fn run_program_case(e: &mut Ent) -> (Option<String>, Value) {
    // a short program at the load base that ends in something nasty
    let mut c: Vec<u8> = vec![];
    let nasty = e.below(10);
    // optional slow-bus prologue (charges above 85 states per instruction)
    if e.chance(1, 2) {
        for (reg, val) in [(0xfee023u32, 0xffu32), (0xfee022, 0xff), (0xfee020, 0xff), (0xfee021, 0xff)] {
            c.extend(encode(&Insn::MovImm { sz: Sz::B, imm: val, d: 8 }));
            c.extend(encode(&Insn::Store { sz: Sz::B, s: 8, ea: Ea::A24(reg) }));
        }
    }
    // the stack somewhere unusual while interrupts arrive: on-chip registers (timers, bus controller, ports),
    // region edges, unmapped space - the frames of accepted requests then go through every branch of Bus::write
    // from inside the run loop
    let odd_stack = e.chance(1, 2);
    if odd_stack {
        let sp = match e.below(8) {
            0 => 0xffff80 + e.below(0x20),
            1 => 0xfee000 + e.below(0x110),
            2 => 0xffffd0 + e.below(0x14),
            3 => 0xffff20 + e.below(0x60),
            4 => 0xffbf20 + e.below(8),
            5 => 0xffff20 - e.below(8),
            _ => e.pick(&ADVERSARIAL) & 0xff_ffff,
        } & !(e.below(2));
        c.extend(encode(&Insn::MovImm { sz: Sz::L, imm: sp, d: 7 }));
    }
    // timer storm: fastest clock, every interrupt enabled, tiny compare values
    if e.chance(1, 3) || (odd_stack && e.chance(2, 3)) {
        for (a, v) in [(0x84u8, 1 + e.below(3)), (0x86, 2 + e.below(3)), (0x80, 0xe0 | (e.below(2) << 3) | 1)] {
            c.extend(encode(&Insn::MovImm { sz: Sz::B, imm: v, d: 8 }));
            c.extend(encode(&Insn::Store { sz: Sz::B, s: 8, ea: Ea::A8(a) }));
        }
    }
    for _ in 0..e.below(6) {
        c.extend(encode(&super::c10::arith(e)));
    }
    // expensive instructions under the slow bus
    c.extend(encode(&Insn::Load { sz: Sz::L, ea: Ea::D24(2, 0x100), d: 3 }));
    c.extend(encode(&Insn::Mulxu { sz: Sz::W, s: 1, d: 2 }));
    let target = e.pick(&ADVERSARIAL);
    match nasty {
        0 => c.extend(encode(&Insn::Jmp(JTarget::Abs(target & 0xff_ffff)))),
        1 => {
            c.extend(encode(&Insn::MovImm { sz: Sz::L, imm: target, d: 4 }));
            c.extend(encode(&Insn::Jmp(JTarget::Reg(4))));
        }
        2 => {
            c.extend(encode(&Insn::MovImm { sz: Sz::L, imm: target, d: 7 }));
            c.extend(encode(&Insn::Rts));
        }
        3 => {
            c.extend(encode(&Insn::MovImm { sz: Sz::L, imm: target, d: 7 }));
            c.extend(encode(&Insn::Jsr(JTarget::Abs(e.pick(&ADVERSARIAL) & 0xff_fffe))));
        }
        4 => c.extend([0x00, 0x00]),
        5 => {
            c.extend(encode(&Insn::MovImm { sz: Sz::L, imm: target, d: 7 }));
            c.extend(encode(&Insn::Trapa(1 + e.below(3) as u8)));
        }
        6 => c.extend(encode(&Insn::Bcc { cond: 0, disp: (e.u8() as i8 as i32) | 1, wide: false })),
        7 => {
            c.extend(encode(&Insn::MovImm { sz: Sz::L, imm: target, d: 7 }));
            c.extend(encode(&Insn::Rte));
        }
        8 => {
            // fall off the end of DRAM: code placed at the very end
            c.extend(encode(&Insn::Jmp(JTarget::Abs(0x5ffffe))));
        }
        _ => {
            c.extend(encode(&Insn::MovImm { sz: Sz::L, imm: e.pick(&[104u32, 113]), d: 0 }));
            c.extend(encode(&Insn::MovImm { sz: Sz::L, imm: target, d: 1 }));
            c.extend(encode(&Insn::Trapa(0)));
        }
    }
    // a loop so that programs which survive keep running for a few thousand instructions, then exit
    c.extend(encode(&Insn::MovImm { sz: Sz::W, imm: 300, d: 5 }));
    let top = c.len();
    c.extend(encode(&Insn::Un { op: UnOp::Dec1, sz: Sz::W, d: 5 }));
    let disp = top as i32 - (c.len() as i32 + 2);
    c.extend(encode(&Insn::Bcc { cond: 6, disp, wide: false }));
    let exit = 0x416900 + c.len() as u32;
    // where the vectors of the timer requests lead: nowhere (address 0), or to an RTE right behind the program
    let handler = if e.chance(1, 2) { Some(exit + 2) } else { None };
    c.extend([0x54, 0x70, 0x56, 0x70]);
    let case = json!({"kind": "fault-program", "code": hex(&c), "exit": exit, "handler": handler});
    (run_code_ex(&c, exit, &[], handler), case)
}

fn run_code(code: &[u8], exit: u32, lines: &[String]) -> Option<String> {
    run_code_ex(code, exit, lines, None)
}

/// execute `code` at the load base through the real run loop; returns the panic message, if any
fn run_code_ex(code: &[u8], exit: u32, lines: &[String], handler: Option<u32>) -> Option<String> {
    let (out_tx, out_rx) = channel::<String>();
    let (in_tx, in_rx) = channel::<String>();
    let mut cpu = Cpu::new();
    // the whole batch is queued before the loop starts
    for l in lines {
        let _ = in_tx.send(l.clone());
    }
    let done = std::sync::Arc::new(std::sync::atomic::AtomicBool::new(false));
    if !lines.is_empty() {
        // the final stop ends the (endless) echo guest
        let _ = in_tx.send("cmd:start".to_string());
        let _ = in_tx.send("cmd:stop".to_string());
    } else {
        // a guest that loops forever (e.g. jumps back to its start) is ended by a watchdog's stop line
        let (d, tx) = (done.clone(), in_tx.clone());
        std::thread::spawn(move || {
            for _ in 0..25 {
                std::thread::sleep(std::time::Duration::from_millis(10));
                if d.load(std::sync::atomic::Ordering::Relaxed) {
                    return;
                }
            }
            let _ = tx.send("cmd:stop".to_string());
        });
    }
    hooks::attach_socket(&mut cpu, Socket::from_channels(out_tx, in_rx));
    for (i, b) in code.iter().enumerate() {
        cpu.bus.dram[0x16900 + i] = *b;
    }
    cpu.er[2] = 0x416900;
    cpu.er[7] = 0x5f0000;
    cpu.exit_addr = exit;
    if let Some(h) = handler {
        for v in 12..64usize {
            cpu.bus.exception_handling_vector[4 * v..4 * v + 4].copy_from_slice(&h.to_be_bytes());
        }
    }
    let r = {
        let c = &mut cpu;
        guarded(move || c.run().map_err(|e| e.to_string()))
    };
    done.store(true, std::sync::atomic::Ordering::Relaxed);
    drop(out_rx);
    drop(in_tx);
    r.err()
}

fn fuzz_lines(e: &mut Ent) -> Vec<String> {
    let mut lines = build_lines(e);
    // extra adversarial shapes and targets (ports, DDR/DR, timer control, bus controller, everything)
    for _ in 0..e.below(12) {
        let a = match e.below(4) {
            0 => e.pick(&ADVERSARIAL),
            1 => 0xffff80 + e.below(0x1a),
            2 => 0xfee000 + e.below(0x30),
            _ => 0xffffd0 + e.below(11),
        };
        let l = match e.below(8) {
            0 => format!("u8:{:x}:{:x}", a, e.u8()),
            1 => format!("ioport:{:x}:{:x}", e.below(300), e.below(300)),
            2 => format!("u8:{}:{}", "f".repeat(1 + e.below(20) as usize), e.u8()),
            3 => format!("{}:{}", e.pick(&["cmd", "u8", "ioport", "", ":"]), ":".repeat(e.below(6) as usize)),
            4 => format!("u8:{:x}:{:x}", a, e.u8()),
            5 => "cmd:pause".to_string(),
            6 => "cmd:start".to_string(),
            _ => format!("u8:+{:x}:-{:x}", a, e.u8()),
        };
        let k = e.below(lines.len() as u32 + 1) as usize;
        lines.insert(k, l);
    }
    // never leave the loop paused forever: the final stop is appended by run_code
    lines.retain(|l| l != "cmd:stop");
    lines
}

// ---------------------------------------------------------------------------------------------

fn stats_to_json(st: &Stats) -> Value {
    json!({
        "evaluations": st.evaluations,
        "nontrivial_cases": st.nontrivial_cases,
        "keys": st.nontrivial_keys.iter().take(2_000_000).collect::<Vec<_>>(),
        "classes": st.classes,
        "samples": st.samples,
        "failures": st.failures.iter().map(|f| json!({"signature": f.signature, "detail": f.detail, "case": f.case})).collect::<Vec<_>>(),
        "survey": st.survey.iter().map(|(k, (n, fs))| json!({"signature": k, "n": n, "detail": fs.first().map(|f| f.detail.clone()), "case": fs.first().map(|f| f.case.clone())})).collect::<Vec<_>>(),
    })
}
fn stats_from_json(v: &Value, prefix: &str) -> Stats {
    let mut st = Stats::new();
    st.evaluations = v.get("evaluations").and_then(|x| x.as_u64()).unwrap_or(0);
    st.nontrivial_cases = v.get("nontrivial_cases").and_then(|x| x.as_u64()).unwrap_or(0);
    if let Some(k) = v.get("keys").and_then(|x| x.as_array()) {
        for x in k {
            if let Some(n) = x.as_u64() {
                st.nontrivial_keys.insert(n ^ 0x5555_5555_5555_5555);
            }
        }
    }
    if let Some(c) = v.get("classes").and_then(|x| x.as_object()) {
        for (k, n) in c {
            st.classes.insert(format!("{}{}", prefix, k), n.as_u64().unwrap_or(0));
        }
    }
    if let Some(s) = v.get("samples").and_then(|x| x.as_array()) {
        st.samples = s.iter().take(3).cloned().collect();
    }
    if let Some(f) = v.get("failures").and_then(|x| x.as_array()) {
        for x in f {
            st.failures.push(Failure {
                signature: x.get("signature").and_then(|s| s.as_str()).unwrap_or("").to_string(),
                detail: format!("[{}] {}", prefix.trim_end_matches(": "), x.get("detail").and_then(|s| s.as_str()).unwrap_or("")),
                case: x.get("case").cloned().unwrap_or(Value::Null),
            });
        }
    }
    if let Some(f) = v.get("survey").and_then(|x| x.as_array()) {
        for x in f {
            let sig = x.get("signature").and_then(|s| s.as_str()).unwrap_or("").to_string();
            let fl = Failure { signature: sig.clone(), detail: format!("[{}] {}", prefix.trim_end_matches(": "), x.get("detail").and_then(|s| s.as_str()).unwrap_or("")), case: x.get("case").cloned().unwrap_or(Value::Null) };
            st.survey.insert(format!("{}{}", prefix, sig), (x.get("n").and_then(|n| n.as_u64()).unwrap_or(0), vec![fl]));
        }
    }
    st
}

/// everything this profile does in-process
fn run_profile(ctx: &Ctx) -> Stats {
    install_logger();
    let tier = ctx.tier;
    let prof = ctx.profile;
    let quiet = Redirect::start(false);
    // (1) single steps
    let n: u32 = tier.pick(1_500_000, 40_000_000);
    let nshards = 64usize;
    let record = |st: &mut Stats, panic: Option<String>, case: Value, count: bool, ctx: &Ctx| -> Result<(), String> {
        match panic {
            None => Ok(()),
            Some(p) => {
                let sig = panic_key(&p);
                let f = Failure { signature: sig.clone(), detail: format!("{} profile: {}", prof, p), case };
                if ctx.findings.is_open(P, &sig) {
                    if count {
                        st.known_hit(&sig, || f.case.clone());
                    }
                    Ok(())
                } else if ctx.survey {
                    if count {
                        st.survey_fail(f);
                    }
                    Ok(())
                } else {
                    st.failures.retain(|x| x.signature != sig);
                    st.fail(f);
                    Err(sig)
                }
            }
        }
    };
    let mut stats = par_shards(ctx, nshards, |shard| {
        let w = Worker::new(ctx);
        let ent = entropy_n(96);
        let _ = run_prop(mix(ctx.seed, 0x1501_0000 + shard as u64), n / nshards as u32, &ent, |raw, shrinking| {
            let c = build(&mut Ent::new(raw));
            let (panic, kind) = exec_case(&mut w.emu.borrow_mut(), &c);
            let mut st = w.stats.borrow_mut();
            if !shrinking {
                st.evaluations += 1;
                st.class(&format!("{}: step outcome {}", prof, kind));
                let edge = crate::refmodel::exec::REGIONS.iter().any(|&(lo, hi, _)| c.pc.abs_diff(lo) < 2 || (hi + 1).wrapping_sub(c.pc) <= 10);
                if edge {
                    st.class(&format!("{}: code within the last 10 bytes / first bytes of a region", prof));
                }
                if c.pc < 0x416900 && c.pc >= 0x400000 {
                    st.class(&format!("{}: code in DRAM below the load base", prof));
                }
                if !crate::refmodel::exec::REGIONS.iter().any(|&(lo, hi, _)| (c.pc & !1) >= lo && (c.pc & !1) <= hi) {
                    st.class(&format!("{}: PC outside mapped memory", prof));
                }
                let adv = c.er.iter().any(|r| ADVERSARIAL.contains(r));
                if kind == "Err" || edge || adv {
                    st.nontrivial(key_hash(&(&c.code, c.pc, c.er, prof)), || json!({"profile": prof, "case": c.to_json(), "outcome": kind}));
                }
            }
            record(&mut st, panic, c.to_json(), !shrinking, ctx)
        });
        w.stats.into_inner()
    });
    // (2) programs through run()
    let np: u32 = tier.pick(2400, 60_000);
    let pstats = par_shards(ctx, 32, |shard| {
        let stats = std::cell::RefCell::new(Stats::new());
        let ent = entropy_n(200);
        set_shrink_iters(200);
        let _ = run_prop(mix(ctx.seed, 0x1502_0000 + shard as u64), np / 32, &ent, |raw, shrinking| {
            let (panic, case) = run_program_case(&mut Ent::new(raw));
            let mut st = stats.borrow_mut();
            if !shrinking {
                st.evaluations += 1;
                st.class(&format!("{}: program through run()", prof));
                st.nontrivial(key_hash(&(case.to_string(), prof)), || json!({"profile": prof, "case": case}));
            }
            record(&mut st, panic, case, !shrinking, ctx)
        });
        stats.into_inner()
    });
    stats.merge(pstats);
    // (3) control lines through run()
    let nl: u32 = tier.pick(8000, 300_000);
    let lstats = par_shards(ctx, 32, |shard| {
        let stats = std::cell::RefCell::new(Stats::new());
        let ent = entropy_n(400);
        set_shrink_iters(200);
        let guest = {
            // the echo loop of C18, at the load base
            let mut c = vec![];
            c.extend(encode(&Insn::MovImm { sz: Sz::B, imm: 0xff, d: 8 }));
            let top = c.len();
            c.extend(encode(&Insn::Store { sz: Sz::B, s: 8, ea: Ea::A24(0x500000) }));
            let disp = top as i32 - (c.len() as i32 + 2);
            c.extend(encode(&Insn::Bcc { cond: 0, disp, wide: false }));
            c
        };
        let _ = run_prop(mix(ctx.seed, 0x1503_0000 + shard as u64), nl / 32, &ent, |raw, shrinking| {
            let lines = fuzz_lines(&mut Ent::new(raw));
            let panic = run_code(&guest, 0, &lines);
            let mut st = stats.borrow_mut();
            if !shrinking {
                st.evaluations += 1;
                st.class(&format!("{}: control-line batch through run()", prof));
                st.class_n(&format!("{}: control lines", prof), lines.len() as u64);
                st.nontrivial(key_hash(&(&lines, prof)), || json!({"profile": prof, "lines": lines.iter().take(12).collect::<Vec<_>>()}));
            }
            record(&mut st, panic, json!({"kind": "fault-lines", "lines": lines}), !shrinking, ctx)
        });
        stats.into_inner()
    });
    stats.merge(lstats);
    // (4) control lines over real TCP: the socket's own worker threads are part of the emulator. Line sets from
    // C18's generator (with early stops, so that lines keep arriving after the run loop has ended, over-long lines
    // and lines that are not UTF-8) go through Cpu::connect_socket; the verdict here is only: no thread of the
    // emulator panicked (what the lines must *do* is C18's business).
    let nt: u32 = tier.pick(120, 4000);
    let tstats = par_shards(ctx, 8, |shard| {
        use crate::engine::emu::{EMU_THREAD_PANICS, LAST_EMU_THREAD_PANIC};
        let mut st = Stats::new();
        let mut runner = proptest_runner(mix(ctx.seed, 0x1504_0000 + shard as u64), 1);
        let ent = entropy_n(500);
        for _ in 0..nt / 8 {
            let raw = sample(&mut runner, &ent);
            let mut e = Ent::new(&raw);
            let mut lines: Vec<String> = super::c18::build_lines(&mut e).into_iter().filter(|l| !l.contains('\n')).collect();
            if e.chance(1, 2) {
                let k = e.below(lines.len() as u32 + 1) as usize;
                lines.insert(k, "cmd:stop".into());
            }
            if e.chance(1, 3) {
                let k = e.below(lines.len() as u32 + 1) as usize;
                lines.insert(k, format!("{}{}", "y".repeat(e.pick(&[4096usize, 8192, 65536, 70000])), e.pick(&["\u{e0ff}", "", "cmd:stop"])));
            }
            let before = EMU_THREAD_PANICS.load(std::sync::atomic::Ordering::SeqCst);
            let r = super::c18::judge_tcp_lines(&lines, e.u32());
            if let Err(m) = &r {
                if m.starts_with(super::c18::INFRA) {
                    st.notes.push(format!("TCP run inconclusive: {}", m));
                    continue;
                }
            }
            // the workers end when the connection closes; give a late panic a moment to happen
            std::thread::sleep(std::time::Duration::from_millis(5));
            st.evaluations += 1;
            st.class(&format!("{}: control lines over TCP (socket worker threads)", prof));
            let after = EMU_THREAD_PANICS.load(std::sync::atomic::Ordering::SeqCst);
            if after != before {
                let p = LAST_EMU_THREAD_PANIC.lock().map(|g| g.clone()).unwrap_or_default();
                let sig = panic_key(&p);
                let f = Failure { signature: sig.clone(), detail: format!("{} profile: a thread started by the emulator panicked while these lines were delivered over TCP: {}", prof, p), case: json!({"kind": "fault-tcp-lines", "lines": lines}) };
                if ctx.findings.is_open(P, &sig) {
                    st.known_hit(&sig, || f.case.clone());
                } else {
                    st.failures.retain(|x| x.signature != sig);
                    st.fail(f);
                    break;
                }
            }
        }
        st
    });
    stats.merge(tstats);
    drop(quiet);
    stats
}

fn replay_case(ctx: &Ctx, case: &Value) -> Option<String> {
    install_logger();
    let _quiet = Redirect::start(false);
    if let Some(r) = crate::engine::emu::replay_setup_write(case) {
        return r.err();
    }
    match case.get("kind").and_then(|k| k.as_str()) {
        Some("fault-step") => {
            let c = FCase::from_json(case)?;
            let mut emu = Emu::new(&ctx.base);
            exec_case(&mut emu, &c).0
        }
        Some("fault-program") => {
            let code = unhex(case.get("code")?.as_str()?)?;
            run_code_ex(&code, case.get("exit")?.as_u64()? as u32, &[], case.get("handler").and_then(|h| h.as_u64()).map(|h| h as u32))
        }
        Some("fault-tcp-lines") => {
            let lines: Vec<String> = case.get("lines")?.as_array()?.iter().filter_map(|x| x.as_str().map(|s| s.to_string())).collect();
            use crate::engine::emu::{EMU_THREAD_PANICS, LAST_EMU_THREAD_PANIC};
            for k in 0..5u32 {
                let before = EMU_THREAD_PANICS.load(std::sync::atomic::Ordering::SeqCst);
                let _ = super::c18::judge_tcp_lines(&lines, 777 + k);
                std::thread::sleep(std::time::Duration::from_millis(20));
                if EMU_THREAD_PANICS.load(std::sync::atomic::Ordering::SeqCst) != before {
                    return Some(format!("a thread started by the emulator panicked: {}", LAST_EMU_THREAD_PANIC.lock().map(|g| g.clone()).unwrap_or_default()));
                }
            }
            None
        }
        Some("fault-lines") => {
            let lines: Vec<String> = case.get("lines")?.as_array()?.iter().filter_map(|x| x.as_str().map(|s| s.to_string())).collect();
            let mut c = vec![];
            c.extend(encode(&Insn::MovImm { sz: Sz::B, imm: 0xff, d: 8 }));
            let top = c.len();
            c.extend(encode(&Insn::Store { sz: Sz::B, s: 8, ea: Ea::A24(0x500000) }));
            let disp = top as i32 - (c.len() as i32 + 2);
            c.extend(encode(&Insn::Bcc { cond: 0, disp, wide: false }));
            run_code(&c, 0, &lines)
        }
        _ => None,
    }
}

fn sibling(profile: &str) -> std::path::PathBuf {
    let exe = std::env::current_exe().unwrap_or_default();
    // .../target/harness/<profile>/check
    let dir = exe.parent().and_then(|p| p.parent()).map(|p| p.to_path_buf()).unwrap_or_default();
    dir.join(profile).join("check")
}

pub fn run(ctx: &Ctx) -> i32 {
    let child_out = std::env::var("H8VERIF_C15_CHILD").ok();
    if let Some(v) = &ctx.replay {
        let case = v.get("case").unwrap_or(v);
        if case.get("kind").and_then(|k| k.as_str()) == Some("fuzz") {
            // the fuzz target is built in the checked arithmetic mode; replay in this profile
            return replay_fuzz(P, v).unwrap_or(2);
        }
        let mine = replay_case(ctx, case);
        if child_out.is_some() {
            // child of a replay: report through the exit code
            if let Some(p) = &mine {
                println!("panic in {} profile: {}", ctx.profile, p);
            }
            return if mine.is_some() { 1 } else { 0 };
        }
        let other = if ctx.profile == "release" { "checked" } else { "release" };
        let file = std::env::temp_dir().join(format!("h8verif-c15-replay-{}.json", std::process::id()));
        let _ = std::fs::write(&file, v.to_string());
        let status = std::process::Command::new(sibling(other)).arg(P).arg("--replay").arg(&file).env("H8VERIF_C15_CHILD", "1").status();
        let _ = std::fs::remove_file(&file);
        let theirs = status.map(|s| s.code() == Some(1)).unwrap_or(false);
        println!("replay {}: {} profile {}; {} profile {}", P, ctx.profile, if mine.is_some() { "PANICS" } else { "ok" }, other, if theirs { "PANICS" } else { "ok" });
        if let Some(p) = &mine {
            println!("  {}", p);
        }
        if mine.is_some() || theirs {
            let sig = mine.as_ref().map(|p| panic_key(p)).unwrap_or_else(|| v.get("signature").and_then(|s| s.as_str()).unwrap_or("panic").to_string());
            if ctx.findings.is_open(P, &sig) {
                println!("KNOWN-FINDING: property={} {}", P, ctx.findings.what(P, &sig));
                return 0;
            }
            let f = Failure { signature: sig, detail: mine.unwrap_or_else(|| format!("panics in the {} profile", other)), case: case.clone() };
            let p = write_replay(P, &f);
            println!("VIOLATION property={} replay={}", P, p.display());
            return 1;
        }
        return 0;
    }
    let mut stats = run_profile(ctx);
    if let Some(out) = child_out {
        let _ = std::fs::write(&out, stats_to_json(&stats).to_string());
        return 0;
    }
    // the other profile, as a child process of the sibling binary
    let other = if ctx.profile == "release" { "checked" } else { "release" };
    let out = std::env::temp_dir().join(format!("h8verif-c15-{}.json", std::process::id()));
    let mut cmd = std::process::Command::new(sibling(other));
    cmd.arg(P).arg("--tier").arg(ctx.tier.name()).arg("--seed").arg(format!("{}", ctx.seed as i64)).arg("--threads").arg(format!("{}", ctx.threads)).env("H8VERIF_C15_CHILD", &out);
    if ctx.survey {
        cmd.arg("--survey");
    }
    let mut extra = Map::new();
    match cmd.output() {
        Ok(o) if o.status.success() => match std::fs::read_to_string(&out).ok().and_then(|t| serde_json::from_str::<Value>(&t).ok()) {
            Some(v) => {
                let child = stats_from_json(&v, "");
                extra.insert("profiles".into(), json!([ctx.profile, other]));
                stats.merge(child);
            }
            None => {
                eprintln!("C15: the {} profile child produced no result", other);
                return 2;
            }
        },
        Ok(o) => {
            eprintln!("C15: the {} profile child failed: {}", other, String::from_utf8_lossy(&o.stderr).chars().take(400).collect::<String>());
            return 2;
        }
        Err(e) => {
            eprintln!("C15: cannot start {:?}: {} (run ./check --setup)", sibling(other), e);
            return 2;
        }
    }
    let _ = std::fs::remove_file(&out);
    if ctx.tier == Tier::Thorough {
        fuzz_campaign(ctx, "fuzz_step", 8, 400_000, 64, &mut stats);
    }
    let plain_ok: u64 = stats.classes.iter().filter(|(k, _)| k.contains("step outcome Ok")).map(|(_, v)| *v).sum();
    let steps: u64 = stats.classes.iter().filter(|(k, _)| k.contains("step outcome")).map(|(_, v)| *v).sum();
    extra.insert("fraction_of_steps_that_simply_succeed".into(), json!(if steps > 0 { plain_ok as f64 / steps as f64 } else { 0.0 }));
    let rule = "cases = (1) single steps of instruction word sequences (raw random words, interesting first bytes, valid forms of every family with adversarial fields, MES calls with adversarial argument blocks) x adversarial register files (0, 1, 2, 3, 4, 0xFF, 0x7FFFFFFF, 0x80000000, 0xFFFFFFFC-0xFFFFFFFF, every region's first/last address +/- {0,1,2,4}, odd values, upper bytes) x CCR x arbitrary bus-controller bytes x timer registers, executed from every mapped region incl. its last 2/4/6/8 bytes, the vector area, DRAM below the load base and odd addresses, followed by a peripheral update and an interrupt poll; (2) short programs through the real run loop that end in jumps/returns/traps to unmapped or odd targets, fall off the end of DRAM, use slow-bus settings and timer interrupt storms; (3) fuzzed control-line batches (C18's grammar + over-long / negative / empty / separator-only fields, every port, DDR/DR, timer and bus-controller address) through the run loop. A logger at the binary's default level is installed so that log arguments are evaluated. Oracle = catch_unwind + panic hook: any panic is a violation, Ok and Err are both fine. Both build profiles (release; release + overflow checks + debug assertions) are run, the verdict is the union. One step case in 11 starts outside mapped memory (just past a region, in a gap, at or above 2^24): the outcome must be an error, not success; 1 in 12 is a well-formed MES call (long valid UTF-8, every vector number). Non-trivial = the step fails with an error, or the code sits at a region edge, or a register holds a value of the adversarial set; distinct by (code, PC, registers, profile).";
    if let Some(f) = crate::engine::emu::setup_panic_failure() {
        stats.fail(f);
    }
    finish(ctx, P, stats, rule, vec!["absence of panics is never established by search; per-class counts show what was exercised".into(), "aborts/stack overflows would kill the process: the wrapper reports that as exit 2".into()], extra)
}
