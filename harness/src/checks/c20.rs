//! C20 - each instruction is charged the manual's bus-cycle mix at the areas it touches.

use super::common::*;
use super::driver::*;
use super::{alu, c01, c04, c05, c06, c08};
use crate::engine::run::*;
use crate::engine::stats::*;
use crate::engine::stepcase::*;
use crate::gen::*;
use crate::engine::emu::*;
use crate::engine::program::*;
use crate::refmodel::exec::{cycle_cost, total_cost, BusCfg, Kind, Outcome};
use crate::refmodel::insn::*;
use serde_json::{json, Map};

const P: &str = "C20";

#[derive(Clone, Debug)]
pub struct Tag {
    pub insn: Insn,
}

/// a bus-controller setting under which on-chip RAM, area 0 (vector area) and area 2 (DRAM) cost
/// pairwise different amounts for byte cycles and for word-sized cycles
pub fn distinct_cfg(e: &mut Ent) -> BusCfg {
    let fixed = [
        BusCfg::RUN_DEFAULT,
        BusCfg { abwcr: 0xff, astcr: 0xff, wcrh: 0xff, wcrl: 0x31, drcra: 0x20 }, // a0: 8-bit 3-state 1 wait; a2: DRAM 8-bit 3 waits
        BusCfg { abwcr: 0x00, astcr: 0xff, wcrh: 0x00, wcrl: 0x13, drcra: 0x20 }, // 16-bit: a0 3+3, a2 DRAM 4+1
        BusCfg { abwcr: 0x01, astcr: 0x05, wcrh: 0x00, wcrl: 0x20, drcra: 0x00 }, // a0 8-bit 3-state 0 waits; a2 16-bit 3-state 2 waits
        BusCfg { abwcr: 0x04, astcr: 0xfa, wcrh: 0x55, wcrl: 0xff, drcra: 0x20 }, // a0 16-bit 2-state... replaced if not distinct
    ];
    let ok = |c: &BusCfg| {
        let cost = |k: Kind, a: u32| cycle_cost(k, a, c).unwrap_or(0);
        let (r, v, d) = (0xffc000u32, 0x000010u32, 0x410000u32);
        [Kind::L, Kind::M].iter().all(|&k| {
            let (x, y, z) = (cost(k, r), cost(k, v), cost(k, d));
            x != y && y != z && x != z
        })
    };
    let pickf = e.below(8) as usize;
    if pickf < fixed.len() && ok(&fixed[pickf]) {
        return fixed[pickf];
    }
    for _ in 0..16 {
        let c = BusCfg { abwcr: e.u8(), astcr: e.u8(), wcrh: e.u8(), wcrl: e.u8(), drcra: (e.below(2) as u8) << 5 };
        if ok(&c) {
            return c;
        }
    }
    fixed[1]
}

pub fn build(e: &mut Ent, src: Option<u32>) -> (StepCase, Tag) {
    let src = src.unwrap_or_else(|| e.below(12));
    let (mut case, insn) = match src {
        0..=3 => {
            let (c, i, _, _) = c01::build(e, &c01::Force::default());
            (c, i)
        }
        4 => {
            let (c, t) = alu::build(&alu::arith_forms(), e, &alu::Force::default());
            (c, t.insn)
        }
        5 => {
            let (c, t) = alu::build(&alu::logic_forms(), e, &alu::Force::default());
            (c, t.insn)
        }
        6 | 7 => {
            let (c, t) = c04::build(e, &c04::Force::default());
            (c, t.insn)
        }
        8 | 9 => {
            let (c, t) = c05::build(e, &c05::Force::default());
            (c, t.insn)
        }
        10 => {
            let k = e.pick(&[0u8, 2]);
            let (c, t) = c06::build(e, &c06::Force { kind: Some(k), ..Default::default() });
            (c, if k == 0 { Insn::Trapa(t.n) } else { Insn::Rte })
        }
        _ => {
            if e.chance(1, 4) {
                let insn = Insn::StcB { d: e.below(16) as u8 };
                let code = encode(&insn);
                let pc = e.code_addr(2, &[]);
                (StepCase { code, pc, er: e.regfile(), ccr: e.u8(), patches: vec![], bus: BusCfg::ZERO, irq: None, primer: None }, insn)
            } else {
                let (c, t) = c08::build(e, Some(6), None);
                (c, t.insn)
            }
        }
    };
    case.bus = if e.chance(3, 4) { distinct_cfg(e) } else { e.bus_cfg() };
    (case, Tag { insn })
}

fn classify(case: &StepCase, j: &Judged, t: &Tag, stats: &mut Stats) {
    if !matches!(j.step.outcome, Outcome::Ok) {
        stats.class("not executed (operand inaccessible)");
        return;
    }
    let form = t.insn.form();
    stats.class(&format!("form: {}", form));
    let code_region = Region::of(case.pc);
    let mut areas: Vec<String> = vec![];
    let mut cross = false;
    for &(k, _, a) in &j.step.cycles {
        if k == Kind::N || k == Kind::I {
            continue;
        }
        let r = Region::of(a);
        if r != code_region {
            cross = true;
        }
        areas.push(format!("{:?}@{}", k, r.map(|r| format!("{:?}", r)).unwrap_or_else(|| "other".into())));
    }
    let nondefault = case.bus != BusCfg::ZERO;
    if cross {
        stats.class("code area != operand/stack/vector area");
    }
    if cross || nondefault {
        let key = key_hash(&(form, format!("{:?}", code_region), areas, case.bus));
        stats.nontrivial(key, || json!({"case": case.brief(), "bus": format!("{:?}", case.bus), "cycles": format!("{:?}", j.step.cycles), "charged": format!("{:?}", j.emu)}));
    }
}

// ------------------------------------------------------------------ programs: charges along an execution

/// A straight-line program (plus one leaf call) whose instructions touch on-chip RAM, DRAM, the vector area and
/// now and then an I/O register, and that reprograms the bus controller on the way - with stores, as a guest does.
/// Every instruction's charge must equal the cycle table x the cost rule under the setting in force *when it
/// runs*: a charge that depends on what was costed before, or that follows a setting change late, shows here.
fn build_charge_prog(e: &mut Ent) -> (Prog, u32) {
    let code = if e.chance(1, 2) { 0xffc000 + 2 * e.below(0x200) } else { 0x420000 + 2 * e.below(0x8000) };
    let leaf = if e.chance(1, 2) { 0xffd800 + 2 * e.below(0x100) } else { 0x470000 + 2 * e.below(0x1000) };
    let stop = code + 0x700;
    let mut er = e.regfile();
    er[4] = 0xffe000 + 4 * e.below(0x100);
    er[5] = 0x500000 + 4 * e.below(0x4000);
    er[6] = 0x40 + 4 * e.below(0x20);
    er[7] = if e.chance(1, 2) { 0xffef00 } else { 0x5ff000 } | e.upper_byte();
    let mut c: Vec<u8> = vec![];
    let n = 6 + e.below(34);
    let dreg = |e: &mut Ent, sz: Sz| -> u8 {
        match sz {
            Sz::L => e.below(4) as u8,
            _ => e.below(4) as u8 + if e.chance(1, 2) { 8 } else { 0 },
        }
    };
    let mut called = false;
    for _ in 0..n {
        let p = 4 + e.below(3) as u8;
        let sz = e.pick(&[Sz::B, Sz::W, Sz::L]);
        let insn = match e.below(14) {
            0 => Insn::Load { sz, ea: Ea::Ind(p), d: dreg(e, sz) },
            1 => Insn::Store { sz, s: dreg(e, sz), ea: Ea::Ind(p) },
            2 => Insn::Load { sz, ea: Ea::D16(p, 2 * e.below(16) as u16), d: dreg(e, sz) },
            3 => Insn::Store { sz, s: dreg(e, sz), ea: Ea::D24(p, 2 * e.below(16)) },
            4 => {
                let op = e.pick(&[AluOp::Add, AluOp::Sub, AluOp::Cmp, AluOp::And, AluOp::Or, AluOp::Xor]);
                // (there is no SUB.B #imm)
                let imm = e.chance(1, 2) && !(op == AluOp::Sub && sz == Sz::B);
                Insn::Alu { op, sz, src: if imm { Src::Imm(e.val(sz)) } else { Src::Reg(dreg(e, sz)) }, d: dreg(e, sz) }
            }
            5 => Insn::Bit { op: e.pick(&[BitOp::Bset, BitOp::Bclr, BitOp::Bnot, BitOp::Btst, BitOp::Bld]), sel: BitSel::Imm(e.below(8) as u8), tgt: BitTgt::Ind(p) },
            6 => {
                // push + pop
                c.extend(encode(&Insn::Store { sz: Sz::L, s: e.below(4) as u8, ea: Ea::Pre(7) }));
                Insn::Load { sz: Sz::L, ea: Ea::Post(7), d: e.below(4) as u8 }
            }
            7 if e.chance(1, 3) => {
                // reprogram one bit of a bus-controller register with a read-modify-write bit instruction
                let reg = e.pick(&[ABWCR, ASTCR, WCRH, WCRL]);
                c.extend(encode(&Insn::MovImm { sz: Sz::L, imm: reg | e.upper_byte(), d: 3 }));
                Insn::Bit { op: e.pick(&[BitOp::Bset, BitOp::Bclr, BitOp::Bnot]), sel: BitSel::Imm(e.below(8) as u8), tgt: BitTgt::Ind(3) }
            }
            7 | 8 => {
                // reprogram one bus-controller register
                let reg = e.pick(&[ABWCR, ASTCR, WCRH, WCRL, DRCRA]);
                let v = if reg == DRCRA { ((e.below(2) as u8) << 5) | (e.u8() & 0x1f) } else if e.chance(1, 2) { e.u8() } else { 1u8 << e.below(8) };
                c.extend(encode(&Insn::MovImm { sz: Sz::B, imm: v as u32, d: 11 }));
                Insn::Store { sz: Sz::B, s: 11, ea: Ea::A24(reg) }
            }
            9 => Insn::Load { sz: Sz::B, ea: Ea::A8(e.pick(&[0xb0u8, 0xb4, 0xc8, 0x60, 0x24])), d: 10 }, // an I/O register lookup (its own charge is not constrained)
            10 if !called => {
                called = true;
                Insn::Jsr(JTarget::Abs(leaf))
            }
            11 => Insn::Load { sz, ea: Ea::A24(e.pick(&[0xffe800u32, 0x480000, 0x000080]) + 4 * e.below(8)), d: dreg(e, sz) },
            12 => Insn::Mulxu { sz: Sz::B, s: dreg(e, Sz::B), d: e.below(4) as u8 },
            _ => Insn::MovRR { sz, s: dreg(e, sz), d: dreg(e, sz) },
        };
        c.extend(encode(&insn));
    }
    c.extend(encode(&Insn::Jmp(JTarget::Abs(stop))));
    let mut lf: Vec<u8> = vec![];
    for _ in 0..1 + e.below(3) {
        lf.extend(encode(&Insn::Load { sz: Sz::W, ea: Ea::Ind(4 + e.below(3) as u8), d: e.below(4) as u8 }));
    }
    lf.extend(encode(&Insn::Rts));
    let bus = if e.chance(1, 2) { distinct_cfg(e) } else { e.bus_cfg() };
    let mut image = vec![(code, c), (leaf, lf)];
    let ccr = e.u8();
    image.extend(e.env_noise());
    (Prog { image, er, ccr, pc: code, bus }, stop)
}

/// Ok((instructions compared, setting changes, instructions after an I/O lookup)) or the violation
fn run_charge_prog(emu: &mut Emu, prog: &Prog, stop: u32) -> Result<(usize, usize, usize), String> {
    let opts = LsOpts { quirks: &[], max_steps: 200, full_dram: false, compare_memory: true };
    let mut cfg_before: Option<BusCfg> = None;
    let mut violation: Option<String> = None;
    let (mut compared, mut changes, mut after_io) = (0usize, 0usize, 0usize);
    let mut io_seen = false;
    let out = lockstep(emu, prog, &opts, &mut |v: &View| {
        let g = |a: u32| (v.peek)(a).unwrap_or(0);
        let cfg_now = BusCfg { abwcr: g(ABWCR), astcr: g(ASTCR), wcrh: g(WCRH), wcrl: g(WCRL), drcra: g(DRCRA) };
        if let (Some(step), Some(cfg)) = (v.last, cfg_before) {
            let wrote_cfg = step.accesses.iter().any(|a| a.write && (0..a.size).any(|i| is_bus_reg(a.addr + i)));
            if wrote_cfg {
                changes += 1;
            } else if matches!(step.outcome, Outcome::Ok) {
                if let Some(exp) = total_cost(&step.cycles, &cfg) {
                    compared += 1;
                    if io_seen {
                        after_io += 1;
                    }
                    if exp != v.last_states {
                        violation = Some(format!("instruction {} ({:?}) charged {} states; cycle table x cost rule under {:?} = {} ({:?})", v.idx, step.decoded.class, v.last_states, cfg, exp, step.cycles));
                        return Ctl::Stop;
                    }
                } else {
                    io_seen = true; // a cycle whose cost the statement does not define (I/O register)
                }
            }
        }
        cfg_before = Some(cfg_now);
        if v.pc == stop {
            return Ctl::Stop;
        }
        Ctl::Step
    });
    if let Some(m) = violation {
        return Err(m);
    }
    match out.end {
        End::Mismatch(m) => Err(format!("state mismatch in a charge program: {}", m)),
        _ => Ok((compared, changes, after_io)),
    }
}

pub fn run(ctx: &Ctx) -> i32 {
    if let Some(v) = &ctx.replay {
        if let Some(code) = replay_fuzz(P, v) {
            return code;
        }
        if crate::checks::soup::is_soup_replay(v) {
            return crate::checks::soup::replay(ctx, P, v);
        }
        let case = v.get("case").unwrap_or(v);
        if case.get("kind").and_then(|k| k.as_str()) == Some("charge-program") {
            let (Some(prog), Some(stop)) = (case.get("prog").and_then(Prog::from_json), case.get("stop").and_then(|s| s.as_u64())) else { return 2 };
            let mut emu = Emu::new(&ctx.base);
            return match run_charge_prog(&mut emu, &prog, stop as u32) {
                Ok(_) => {
                    println!("replay {}: passes", P);
                    0
                }
                Err(m) => {
                    let f = Failure { signature: "charge program".into(), detail: m, case: case.clone() };
                    let p = write_replay(P, &f);
                    println!("VIOLATION property={} replay={}", P, p.display());
                    println!("  detail: {}", f.detail);
                    1
                }
            };
        }
        return replay_step(ctx, P, v);
    }
    let tier = ctx.tier;
    let enumerated = |emit: &mut dyn FnMut(&str, Builder<Tag>)| {
        // every MOV form / bit form / flow kind / arithmetic + logic form, several placements and settings each
        let reps = tier.pick(64, 2000);
        for fi in 0..c01::forms().len() {
            for _ in 0..reps {
                emit("every MOV form x placements x settings", &|e| {
                    let (mut c, i, _, _) = c01::build(e, &c01::Force { form: Some(fi), ..Default::default() });
                    c.bus = distinct_cfg(e);
                    (c, Tag { insn: i })
                });
            }
        }
        for fi in 0..c04::forms().len() {
            for _ in 0..reps {
                emit("every bit-instruction form x placements x settings", &|e| {
                    let (mut c, t) = c04::build(e, &c04::Force { form: Some(fi), ..Default::default() });
                    c.bus = distinct_cfg(e);
                    (c, Tag { insn: t.insn })
                });
            }
        }
        for k in 0..c05::KINDS.len() {
            for _ in 0..reps * 4 {
                emit("every branch/jump/call/return form x placements x settings", &|e| {
                    let (mut c, t) = c05::build(e, &c05::Force { kind: Some(k), ..Default::default() });
                    c.bus = distinct_cfg(e);
                    (c, Tag { insn: t.insn })
                });
            }
        }
        for (which, n) in [(0usize, alu::arith_forms().len()), (1, alu::logic_forms().len())] {
            for fi in 0..n {
                for _ in 0..reps / 4 {
                    emit("every arithmetic/logic form x settings", &|e| {
                        let forms = if which == 0 { alu::arith_forms() } else { alu::logic_forms() };
                        let (mut c, t) = alu::build(&forms, e, &alu::Force { form: Some(fi), ..Default::default() });
                        c.bus = distinct_cfg(e);
                        (c, Tag { insn: t.insn })
                    });
                }
            }
        }
    };
    let stats = Drive {
        ctx,
        property: P,
        aspects: Aspects::CHARGE,
        salt: 0x2001_0000,
        nshards: 64,
        enumerated: &enumerated,
        random_cases: tier.pick(4_000_000, 240_000_000),
        build_random: &|e| build(e, None),
        classify: &|c, j, t: &Tag, s| classify(c, j, t, s),
        all_quirks: true,
    }
    .run();
    let mut stats = stats;
    // phase 2: charges along generated programs
    let np: u32 = tier.pick(60_000, 2_000_000);
    let pstats = par_shards(ctx, 32, |shard| {
        let w = Worker::new(ctx);
        let ent = entropy_n(400);
        let _ = run_prop(mix(ctx.seed, 0x2002_0000 + shard as u64), np / 32, &ent, |raw, shrinking| {
            let (prog, stop) = build_charge_prog(&mut Ent::new(raw));
            let r = run_charge_prog(&mut w.emu.borrow_mut(), &prog, stop);
            let mut st = w.stats.borrow_mut();
            match r {
                Ok((compared, changes, after_io)) => {
                    if !shrinking {
                        st.evaluations += 1;
                        st.class("program: charges compared along an execution");
                        st.class_n("program: instructions whose charge was compared", compared as u64);
                        st.class_n("program: bus-controller registers rewritten by the guest", changes as u64);
                        st.class_n("program: instructions compared after an I/O-register lookup", after_io as u64);
                        if changes > 0 || after_io > 0 {
                            st.nontrivial(key_hash(&format!("{:?}", prog.image)), || json!({"program": true, "instructions": compared, "setting_changes": changes, "after_io": after_io, "bus": format!("{:?}", prog.bus)}));
                        }
                    }
                    Ok(())
                }
                Err(m) => {
                    let sig = format!("charge program | {}", fail_field(&m.replace(|c: char| c.is_ascii_digit(), "")));
                    let f = Failure { signature: sig.clone(), detail: m, case: json!({"kind": "charge-program", "prog": prog.to_json(), "stop": stop}) };
                    if ctx.survey {
                        if !shrinking {
                            st.survey_fail(f);
                        }
                        Ok(())
                    } else {
                        st.failures.clear();
                        st.fail(f);
                        Err(sig)
                    }
                }
            }
        });
        w.stats.into_inner()
    });
    stats.merge(pstats);
    let rule = "cases = every implemented instruction form (all MOV forms, arithmetic, logic/shift, bit instructions, branches/jumps/calls/returns, TRAPA #1-3, RTE, STC) with code in on-chip RAM or DRAM, operands / stack / vectors in on-chip RAM, DRAM and the vector area (incl. first and last addresses), under bus-controller settings constructed so that on-chip RAM, area 0 and area 2 cost pairwise different amounts for byte and word cycles (plus the run-loop default and random settings); operand values vary freely (value independence). Oracle = sum over the reference's advanced-mode cycle table (DESIGN Appendix A) of count x cost(kind, address actually accessed). Non-trivial = code area differs from the operand/stack/vector area, or the setting is not all-zero; distinct by (form, code area, cycle areas, setting). Phase 2: generated programs of 6-40 instructions (loads/stores/bit operations through pointers into on-chip RAM, DRAM and the vector area, push/pop, one leaf call, I/O-register lookups, and stores that reprogram single bus-controller registers on the way) run in lockstep with the reference; every instruction is charged cycle table x cost rule under the setting in force when it runs (history-dependent or late-following charges).";
    let mut extra = Map::new();
    extra.insert("excluded".into(), json!(["operands in the on-chip I/O register ranges (documented TODO)", "TRAPA #0 (serviced by the emulator, not an architectural instruction)", "interrupt acceptance (not charged by the run loop)"]));
    if tier == Tier::Thorough {
        fuzz_campaign(ctx, "fuzz_prog", 8, 300_000, 136, &mut stats);
    }
    stats.merge(crate::checks::soup::phase(ctx, P, crate::checks::soup::Flavor::All, ctx.tier.pick(300000, 6000000), 0x20510000, true));
    // the same with interrupts accepted between the instructions (their own entry is not charged by anything - but
    // what an instruction is charged must not depend on what happened before it: "only on instruction form and on
    // the areas involved")
    stats.merge(crate::checks::soup::phase_irq(ctx, P, crate::checks::soup::Flavor::All, ctx.tier.pick(150000, 3000000), 0x20520000, true, true));
    let rule_soup = format!("{}{} Phase 4: the soups again with interrupts accepted at generated instruction boundaries (every vector its own RTE stub): the charge of every instruction after an acceptance is compared as before.", rule, crate::checks::soup::RULE);
    let rule: &str = &rule_soup;
    finish(ctx, P, stats, rule, vec!["cycle table transcribed from the H8/300H programming manual's advanced-mode table (DESIGN Appendix A); cost rule = property C19's statement, re-implemented independently".into()], extra)
}
