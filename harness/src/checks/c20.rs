//! C20 - each instruction is charged the manual's bus-cycle mix at the areas it touches.

use super::common::*;
use super::driver::*;
use super::{alu, c01, c04, c05, c06, c08};
use crate::engine::run::*;
use crate::engine::stats::*;
use crate::engine::stepcase::*;
use crate::gen::*;
use crate::refmodel::exec::{cycle_cost, BusCfg, Kind, Outcome};
use crate::refmodel::insn::*;
use serde_json::{json, Map};

const P: &str = "C20";

#[derive(Clone, Debug)]
pub struct Tag {
    pub insn: Insn,
}

/// a bus-controller setting under which on-chip RAM, area 0 (vector area) and area 2 (DRAM) cost
/// pairwise different amounts for byte cycles and for word-sized cycles
pub fn distinct_cfg(e: &mut Ent) -> BusCfg {
    let fixed = [
        BusCfg::RUN_DEFAULT,
        BusCfg { abwcr: 0xff, astcr: 0xff, wcrh: 0xff, wcrl: 0x31, drcra: 0x20 }, // a0: 8-bit 3-state 1 wait; a2: DRAM 8-bit 3 waits
        BusCfg { abwcr: 0x00, astcr: 0xff, wcrh: 0x00, wcrl: 0x13, drcra: 0x20 }, // 16-bit: a0 3+3, a2 DRAM 4+1
        BusCfg { abwcr: 0x01, astcr: 0x05, wcrh: 0x00, wcrl: 0x20, drcra: 0x00 }, // a0 8-bit 3-state 0 waits; a2 16-bit 3-state 2 waits
        BusCfg { abwcr: 0x04, astcr: 0xfa, wcrh: 0x55, wcrl: 0xff, drcra: 0x20 }, // a0 16-bit 2-state... replaced if not distinct
    ];
    let ok = |c: &BusCfg| {
        let cost = |k: Kind, a: u32| cycle_cost(k, a, c).unwrap_or(0);
        let (r, v, d) = (0xffc000u32, 0x000010u32, 0x410000u32);
        [Kind::L, Kind::M].iter().all(|&k| {
            let (x, y, z) = (cost(k, r), cost(k, v), cost(k, d));
            x != y && y != z && x != z
        })
    };
    let pickf = e.below(8) as usize;
    if pickf < fixed.len() && ok(&fixed[pickf]) {
        return fixed[pickf];
    }
    for _ in 0..16 {
        let c = BusCfg { abwcr: e.u8(), astcr: e.u8(), wcrh: e.u8(), wcrl: e.u8(), drcra: (e.below(2) as u8) << 5 };
        if ok(&c) {
            return c;
        }
    }
    fixed[1]
}

pub fn build(e: &mut Ent, src: Option<u32>) -> (StepCase, Tag) {
    let src = src.unwrap_or_else(|| e.below(12));
    let (mut case, insn) = match src {
        0..=3 => {
            let (c, i, _, _) = c01::build(e, &c01::Force::default());
            (c, i)
        }
        4 => {
            let (c, t) = alu::build(&alu::arith_forms(), e, &alu::Force::default());
            (c, t.insn)
        }
        5 => {
            let (c, t) = alu::build(&alu::logic_forms(), e, &alu::Force::default());
            (c, t.insn)
        }
        6 | 7 => {
            let (c, t) = c04::build(e, &c04::Force::default());
            (c, t.insn)
        }
        8 | 9 => {
            let (c, t) = c05::build(e, &c05::Force::default());
            (c, t.insn)
        }
        10 => {
            let k = e.pick(&[0u8, 2]);
            let (c, t) = c06::build(e, &c06::Force { kind: Some(k), ..Default::default() });
            (c, if k == 0 { Insn::Trapa(t.n) } else { Insn::Rte })
        }
        _ => {
            if e.chance(1, 4) {
                let insn = Insn::StcB { d: e.below(16) as u8 };
                let code = encode(&insn);
                let pc = e.code_addr(2, &[]);
                (StepCase { code, pc, er: e.regfile(), ccr: e.u8(), patches: vec![], bus: BusCfg::ZERO, irq: None }, insn)
            } else {
                let (c, t) = c08::build(e, Some(6), None);
                (c, t.insn)
            }
        }
    };
    case.bus = if e.chance(3, 4) { distinct_cfg(e) } else { e.bus_cfg() };
    (case, Tag { insn })
}

fn classify(case: &StepCase, j: &Judged, t: &Tag, stats: &mut Stats) {
    if !matches!(j.step.outcome, Outcome::Ok) {
        stats.class("not executed (operand inaccessible)");
        return;
    }
    let form = t.insn.form();
    stats.class(&format!("form: {}", form));
    let code_region = Region::of(case.pc);
    let mut areas: Vec<String> = vec![];
    let mut cross = false;
    for &(k, _, a) in &j.step.cycles {
        if k == Kind::N || k == Kind::I {
            continue;
        }
        let r = Region::of(a);
        if r != code_region {
            cross = true;
        }
        areas.push(format!("{:?}@{}", k, r.map(|r| format!("{:?}", r)).unwrap_or_else(|| "other".into())));
    }
    let nondefault = case.bus != BusCfg::ZERO;
    if cross {
        stats.class("code area != operand/stack/vector area");
    }
    if cross || nondefault {
        let key = key_hash(&(form, format!("{:?}", code_region), areas, case.bus));
        stats.nontrivial(key, || json!({"case": case.brief(), "bus": format!("{:?}", case.bus), "cycles": format!("{:?}", j.step.cycles), "charged": format!("{:?}", j.emu)}));
    }
}

pub fn run(ctx: &Ctx) -> i32 {
    if let Some(v) = &ctx.replay {
        return replay_step(ctx, P, v);
    }
    let tier = ctx.tier;
    let enumerated = |emit: &mut dyn FnMut(&str, Builder<Tag>)| {
        // every MOV form / bit form / flow kind / arithmetic + logic form, several placements and settings each
        let reps = tier.pick(64, 2000);
        for fi in 0..c01::forms().len() {
            for _ in 0..reps {
                emit("every MOV form x placements x settings", &|e| {
                    let (mut c, i, _, _) = c01::build(e, &c01::Force { form: Some(fi), ..Default::default() });
                    c.bus = distinct_cfg(e);
                    (c, Tag { insn: i })
                });
            }
        }
        for fi in 0..c04::forms().len() {
            for _ in 0..reps {
                emit("every bit-instruction form x placements x settings", &|e| {
                    let (mut c, t) = c04::build(e, &c04::Force { form: Some(fi), ..Default::default() });
                    c.bus = distinct_cfg(e);
                    (c, Tag { insn: t.insn })
                });
            }
        }
        for k in 0..c05::KINDS.len() {
            for _ in 0..reps * 4 {
                emit("every branch/jump/call/return form x placements x settings", &|e| {
                    let (mut c, t) = c05::build(e, &c05::Force { kind: Some(k), ..Default::default() });
                    c.bus = distinct_cfg(e);
                    (c, Tag { insn: t.insn })
                });
            }
        }
        for (which, n) in [(0usize, alu::arith_forms().len()), (1, alu::logic_forms().len())] {
            for fi in 0..n {
                for _ in 0..reps / 4 {
                    emit("every arithmetic/logic form x settings", &|e| {
                        let forms = if which == 0 { alu::arith_forms() } else { alu::logic_forms() };
                        let (mut c, t) = alu::build(&forms, e, &alu::Force { form: Some(fi), ..Default::default() });
                        c.bus = distinct_cfg(e);
                        (c, Tag { insn: t.insn })
                    });
                }
            }
        }
    };
    let stats = Drive {
        ctx,
        property: P,
        aspects: Aspects::CHARGE,
        salt: 0x2001_0000,
        nshards: 64,
        enumerated: &enumerated,
        random_cases: tier.pick(4_000_000, 60_000_000),
        build_random: &|e| build(e, None),
        classify: &|c, j, t: &Tag, s| classify(c, j, t, s),
        all_quirks: true,
    }
    .run();
    let rule = "cases = every implemented instruction form (all MOV forms, arithmetic, logic/shift, bit instructions, branches/jumps/calls/returns, TRAPA #1-3, RTE, STC) with code in on-chip RAM or DRAM, operands / stack / vectors in on-chip RAM, DRAM and the vector area (incl. first and last addresses), under bus-controller settings constructed so that on-chip RAM, area 0 and area 2 cost pairwise different amounts for byte and word cycles (plus the run-loop default and random settings); operand values vary freely (value independence). Oracle = sum over the reference's advanced-mode cycle table (DESIGN Appendix A) of count x cost(kind, address actually accessed). Non-trivial = code area differs from the operand/stack/vector area, or the setting is not all-zero; distinct by (form, code area, cycle areas, setting).";
    let mut extra = Map::new();
    extra.insert("excluded".into(), json!(["operands in the on-chip I/O register ranges (documented TODO)", "TRAPA #0 (serviced by the emulator, not an architectural instruction)", "interrupt acceptance (not charged by the run loop)"]));
    finish(ctx, P, stats, rule, vec!["cycle table transcribed from the H8/300H programming manual's advanced-mode table (DESIGN Appendix A); cost rule = property C19's statement, re-implemented independently".into()], extra)
}
