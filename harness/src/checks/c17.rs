//! C17 - the 8-bit timer counts elapsed states exactly; flags and interrupts fire once.

use crate::cpu::verif_hooks as hooks;
use crate::engine::emu::*;
use crate::engine::run::*;
use crate::engine::stats::*;
use crate::gen::*;
use serde_json::{json, Map, Value};

const P: &str = "C17";

pub const TCR: u32 = 0xffff80;
pub const TCSR: u32 = 0xffff82;
pub const TCORA: u32 = 0xffff84;
pub const TCORB: u32 = 0xffff86;
pub const TCNT: u32 = 0xffff88;

#[derive(Clone, Copy, Debug, PartialEq, Eq, Hash)]
pub enum Op {
    /// `n` states elapse (one instruction's charge, 1-255), delivered through update_modules
    Elapse(u8),
    Tcr(u8),
    Tcnt(u8),
    Tcora(u8),
    Tcorb(u8),
    /// CPU clears the flags selected by the mask (bits 7-5) and writes `low` to the other bits
    ClearFlags(u8, u8),
    /// CPU writes a register of *another* 8-bit timer channel (1, 2, 3): nothing of channel 0 may change
    Other(u8, u8),
    /// CPU writes an address that only *looks* like one of channel 0's registers to a sloppy decoder (register
    /// address + k x 2^8 / 2^16 / 2^24, or with one of the bits 8-31 flipped): refused or stored elsewhere,
    /// nothing of channel 0 may change
    Stray(u32, u8),
}

/// registers of the 8-bit timer channels 1-3 (same block, interleaved with channel 0's)
pub const OTHER_REGS: [u32; 15] = [0xffff81, 0xffff83, 0xffff85, 0xffff87, 0xffff89, 0xffff90, 0xffff91, 0xffff92, 0xffff93, 0xffff94, 0xffff95, 0xffff96, 0xffff97, 0xffff98, 0xffff99];

#[derive(Clone, Debug, PartialEq, Eq)]
pub struct Obs {
    pub tcnt: u8,
    pub tcsr: u8,
    /// interrupt requests raised by this op, sorted
    pub irqs: Vec<u8>,
}

fn divisor(cks: u8) -> u32 {
    match cks & 7 {
        1 => 8,
        2 => 64,
        3 => 8192,
        _ => 0,
    }
}

const HANDLER_BASE: u32 = 0xffc000;
const SCRATCH_SP: u32 = 0xffe800;

/// drain the pending interrupt requests through the real poll; returns the vectors entered
fn drain_irqs(emu: &mut Emu) -> Result<Vec<u8>, String> {
    let mut out = vec![];
    let mut guard = 0;
    while hooks::pending_interrupts(&emu.cpu) > 0 {
        emu.set_ccr(0);
        emu.cpu.er[7] = SCRATCH_SP;
        emu.set_pc(0xffd000);
        match emu.try_interrupt() {
            EmuResult::Ok(_) => {}
            other => return Err(format!("interrupt poll failed: {:?}", other)),
        }
        let pc = emu.pc();
        if pc >= HANDLER_BASE + 0x10 && pc < HANDLER_BASE + 0x400 && (pc - HANDLER_BASE) % 0x10 == 0 {
            out.push(((pc - HANDLER_BASE) / 0x10) as u8);
        } else {
            return Err(format!("interrupt poll with a pending request did not enter a handler (PC {:06x})", pc));
        }
        guard += 1;
        if guard > 100_000 {
            return Err("more than 100000 pending requests".into());
        }
    }
    out.sort();
    Ok(out)
}

pub fn prepare(emu: &mut Emu) {
    hooks::reset_modules(&mut emu.cpu);
    for v in 1..64u32 {
        let h = HANDLER_BASE + 0x10 * v;
        for (i, b) in [0u8, (h >> 16) as u8, (h >> 8) as u8, h as u8].iter().enumerate() {
            raw_set(&mut emu.cpu.bus, 4 * v + i as u32, *b);
        }
    }
    for a in [TCR, TCSR, TCORA, TCORB, TCNT] {
        raw_set(&mut emu.cpu.bus, a, 0);
    }
    let _ = drain_irqs(emu);
}

pub fn cleanup(emu: &mut Emu) {
    let _ = drain_irqs(emu);
    hooks::reset_modules(&mut emu.cpu);
    for v in 1..64u32 {
        for i in 0..4 {
            raw_set(&mut emu.cpu.bus, 4 * v + i, baseline_byte(4 * v + i));
        }
    }
    for a in [TCR, TCSR, TCORA, TCORB, TCNT] {
        raw_set(&mut emu.cpu.bus, a, 0);
    }
    for a in OTHER_REGS {
        raw_set(&mut emu.cpu.bus, a, baseline_byte(a));
    }
    for i in 0..8u32 {
        raw_set(&mut emu.cpu.bus, SCRATCH_SP - 4 + i, baseline_byte(SCRATCH_SP - 4 + i));
    }
}

/// execute the history on the emulator (fresh timer), one observation per op
const SCRATCH_CODE: u32 = 0xffd100;

/// one CPU byte store: through the bus (`via` 0) or as a real MOV.B R0L,<ea> instruction (1 @aa:8, 2 @aa:16,
/// 3 @aa:24, 4 @ER1) - how a guest reaches the registers
fn cpu_store(emu: &mut Emu, addr: u32, v: u8, via: u8) -> Result<(), String> {
    use crate::refmodel::insn::{encode, Ea, Insn, Sz};
    let ea = match via {
        0 => return emu.cpu.bus.write(addr, v).map_err(|e| e.to_string()),
        1 if addr >= 0xffff00 => Ea::A8(addr as u8),
        2 if addr >= 0xff8000 => Ea::A16(addr as u16),
        4 => Ea::Ind(1),
        _ => Ea::A24(addr),
    };
    let code = encode(&Insn::Store { sz: Sz::B, s: 8, ea });
    for (i, b) in code.iter().enumerate() {
        raw_set(&mut emu.cpu.bus, SCRATCH_CODE + i as u32, *b);
    }
    emu.cpu.er = [v as u32, addr, 0, 0, 0, 0, 0, SCRATCH_SP];
    emu.set_pc(SCRATCH_CODE);
    emu.set_ccr(0x80);
    match emu.step() {
        EmuResult::Ok(_) => Ok(()),
        other => Err(format!("MOV.B R0L,{:?} failed: {:?}", ea, other)),
    }
}

pub fn execute(emu: &mut Emu, ops: &[Op]) -> Result<Vec<Obs>, String> {
    execute_via(emu, ops, false)
}

/// `insns`: register writes are performed by guest instructions (addressing mode rotating with the op index)
pub fn execute_via(emu: &mut Emu, ops: &[Op], insns: bool) -> Result<Vec<Obs>, String> {
    prepare(emu);
    let mut out = Vec::with_capacity(ops.len());
    let via = |i: usize| if insns { 1 + (i % 4) as u8 } else { 0 };
    let mut undo: Vec<(u32, u8)> = vec![];
    for (i, op) in ops.iter().enumerate() {
        let r = match *op {
            Op::Elapse(n) => {
                let cpu = &mut emu.cpu;
                match guarded(|| hooks::update_modules(cpu, n)) {
                    Ok(Ok(())) => Ok(()),
                    Ok(Err(e)) => Err(e.to_string()),
                    Err(p) => Err(format!("panic: {}", p)),
                }
            }
            Op::Tcr(v) => cpu_store(emu, TCR, v, via(i)),
            Op::Tcnt(v) => cpu_store(emu, TCNT, v, via(i)),
            Op::Tcora(v) => cpu_store(emu, TCORA, v, via(i)),
            Op::Tcorb(v) => cpu_store(emu, TCORB, v, via(i)),
            Op::ClearFlags(mask, low) => {
                let cur = emu.cpu.bus.read(TCSR).map_err(|e| e.to_string())?;
                let fin = (cur & 0xe0 & !mask) | (low & 0x1f);
                if insns {
                    // the way guests acknowledge: one BCLR #bit,@TCSR:8 (read-modify-write) per flag, then the other
                    // bits with a byte store if they differ
                    use crate::refmodel::insn::{encode, BitOp, BitSel, BitTgt, Insn};
                    let mut r = Ok(());
                    for b in [5u8, 6, 7] {
                        if mask & (1 << b) != 0 && r.is_ok() {
                            let code = encode(&Insn::Bit { op: BitOp::Bclr, sel: BitSel::Imm(b), tgt: BitTgt::A8(TCSR as u8) });
                            for (k, x) in code.iter().enumerate() {
                                raw_set(&mut emu.cpu.bus, SCRATCH_CODE + k as u32, *x);
                            }
                            emu.cpu.er = [0, 0, 0, 0, 0, 0, 0, SCRATCH_SP];
                            emu.set_pc(SCRATCH_CODE);
                            emu.set_ccr(0x80);
                            if let other @ (EmuResult::Err(_) | EmuResult::Panic(_)) = emu.step() {
                                r = Err(format!("BCLR #{},@TCSR failed: {:?}", b, other));
                            }
                        }
                    }
                    let now = emu.cpu.bus.read(TCSR).map_err(|e| e.to_string())?;
                    if r.is_ok() && now != fin {
                        r = cpu_store(emu, TCSR, fin, via(i));
                    }
                    r
                } else {
                    cpu_store(emu, TCSR, fin, via(i))
                }
            }
            Op::Other(k, v) => cpu_store(emu, OTHER_REGS[k as usize % OTHER_REGS.len()], v, via(i)),
            Op::Stray(a, v) => {
                if let Some(old) = raw_get(&emu.cpu.bus, a) {
                    undo.push((a, old));
                }
                let _ = emu.cpu.bus.write(a, v);
                Ok(())
            }
        };
        if let Err(e) = r {
            return Err(format!("op {} {:?} failed: {}", i, op, e));
        }
        let irqs = drain_irqs(emu)?;
        out.push(Obs { tcnt: emu.cpu.bus.read(TCNT).map_err(|e| e.to_string())?, tcsr: emu.cpu.bus.read(TCSR).map_err(|e| e.to_string())?, irqs });
    }
    for (a, old) in undo.into_iter().rev() {
        raw_set(&mut emu.cpu.bus, a, old);
    }
    for k in 0..8 {
        raw_set(&mut emu.cpu.bus, SCRATCH_CODE + k, baseline_byte(SCRATCH_CODE + k));
    }
    Ok(out)
}

/// One class of candidate phases: all residues r in [lo, hi] (states counted since the last tick
/// boundary) that lead to the same visible timer state.
#[derive(Clone, Debug, PartialEq, Eq)]
struct Cand {
    lo: u32,
    hi: u32,
    tcnt: u8,
    /// delayed-clear variant only: a compare match selected as clear source happened on the last
    /// tick, the counter is cleared by the next one
    clear_pending: bool,
}

#[derive(Clone, Debug)]
pub struct Model {
    tcr: u8,
    tcora: u8,
    tcorb: u8,
    tcsr: u8,
    cands: Vec<Cand>,
    /// counter-clear happens on the matching tick itself (true) or on the following tick (false);
    /// both readings of "TCNT is cleared by the compare match" are accepted, constant per history
    immediate_clear: bool,
    pub ticks: u64,
    pub events: u64,
}

impl Model {
    fn new(immediate_clear: bool) -> Model {
        Model { tcr: 0, tcora: 0, tcorb: 0, tcsr: 0, cands: vec![Cand { lo: 0, hi: 0, tcnt: 0, clear_pending: false }], immediate_clear, ticks: 0, events: 0 }
    }
    /// run `k` ticks from (tcnt, tcsr); returns (tcnt, tcsr, irqs, clear_pending)
    fn run_ticks(&self, mut tcnt: u8, mut tcsr: u8, mut pending: bool, k: u32) -> (u8, u8, Vec<u8>, bool) {
        let mut irqs = vec![];
        let cclr = (self.tcr >> 3) & 3;
        for _ in 0..k {
            let (mut t, ovf) = if pending { (0u8, false) } else { tcnt.overflowing_add(1) };
            pending = false;
            if t == self.tcora {
                tcsr |= 0x40;
                if self.tcr & 0x40 != 0 {
                    irqs.push(36);
                }
                if cclr == 1 {
                    if self.immediate_clear {
                        t = 0;
                    } else {
                        pending = true;
                    }
                }
            }
            if t == self.tcorb {
                tcsr |= 0x80;
                if self.tcr & 0x80 != 0 {
                    irqs.push(37);
                }
                if cclr == 2 {
                    if self.immediate_clear {
                        t = 0;
                    } else {
                        pending = true;
                    }
                }
            }
            if ovf {
                tcsr |= 0x20;
                if self.tcr & 0x20 != 0 {
                    irqs.push(39);
                }
            }
            tcnt = t;
        }
        irqs.sort();
        (tcnt, tcsr, irqs, pending)
    }

    /// apply one op and filter the candidates by the observation; Err when no candidate explains it
    fn step(&mut self, op: &Op, obs: &Obs) -> Result<(), String> {
        match *op {
            Op::Elapse(n) => {
                let div = divisor(self.tcr);
                if div == 0 {
                    // no clock selected: nothing may count
                    let ok = self.cands.iter().any(|c| c.tcnt == obs.tcnt) && obs.tcsr == self.tcsr && obs.irqs.is_empty();
                    if !ok {
                        return Err(format!("no clock selected but the timer changed: TCNT {:02x} TCSR {:02x} irqs {:?} (before: TCSR {:02x})", obs.tcnt, obs.tcsr, obs.irqs, self.tcsr));
                    }
                    self.cands.retain(|c| c.tcnt == obs.tcnt);
                    return Ok(());
                }
                let n = n as u32;
                let mut next: Vec<Cand> = vec![];
                let mut new_tcsr = None;
                let mut tick_count = 0;
                for c in &self.cands {
                    // residues r in [lo,hi]: ticks = (r+n)/div, which takes at most two consecutive values
                    let k_lo = (c.lo + n) / div;
                    let k_hi = (c.hi + n) / div;
                    for k in k_lo..=k_hi {
                        // sub-interval of residues with exactly k ticks
                        let r_min = (k * div).saturating_sub(n).max(c.lo);
                        let r_max = ((k + 1) * div - 1).saturating_sub(n).min(c.hi);
                        if r_min > r_max {
                            continue;
                        }
                        let (tcnt, tcsr, irqs, pending) = self.run_ticks(c.tcnt, self.tcsr, c.clear_pending, k);
                        if tcnt == obs.tcnt && tcsr == obs.tcsr && irqs == obs.irqs {
                            new_tcsr = Some(tcsr);
                            tick_count = k;
                            next.push(Cand { lo: (r_min + n) % div, hi: (r_max + n) % div, tcnt, clear_pending: pending });
                        }
                    }
                }
                if next.is_empty() {
                    let expect: Vec<String> = self
                        .cands
                        .iter()
                        .flat_map(|c| {
                            let k_lo = (c.lo + n) / div;
                            let k_hi = (c.hi + n) / div;
                            (k_lo..=k_hi).map(move |k| (c.clone(), k))
                        })
                        .map(|(c, k)| {
                            let (t, s, i, _) = self.run_ticks(c.tcnt, self.tcsr, c.clear_pending, k);
                            format!("{} ticks -> TCNT {:02x} TCSR {:02x} irqs {:?}", k, t, s, i)
                        })
                        .collect();
                    return Err(format!(
                        "after {} states at /{}: TCNT {:02x} TCSR {:02x} irqs {:?}; no constant phase explains it (possible: {})",
                        n,
                        div,
                        obs.tcnt,
                        obs.tcsr,
                        obs.irqs,
                        expect.join(" | ")
                    ));
                }
                self.ticks += tick_count as u64;
                if obs.tcsr != self.tcsr || !obs.irqs.is_empty() {
                    self.events += 1;
                }
                self.tcsr = new_tcsr.unwrap();
                next.dedup();
                self.cands = next;
                Ok(())
            }
            Op::Tcr(v) => {
                let (old_div, new_div) = (divisor(self.tcr), divisor(v));
                self.tcr = v;
                if new_div != old_div {
                    // a clock was (re)selected: the phase is an unknown constant 0 <= p < divisor
                    let tcnts: Vec<(u8, bool)> = {
                        let mut t: Vec<(u8, bool)> = self.cands.iter().map(|c| (c.tcnt, c.clear_pending)).collect();
                        t.sort();
                        t.dedup();
                        t
                    };
                    self.cands = tcnts.into_iter().map(|(tcnt, cp)| Cand { lo: 0, hi: new_div.max(1) - 1, tcnt, clear_pending: cp }).collect();
                }
                self.expect_regs(op, obs)
            }
            Op::Tcnt(v) => {
                for c in self.cands.iter_mut() {
                    c.tcnt = v;
                    c.clear_pending = false;
                }
                self.cands.dedup();
                self.expect_regs(op, obs)
            }
            Op::Tcora(v) => {
                self.tcora = v;
                self.expect_regs(op, obs)
            }
            Op::Tcorb(v) => {
                self.tcorb = v;
                self.expect_regs(op, obs)
            }
            Op::ClearFlags(mask, low) => {
                self.tcsr = (self.tcsr & 0xe0 & !mask) | (low & 0x1f);
                self.expect_regs(op, obs)
            }
            Op::Other(..) | Op::Stray(..) => self.expect_regs(op, obs),
        }
    }
    fn expect_regs(&mut self, op: &Op, obs: &Obs) -> Result<(), String> {
        if obs.tcsr != self.tcsr || !obs.irqs.is_empty() || !self.cands.iter().any(|c| c.tcnt == obs.tcnt) {
            return Err(format!("{:?}: a register write changed the timer: TCNT {:02x} TCSR {:02x} irqs {:?} (expected TCSR {:02x}, TCNT one of {:02x?})", op, obs.tcnt, obs.tcsr, obs.irqs, self.tcsr, self.cands.iter().map(|c| c.tcnt).collect::<Vec<_>>()));
        }
        self.cands.retain(|c| c.tcnt == obs.tcnt);
        Ok(())
    }
    fn residues(&self) -> Vec<(u32, u32)> {
        self.cands.iter().map(|c| (c.lo, c.hi)).collect()
    }
}

/// check one observed history against the model (either clear-timing reading); Ok(model) if explained
pub fn check(ops: &[Op], obs: &[Obs]) -> Result<Model, String> {
    let mut first_err = None;
    for immediate in [true, false] {
        let mut m = Model::new(immediate);
        let mut ok = true;
        for (i, (op, o)) in ops.iter().zip(obs.iter()).enumerate() {
            if let Err(e) = m.step(op, o) {
                if first_err.is_none() {
                    first_err = Some(format!("op {} {:?}: {}", i, op, e));
                }
                ok = false;
                break;
            }
        }
        if ok {
            return Ok(m);
        }
    }
    Err(first_err.unwrap())
}

// ---------------------------------------------------------------------------------------------

fn build_history(e: &mut Ent) -> Vec<Op> {
    let long = e.chance(1, 3);
    let n = 1 + e.below(if long { 300 } else { 40 }) as usize;
    let mut ops: Vec<Op> = vec![];
    // running knowledge needed to construct the precondition (TCORA != TCORB, both non-zero when a
    // compare-match clear source is selected)
    let (mut tcr, mut ta, mut tb) = (0u8, 0u8, 0u8);
    let fix = |ops: &mut Vec<Op>, tcr: u8, ta: &mut u8, tb: &mut u8, e: &mut Ent| {
        let cclr = (tcr >> 3) & 3;
        if cclr == 1 || cclr == 2 {
            if *ta == 0 {
                *ta = 1 + e.below(255) as u8;
                ops.push(Op::Tcora(*ta));
            }
            if *tb == 0 || *tb == *ta {
                *tb = 1 + e.below(255) as u8;
                if *tb == *ta {
                    *tb = if *ta == 255 { 1 } else { *ta + 1 };
                }
                ops.push(Op::Tcorb(*tb));
            }
        }
    };
    // most histories start by programming the compare registers and a clock
    let style = e.below(5);
    let n = if style == 4 { 200 + e.below(100) as usize } else { n };
    if style == 4 {
        // a long run at /8192 (needs dozens of maximal charges per tick)
        let v = (e.u8() & 0xe0) | 3;
        tcr = v;
        ops.push(Op::Tcnt(e.pick(&[0xfdu8, 0xfe, 0x00, 0x7f])));
        ops.push(Op::Tcora(e.pick(&[0xffu8, 0x00, 0x01, 0x80])));
        ops.push(Op::Tcr(v));
    }
    for _ in 0..n {
        let sel = if style == 4 && !e.chance(1, 24) { 0 } else { e.below(16) };
        match sel {
            0..=8 => {
                let s = match style {
                    0 => 1 + e.below(6) as u8, // tiny charges
                    1 | 4 => 255,              // maximal charges (long /8192 runs)
                    _ => 1 + e.below(255) as u8,
                };
                ops.push(Op::Elapse(s));
            }
            9 | 10 => {
                let cks = e.pick(&[0u8, 1, 1, 2, 2, 3, 3, 3]);
                let v = (e.u8() & 0xf8) | cks;
                // establish the precondition *before* the clear source becomes active
                fix(&mut ops, v, &mut ta, &mut tb, e);
                tcr = v;
                ops.push(Op::Tcr(v));
            }
            11 => ops.push(Op::Tcnt(match e.below(3) {
                0 => e.pick(&[0u8, 0xff, 0xfe, 1]),
                _ => e.u8(),
            })),
            12 => {
                let mut v = if e.chance(1, 2) { e.below(16) as u8 } else { e.u8() };
                let cclr = (tcr >> 3) & 3;
                if cclr == 1 || cclr == 2 {
                    if v == 0 {
                        v = 1;
                    }
                    if v == tb {
                        v = if v == 255 { 1 } else { v + 1 };
                    }
                }
                ta = v;
                ops.push(Op::Tcora(v));
            }
            13 => {
                let mut v = if e.chance(1, 2) { e.below(16) as u8 } else { e.u8() };
                let cclr = (tcr >> 3) & 3;
                if cclr == 1 || cclr == 2 {
                    if v == 0 {
                        v = 2;
                    }
                    if v == ta {
                        v = if v == 255 { 1 } else { v + 1 };
                    }
                }
                tb = v;
                ops.push(Op::Tcorb(v));
            }
            15 if e.chance(1, 3) => {
                let base = e.pick(&[TCR, TCSR, TCORA, TCORB, TCNT]);
                let a = match e.below(6) {
                    // the same offset in the other register block (H'FFFF20 + k <-> H'FEE000 + k)
                    4 | 5 => {
                        if base >= 0xffff20 {
                            0xfee000 + (base - 0xffff20)
                        } else {
                            0xffff20 + (base - 0xfee000)
                        }
                    }
                    0 => base.wrapping_add(0x100 * (1 + e.below(4))),
                    1 => base.wrapping_add(0x0100_0000 * (1 + e.below(255))),
                    2 => base ^ (1u32 << (8 + e.below(24))),
                    _ => base.wrapping_add(0x1_0000 * (1 + e.below(3))),
                };
                ops.push(Op::Stray(a, e.u8()))
            }
            14 if e.chance(1, 2) => {
                // another channel's register: a clock selection / compare value / counter of channel 1-3
                let v = if e.chance(1, 2) { e.u8() } else { e.pick(&[0x01u8, 0x02, 0x03, 0x0b, 0x41, 0xff, 0x00]) };
                ops.push(Op::Other(e.below(OTHER_REGS.len() as u32) as u8, v))
            }
            _ => ops.push(Op::ClearFlags(e.u8() & 0xe0, e.u8())),
        }
    }
    ops
}

/// the same history with the elapsed time between two writes split differently
fn resplit(ops: &[Op], e: &mut Ent) -> Vec<Op> {
    let mut out = vec![];
    let mut acc: u64 = 0;
    let mode = e.below(3);
    let total: u64 = ops.iter().map(|o| if let Op::Elapse(n) = o { *n as u64 } else { 0 }).sum();
    // chunk sizes come from a tiny generator seeded by one draw (a pure function of the case's raw
    // draws), so arbitrarily long histories do not exhaust the draw vector
    let mut x = e.u32() | 1;
    let mut flush = |acc: &mut u64, out: &mut Vec<Op>, _e: &mut Ent| {
        while *acc > 0 {
            x = x.wrapping_mul(1664525).wrapping_add(1013904223);
            let rnd = (x >> 16) as u64;
            let s = match mode {
                // single states (bounded work: very long histories use small random chunks instead)
                0 if total > 6000 => 1 + rnd % 24,
                0 => 1u64,
                1 => 255,
                _ => 1 + rnd % 255,
            }
            .min(*acc);
            out.push(Op::Elapse(s as u8));
            *acc -= s;
        }
    };
    for op in ops {
        match *op {
            Op::Elapse(n) => acc += n as u64,
            other => {
                flush(&mut acc, &mut out, e);
                out.push(other);
            }
        }
    }
    flush(&mut acc, &mut out, e);
    out
}

fn ops_json(ops: &[Op]) -> Value {
    json!({"kind": "timer-history", "ops": ops.iter().map(|o| match *o {
        Op::Elapse(n) => json!(["elapse", n]), Op::Tcr(v) => json!(["tcr", v]), Op::Tcnt(v) => json!(["tcnt", v]),
        Op::Tcora(v) => json!(["tcora", v]), Op::Tcorb(v) => json!(["tcorb", v]), Op::ClearFlags(m, l) => json!(["clear", m, l]), Op::Other(i, v) => json!(["other", i, v]), Op::Stray(a, v) => json!(["stray", a, v]) }).collect::<Vec<_>>()})
}
fn ops_from_json(v: &Value) -> Option<Vec<Op>> {
    Some(
        v.get("ops")?
            .as_array()?
            .iter()
            .filter_map(|o| {
                let k = o.get(0)?.as_str()?;
                let a = o.get(1)?.as_u64()? as u8;
                Some(match k {
                    "elapse" => Op::Elapse(a),
                    "tcr" => Op::Tcr(a),
                    "tcnt" => Op::Tcnt(a),
                    "tcora" => Op::Tcora(a),
                    "tcorb" => Op::Tcorb(a),
                    "other" => Op::Other(a, o.get(2)?.as_u64()? as u8),
                    "stray" => Op::Stray(o.get(1)?.as_u64()? as u32, o.get(2)?.as_u64()? as u8),
                    _ => Op::ClearFlags(a, o.get(2)?.as_u64()? as u8),
                })
            })
            .collect(),
    )
}

/// states of the two partitions at the sync points (before every non-elapse op and at the end)
fn sync_points(ops: &[Op], obs: &[Obs]) -> Vec<(u8, u8, Vec<u8>)> {
    let mut out = vec![];
    let mut irqs: Vec<u8> = vec![];
    let mut last = (0u8, 0u8);
    for (op, o) in ops.iter().zip(obs.iter()) {
        if !matches!(op, Op::Elapse(_)) {
            irqs.sort();
            out.push((last.0, last.1, std::mem::take(&mut irqs)));
        }
        irqs.extend(o.irqs.iter().copied());
        last = (o.tcnt, o.tcsr);
    }
    irqs.sort();
    out.push((last.0, last.1, irqs));
    out
}

pub struct Summary {
    pub ticks: u64,
    pub events: u64,
    pub clock_changes: usize,
    pub writes_midcount: usize,
    pub long_8192: bool,
}

/// Err(detail) on violation
pub fn judge_history(emu: &mut Emu, ops: &[Op], alt: Option<&[Op]>) -> Result<Summary, String> {
    let obs = execute(emu, ops);
    let obs = match obs {
        Ok(o) => o,
        Err(m) => {
            cleanup(emu);
            return Err(m);
        }
    };
    let m = match check(ops, &obs) {
        Ok(m) => m,
        Err(e) => {
            cleanup(emu);
            return Err(e);
        }
    };
    if let Some(alt) = alt {
        // the re-partitioned history also takes the other road to the registers: guest instructions
        let obs2 = match execute_via(emu, alt, true) {
            Ok(o) => o,
            Err(e) => {
                cleanup(emu);
                return Err(format!("re-partitioned history: {}", e));
            }
        };
        let m2 = match check(alt, &obs2) {
            Ok(m) => m,
            Err(e) => {
                cleanup(emu);
                return Err(format!("re-partitioned history: {}", e));
            }
        };
        let (s1, s2) = (sync_points(ops, &obs), sync_points(alt, &obs2));
        if s1 != s2 {
            cleanup(emu);
            let i = s1.iter().zip(s2.iter()).position(|(a, b)| a != b).unwrap_or(0);
            return Err(format!("the same elapsed time split differently gives a different timer state at sync point {}: {:02x?} vs {:02x?}", i, s1.get(i), s2.get(i)));
        }
        // a common phase must explain both partitions
        let (r1, r2) = (m.residues(), m2.residues());
        let common = r1.iter().any(|a| r2.iter().any(|b| a.0 <= b.1 && b.0 <= a.1));
        if !common && divisor(m.tcr) != 0 {
            cleanup(emu);
            return Err(format!("no common phase explains both partitions of the same elapsed time: {:?} vs {:?}", r1, r2));
        }
    }
    cleanup(emu);
    let mut clock_changes = 0;
    let mut writes_midcount = 0;
    let mut cur = 0u8;
    let mut running_8192 = 0u64;
    let mut long_8192 = false;
    for op in ops {
        match *op {
            Op::Tcr(v) => {
                if divisor(v) != divisor(cur) {
                    clock_changes += 1;
                    running_8192 = 0;
                }
                cur = v;
            }
            Op::Elapse(n) => {
                if divisor(cur) == 8192 {
                    running_8192 += n as u64;
                    if running_8192 >= 2 * 8192 {
                        long_8192 = true;
                    }
                }
            }
            _ => {
                if divisor(cur) != 0 {
                    writes_midcount += 1;
                }
            }
        }
    }
    Ok(Summary { ticks: m.ticks, events: m.events, clock_changes, writes_midcount, long_8192 })
}

/// Tick conservation over very long runs: a single clock selection stays in force while the elapsed
/// states pass every accumulator-width boundary up to 2^32 (the statement holds for all E). Observed
/// densely around 2^16, 2^24, 2^31 and 2^32 and sparsely in between; the oracle is the same existential
/// phase: some constant 0 <= p < divisor must explain every observed TCNT.
pub fn long_run(emu: &mut Emu, cks: u8) -> Result<u64, String> {
    prepare(emu);
    let div = divisor(cks) as u64;
    let w = |emu: &mut Emu, a: u32, v: u8| emu.cpu.bus.write(a, v).map_err(|e| e.to_string());
    w(emu, TCORA, 0)?;
    w(emu, TCORB, 0)?;
    w(emu, TCNT, 0)?;
    w(emu, TCR, cks)?;
    let mut e_total: u64 = 0;
    let (mut lo, mut hi) = (0u64, div - 1); // candidate phases
    let end: u64 = (1u64 << 32) + (1 << 21);
    let marks: [u64; 5] = [1 << 16, 1 << 24, 1 << 31, 1 << 32, end];
    let mut calls: u64 = 0;
    let mut observations = 0u64;
    while e_total < end {
        let cpu = &mut emu.cpu;
        match guarded(|| hooks::update_modules(cpu, 255)) {
            Ok(Ok(())) => {}
            Ok(Err(e)) => return Err(format!("update_modules failed after {} states: {}", e_total, e)),
            Err(p) => return Err(format!("update_modules panicked after {} states: {}", e_total, p)),
        }
        e_total += 255;
        calls += 1;
        let near = marks.iter().any(|m| e_total + 8 * 8192 >= *m && e_total <= *m + 8 * 8192);
        if near || calls % 65536 == 0 {
            observations += 1;
            let tcnt = emu.cpu.bus.read(TCNT).map_err(|e| e.to_string())? as u64;
            // ticks = floor((E + p) / div) is k0 for p < div - E mod div, else k0 + 1
            let k0 = e_total / div;
            let split = div - e_total % div; // first p that yields k0 + 1 (== div: none)
            let (mut nlo, mut nhi) = (u64::MAX, 0u64);
            if k0 % 256 == tcnt && lo < split {
                nlo = lo;
                nhi = hi.min(split - 1);
            }
            if (k0 + 1) % 256 == tcnt && hi >= split {
                nlo = nlo.min(lo.max(split));
                nhi = nhi.max(hi);
            }
            if nlo > nhi {
                cleanup(emu);
                return Err(format!(
                    "clock /{}: after {} states TCNT = {:02x}; floor(E/{}) mod 256 = {:02x}: no constant phase in [{}, {}] explains it (a tick was lost or gained)",
                    div, e_total, tcnt, div, k0 % 256, lo, hi
                ));
            }
            lo = nlo;
            hi = nhi;
            let _ = drain_irqs(emu);
        }
    }
    cleanup(emu);
    Ok(observations)
}

/// Masked window (metamorphic): the same run - clock /8, counter cleared by compare match A, CMIEA and OVIE set,
/// TCORA small, so that an event comes every few ticks - once with the requests accepted after every charge and
/// once with interrupts "masked" for the whole run (nothing is accepted until the end). The timer does not know
/// whether its requests are accepted: both runs must raise the same number of requests per vector - thousands of
/// them pending at once in the second run ("once per event", whatever the depth of the backlog).
pub fn masked_window(emu: &mut Emu, tcora: u8, chunks: u32) -> Result<(u64, u64), String> {
    // odd chunk counts: with acknowledgements on the way
    let ack = chunks % 2 == 1;
    let w = |emu: &mut Emu, a: u32, v: u8| emu.cpu.bus.write(a, v).map_err(|e| e.to_string());
    let mut totals: [[u64; 64]; 2] = [[0; 64]; 2];
    for pass in 0..2 {
        prepare(emu);
        w(emu, TCORA, tcora)?;
        w(emu, TCORB, 0xf0)?;
        w(emu, TCNT, 0)?;
        w(emu, TCR, 0x40 | 0x20 | 0x08 | 0x01)?;
        for k in 0..chunks {
            let cpu = &mut emu.cpu;
            match guarded(|| hooks::update_modules(cpu, 255)) {
                Ok(Ok(())) => {}
                Ok(Err(e)) => return Err(format!("update_modules failed: {}", e)),
                Err(p) => return Err(format!("update_modules panicked: {}", p)),
            }
            if pass == 0 {
                for v in drain_irqs(emu)? {
                    totals[0][v as usize] += 1;
                }
            }
            // every few charges the CPU acknowledges the flags (a store to TCSR0 with the flag bits clear), in both
            // runs alike: acknowledging a flag has nothing to do with requests that are already raised - with a
            // backlog pending (second run) every one of them must still be delivered
            if ack && k % 7 == 3 {
                w(emu, TCSR, 0x00)?;
            }
        }
        if pass == 1 {
            let pending = hooks::pending_interrupts(&emu.cpu) as u64;
            let mut guard = 0u64;
            while hooks::pending_interrupts(&emu.cpu) > 0 && guard < 50_000_000 {
                // drain in slices (drain_irqs refuses more than 100000 at once)
                emu.set_ccr(0);
                emu.cpu.er[7] = SCRATCH_SP;
                emu.set_pc(0xffd000);
                match emu.try_interrupt() {
                    EmuResult::Ok(_) => {}
                    other => return Err(format!("interrupt poll failed: {:?}", other)),
                }
                let pc = emu.pc();
                if pc >= HANDLER_BASE + 0x10 && pc < HANDLER_BASE + 0x400 && (pc - HANDLER_BASE) % 0x10 == 0 {
                    totals[1][((pc - HANDLER_BASE) / 0x10) as usize] += 1;
                } else {
                    return Err(format!("interrupt poll with a pending request did not enter a handler (PC {:06x})", pc));
                }
                guard += 1;
            }
            let _ = pending;
        }
        cleanup(emu);
    }
    if totals[0] != totals[1] {
        let v = (0..64).find(|&v| totals[0][v] != totals[1][v]).unwrap_or(0);
        return Err(format!(
            "TCORA {} over {} charges of 255 states: vector {} was requested {} times when every request was accepted at once, {} times when nothing was accepted until the end (requests are lost or invented while a backlog is pending)",
            tcora, chunks, v, totals[0][v], totals[1][v]
        ));
    }
    let n: u64 = totals[0].iter().sum();
    Ok((n, totals[0][36]))
}

/// The empty history: a `Cpu` as `Cpu::new()` makes it. Whatever TCR reads there, the counter does what the statement
/// says for that value - it counts at the selected divisor, or not at all when no clock is selected (power-on register
/// contents that disagree with the timer's own state are a timer that ignores its control register).
fn power_on() -> Option<String> {
    let r = guarded(|| {
        let mut cpu = crate::cpu::Cpu::new();
        let tcr = cpu.bus.read(0xffff80).map_err(|e| e.to_string())?;
        let t0 = cpu.bus.read(0xffff88).map_err(|e| e.to_string())?;
        let elapsed: u32 = 3 * 8192 + 77;
        let mut left = elapsed;
        while left > 0 {
            let c = left.min(200);
            hooks::update_modules(&mut cpu, c as u8).map_err(|e| e.to_string())?;
            left -= c;
        }
        let t1 = cpu.bus.read(0xffff88).map_err(|e| e.to_string())?;
        let adv = t1.wrapping_sub(t0) as u32;
        // a compare match with counter clear would reset the count: only judged when TCR selects no clear source
        let div = match tcr & 7 {
            0 => 0,
            1 => 8,
            2 => 64,
            3 => 8192,
            _ => return Ok(()),
        };
        if div == 0 {
            if adv != 0 {
                return Err(format!("fresh Cpu: TCR reads {:02x} (no clock selected) but TCNT went from {:02x} to {:02x} in {} states", tcr, t0, t1, elapsed));
            }
        } else if tcr & 0x18 == 0 {
            let lo = (elapsed / div) % 256;
            let hi = (elapsed / div + 1) % 256;
            if adv != lo && adv != hi {
                return Err(format!("fresh Cpu: TCR reads {:02x} (clock / {}) but TCNT advanced by {} in {} states (expected {} or {})", tcr, div, adv, elapsed, lo, hi));
            }
        }
        Ok(())
    });
    match r {
        Ok(Ok(())) => None,
        Ok(Err(m)) => Some(m),
        Err(p) => Some(format!("panic: {}", p)),
    }
}

pub fn run(ctx: &Ctx) -> i32 {
    if let Some(v) = &ctx.replay {
        if let Some(code) = replay_fuzz(P, v) {
            return code;
        }
        let case = v.get("case").unwrap_or(v);
        if case.get("kind").and_then(|k| k.as_str()) == Some("timer-power-on") {
            return match power_on() {
                None => {
                    println!("replay {}: power-on state passes", P);
                    0
                }
                Some(m) => {
                    let f = Failure { signature: "timer power-on state".into(), detail: m, case: case.clone() };
                    let p = write_replay(P, &f);
                    println!("VIOLATION property={} replay={}", P, p.display());
                    println!("  detail: {}", f.detail);
                    1
                }
            };
        }
        if case.get("kind").and_then(|k| k.as_str()) == Some("timer-masked-window") {
            let mut emu = Emu::new(&ctx.base);
            let (t, c) = (case.get("tcora").and_then(|c| c.as_u64()).unwrap_or(1) as u8, case.get("chunks").and_then(|c| c.as_u64()).unwrap_or(400) as u32);
            return match masked_window(&mut emu, t, c) {
                Ok(_) => {
                    println!("replay {}: masked window passes", P);
                    0
                }
                Err(m) => {
                    let f = Failure { signature: "timer masked window".into(), detail: m, case: case.clone() };
                    let p = write_replay(P, &f);
                    println!("VIOLATION property={} replay={}", P, p.display());
                    println!("  detail: {}", f.detail);
                    1
                }
            };
        }
        if case.get("kind").and_then(|k| k.as_str()) == Some("timer-long-run") {
            let mut emu = Emu::new(&ctx.base);
            return match long_run(&mut emu, case.get("cks").and_then(|c| c.as_u64()).unwrap_or(3) as u8) {
                Ok(_) => {
                    println!("replay {}: long run passes", P);
                    0
                }
                Err(m) => {
                    let f = Failure { signature: "timer long run".into(), detail: m, case: case.clone() };
                    let p = write_replay(P, &f);
                    println!("VIOLATION property={} replay={}", P, p.display());
                    println!("  detail: {}", f.detail);
                    1
                }
            };
        }
        let Some(ops) = ops_from_json(case) else { return 2 };
        let alt = case.get("alt").and_then(ops_from_json);
        let mut emu = Emu::new(&ctx.base);
        return match judge_history(&mut emu, &ops, alt.as_deref()) {
            Ok(_) => {
                println!("replay {}: history passes", P);
                0
            }
            Err(m) => {
                let f = Failure { signature: "timer history".into(), detail: m, case: case.clone() };
                let p = write_replay(P, &f);
                println!("VIOLATION property={} replay={}", P, p.display());
                println!("  detail: {}", f.detail);
                1
            }
        };
    }
    let tier = ctx.tier;
    let nh: u32 = tier.pick(300_000, 8_000_000);
    let nshards = 64usize;
    let mut pstats = Stats::new();
    pstats.evaluations += 1;
    pstats.class("power-on: the counter follows whatever TCR reads on a fresh Cpu");
    if let Some(m) = power_on() {
        pstats.fail(Failure { signature: "timer power-on state".into(), detail: m, case: json!({"kind": "timer-power-on"}) });
    }
    let mut stats = par_shards(ctx, nshards, |shard| {
        let w = Worker::new(ctx);
        let ent = entropy_n(1400);
        let _ = run_prop(mix(ctx.seed, 0x1701_0000 + shard as u64), nh / nshards as u32, &ent, |raw, shrinking| {
            let mut e = Ent::new(raw);
            let ops = build_history(&mut e);
            let alt = resplit(&ops, &mut e);
            let r = judge_history(&mut w.emu.borrow_mut(), &ops, Some(&alt));
            let mut st = w.stats.borrow_mut();
            match r {
                Ok(s) => {
                    if !shrinking {
                        st.evaluations += 1;
                        st.class_n("ticks counted", s.ticks);
                        st.class_n("steps with a flag change or interrupt request", s.events);
                        if s.long_8192 {
                            st.class("history with >= 2 ticks at /8192");
                        }
                        if s.clock_changes > 1 {
                            st.class("history with >= 2 clock changes");
                        }
                        if s.events >= 1 && (s.clock_changes >= 2 || s.writes_midcount >= 1) {
                            st.nontrivial(key_hash(&ops), || json!({"ops": format!("{:?}", &ops[..ops.len().min(24)]), "n_ops": ops.len(), "ticks": s.ticks, "events": s.events}));
                        }
                    }
                    Ok(())
                }
                Err(m) => {
                    let sig = format!("timer history | {}", fail_field(&m.splitn(3, ':').nth(1).unwrap_or(&m).replace(|c: char| c.is_ascii_digit(), "")));
                    let mut case = ops_json(&ops);
                    case["alt"] = ops_json(&alt);
                    let f = Failure { signature: sig.clone(), detail: m, case };
                    if ctx.survey {
                        if !shrinking {
                            st.evaluations += 1;
                            st.survey_fail(f);
                        }
                        Ok(())
                    } else {
                        st.failures.clear();
                        st.fail(f);
                        Err(sig)
                    }
                }
            }
        });
        w.emu.borrow_mut().soft_reset();
        w.stats.into_inner()
    });
    if tier == Tier::Thorough {
        fuzz_campaign(ctx, "fuzz_timer", 8, 400_000, 800, &mut stats);
    }
    // masked windows: backlogs of about 300, 5,000 and 70,000 (thorough: 300,000) pending requests
    let windows: Vec<(u8, u32)> = if tier == Tier::Thorough { vec![(1, 20), (2, 400), (1, 4500), (3, 30000), (1, 21), (2, 401), (3, 4501)] } else { vec![(1, 20), (2, 400), (1, 4500), (1, 21), (2, 401)] };
    let mstats = par_shards(ctx, windows.len(), |i| {
        let mut emu = Emu::new(&ctx.base);
        let mut st = Stats::new();
        let (t, c) = windows[i];
        match masked_window(&mut emu, t, c) {
            Ok((n, n36)) => {
                st.evaluations += 1;
                st.class_n("masked window: requests pending at once at the end of the run", n);
                st.nontrivial(key_hash(&("masked", t, c)), || json!({"masked_window_tcora": t, "charges": c, "requests": n, "compare_match_a_requests": n36}));
            }
            Err(m) => st.fail(Failure { signature: "timer masked window | requests lost or invented under a backlog".into(), detail: m, case: json!({"kind": "timer-masked-window", "tcora": t, "chunks": c}) }),
        }
        st
    });
    stats.merge(mstats);
    stats.merge(pstats);
    // long runs across the accumulator-width boundaries (quick: /8192 and /64; thorough: also /8)
    let divs: Vec<u8> = if tier == Tier::Thorough { vec![3, 2, 1] } else { vec![3, 2] };
    let lstats = par_shards(ctx, divs.len(), |i| {
        let mut emu = Emu::new(&ctx.base);
        let mut st = Stats::new();
        match long_run(&mut emu, divs[i]) {
            Ok(obs) => {
                st.evaluations += 1;
                st.class_n("long run to 2^32 + 2^21 states: observations", obs);
                st.nontrivial(key_hash(&("long", divs[i])), || json!({"long_run_clock_select": divs[i], "states": (1u64 << 32) + (1 << 21), "observations": obs}));
            }
            Err(m) => st.fail(Failure { signature: "timer long run | tick lost or gained".into(), detail: m, case: json!({"kind": "timer-long-run", "cks": divs[i]}) }),
        }
        emu.soft_reset();
        st
    });
    stats.merge(lstats);
    let rule = "cases = the empty history on a fresh Cpu (the counter follows whatever TCR reads there); masked windows (the same /8 compare-match run with every request accepted at once vs nothing accepted until the end - backlogs of 300 to 70,000 pending requests: equal request counts per vector); proptest-generated histories (up to 300 ops) over {n states elapse (1-255, through the run loop's update_modules), write TCR (all upper bits, clock /8, /64, /8192 or none), write TCNT, TCORA, TCORB, clear flags in TCSR}, the stated precondition constructed (TCORA != TCORB, both non-zero while a compare-match clear source is selected), each history also re-run with the same elapsed time between writes split differently (all 1-state chunks / all 255-state chunks / random). Oracle = tick-by-tick reference with an existential phase: after a clock selection the phase is any constant 0 <= p < divisor; every step splits the candidate phases by predicted tick count and keeps those that reproduce TCNT, TCSR and the multiset of interrupt requests (drained through the real poll); no candidate left = violation; both partitions must agree at every write and be explainable by a common phase. Non-trivial = history with a flag/interrupt event and >= 2 clock changes or a register write while counting; distinct by the op sequence.";
    let mut extra = Map::new();
    extra.insert("masked_details".into(), json!(["clock selections 4-7 (external clock / cascade) are not generated", "whether the counter is cleared on the matching tick or on the following one (both readings accepted, constant per history)", "TCORA == TCORB or 0 while a compare-match clear source is selected (excluded by the property)"]));
    finish(ctx, P, stats, rule, vec!["interrupt vectors of the timer: 36 (CMIA), 37 (CMIB), 39 (OVI) as the property states".into()], extra)
}
