//! Self-tests of the oracle (not a property check): decode(encode(i)) == i for generated instructions,
//! and agreement of the decode table with the encodings used by the repository's unit tests and with
//! the instruction trace of the real printf example (`printf.2.dump`).

use crate::refmodel::insn::*;
use serde_json::{json, Value};

pub fn repo_root() -> String {
    std::env::var("H8VERIF_REPO").unwrap_or_else(|_| "/repo".to_string())
}

/// (instructions checked, disagreements)
pub fn trace_selftest() -> (u64, Vec<String>) {
    let mut n = 0;
    let mut bad = vec![];
    let Ok(text) = std::fs::read_to_string(format!("{}/printf.2.dump", repo_root())) else { return (0, bad) };
    let mut seen = std::collections::HashSet::new();
    for line in text.lines() {
        let Some((addr, rest)) = line.split_once(':') else { continue };
        if u32::from_str_radix(addr.trim(), 16).is_err() {
            continue;
        }
        let bytes: Vec<u8> = rest.split_whitespace().filter_map(|b| u8::from_str_radix(b, 16).ok()).collect();
        if bytes.len() < 2 || !seen.insert(bytes.clone()) {
            continue;
        }
        let mut padded = bytes.clone();
        padded.extend([0u8; 10]);
        let d = decode_bytes(&padded);
        n += 1;
        match d.class {
            Class::Impl(_) if d.len as usize == bytes.len() => {}
            // TRAPA #0 / console output lines of the trace carry the printed byte after the instruction
            Class::Impl(_) if d.len as usize + 1 == bytes.len() => {}
            other => bad.push(format!("{:02x?}: decoded {:?} len {}", bytes, other, d.len)),
        }
    }
    (n, bad)
}

/// byte arrays `copy_from_slice(&[0x.., ..])` of the unit tests
pub fn unit_test_encodings() -> (u64, u64, Vec<String>) {
    let dir = format!("{}/src/cpu/instruction", repo_root());
    let mut total = 0;
    let mut ok = 0;
    let mut bad = vec![];
    let Ok(rd) = std::fs::read_dir(&dir) else { return (0, 0, bad) };
    let mut files: Vec<_> = rd.flatten().map(|e| e.path()).collect();
    files.sort();
    let mut seen = std::collections::HashSet::new();
    for f in files {
        let Ok(text) = std::fs::read_to_string(&f) else { continue };
        for line in text.lines() {
            let Some(i) = line.find("copy_from_slice(&[") else { continue };
            if !line.contains("memory[0..") {
                continue;
            }
            let rest = &line[i + 18..];
            let Some(j) = rest.find(']') else { continue };
            let bytes: Vec<u8> = rest[..j].split(',').filter_map(|b| u8::from_str_radix(b.trim().trim_start_matches("0x"), 16).ok()).collect();
            if bytes.len() < 2 || !seen.insert(bytes.clone()) {
                continue;
            }
            total += 1;
            let mut padded = bytes.clone();
            padded.extend([0u8; 10]);
            let d = decode_bytes(&padded);
            match d.class {
                Class::Impl(_) if d.len as usize == bytes.len() => ok += 1,
                other => bad.push(format!("{}: {:02x?}: decoded {:?} len {}", f.file_name().unwrap().to_string_lossy(), bytes, other, d.len)),
            }
        }
    }
    (total, ok, bad)
}

pub fn run() -> i32 {
    let (n, bad) = trace_selftest();
    println!("printf trace: {} distinct instructions, {} disagreements", n, bad.len());
    for b in bad.iter().take(20) {
        println!("  {}", b);
    }
    let (t, ok, bad2) = unit_test_encodings();
    println!("unit-test encodings: {} distinct, {} decode as implemented with the same length", t, ok);
    for b in bad2.iter().take(60) {
        println!("  {}", b);
    }
    0
}

pub fn summary() -> Value {
    let (n, bad) = trace_selftest();
    let (t, ok, bad2) = unit_test_encodings();
    json!({"printf_trace_instructions": n, "printf_trace_disagreements": bad, "unit_test_encodings": t, "unit_test_encodings_agreeing": ok, "unit_test_encodings_not_in_table": bad2})
}
