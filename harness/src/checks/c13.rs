//! C13 - the run loop runs to the exit address on one consistent, deterministic time base.

use super::c10::arith;
use super::elfgen::{simple_elf, BASE};
use crate::cpu::{verif_hooks as hooks, Cpu};
use crate::engine::emu::{guarded, is_peripheral_reg};
use crate::engine::run::*;
use crate::engine::stats::*;
use crate::engine::stdio::Redirect;
use crate::engine::stepcase::{hex, unhex};
use crate::gen::*;
use crate::refmodel::exec::{self as rx, Outcome, RefState, F_I, MASK24};
use crate::refmodel::insn::*;
use crate::socket::Socket;
use serde_json::{json, Map, Value};
use std::sync::mpsc::{channel, Receiver, Sender};

const P: &str = "C13";
const SYNC: u64 = 2_000_000;

#[derive(Clone, Debug)]
pub struct Guest {
    pub file: Vec<u8>,
    pub args: String,
    pub fails: bool,
    pub features: Vec<&'static str>,
    /// cumulative state count the machine starts with (the counter is 64 bits wide: some runs start just
    /// below 2^32 so that totals, stamps and sync messages cross it)
    pub start_total: u64,
}

fn emit(v: &mut Vec<u8>, i: Insn) {
    v.extend(encode(&i));
}

/// A tunable tail (count-down loop of `n` iterations followed by fillers of three different charges) that
/// lets the harness place the program's total exactly where it wants it relative to a sync threshold.
#[derive(Clone, Copy, Debug, Default)]
pub struct Tune {
    pub n: u32,
    pub fill: [u32; 3],
    /// the program runs under slow bus settings and *ends* with its most expensive instruction (a long-word load
    /// through @(d:24,ERn) in slow DRAM: 98 states, charged 294 in the run loop - more than fits the 8-bit slices
    /// the peripherals are fed in): the exit address is the address right behind it
    pub heavy_end: bool,
}

pub fn build_guest(e: &mut Ent) -> Guest {
    build_guest_tuned(e, None)
}

pub fn build_guest_tuned(e: &mut Ent, tune: Option<&Tune>) -> Guest {
    let mut c: Vec<u8> = vec![];
    let mut features: Vec<&'static str> = vec![];
    // data area right after the code (inside the segment's bss)
    let code_max = 0x1800u32;
    let data = BASE + code_max;
    let mut texts: Vec<(u32, Vec<u8>)> = vec![]; // (offset in data area, bytes) - written by the guest itself before use
    let mut data_cursor = 0x200u32;
    // the argument string comes first: some programs print their own argv words (what the loader built from
    // it - and, through the real binary, what main() passed on from the command line)
    let args = super::elfgen::arg_string(e);
    let words: Vec<String> = std::iter::once("prog.elf".to_string()).chain(args.split(|ch| ch == ' ' || ch == '\t').filter(|w| !w.is_empty()).map(|w| w.to_string())).collect();
    let argv_save = data + 0x130;
    emit(&mut c, Insn::Store { sz: Sz::L, s: 1, ea: Ea::A24(argv_save) });
    // values in on-chip I/O registers that nothing in the statement gives a meaning to
    for (a, v) in e.env_noise() {
        features.push("unrelated I/O register written");
        emit(&mut c, Insn::MovImm { sz: Sz::B, imm: v[0] as u32, d: 14 });
        emit(&mut c, Insn::Store { sz: Sz::B, s: 14, ea: Ea::A24(a) });
    }
    // optional slow-bus prologue: more wait states for the DRAM area / 3-state access for area 7
    let heavy_end = tune.map(|t| t.heavy_end).unwrap_or(false);
    if e.chance(1, 4) || heavy_end {
        features.push("slow bus prologue");
        for (reg, val) in [(0xfee023u32, 0xcf | 0x30), (0xfee022, e.u8()), (0xfee021, 0xfb | (e.u8() & 0x04))] {
            if e.chance(2, 3) || (heavy_end && reg == 0xfee023) {
                emit(&mut c, Insn::MovImm { sz: Sz::B, imm: val as u32, d: 14 });
                emit(&mut c, Insn::Store { sz: Sz::B, s: 14, ea: Ea::A24(reg) });
            }
        }
    }
    // optional timer with an interrupt handler installed through the MES set_handler call
    let use_timer = e.chance(1, 3);
    // (clock /64 with an interrupt) Some((event vector, TCORA)): the program's end places the event in its last instruction
    let mut end_event: Option<(u32, u32)> = None;
    let handler_off = 0x1400u32;
    let counter = data + 0x100;
    if use_timer {
        features.push("timer");
        let with_irq = e.chance(1, 2);
        let vec = e.pick(&[36u32, 39]);
        if with_irq {
            features.push("timer interrupt handler");
            // argument block {vector, address} built by the guest in the data area
            let blk = data + 0x110;
            emit(&mut c, Insn::MovImm { sz: Sz::L, imm: vec, d: 0 });
            emit(&mut c, Insn::Store { sz: Sz::L, s: 0, ea: Ea::A24(blk) });
            emit(&mut c, Insn::MovImm { sz: Sz::L, imm: BASE + handler_off, d: 0 });
            emit(&mut c, Insn::Store { sz: Sz::L, s: 0, ea: Ea::A24(blk + 4) });
            emit(&mut c, Insn::MovImm { sz: Sz::L, imm: 113, d: 0 });
            emit(&mut c, Insn::MovImm { sz: Sz::L, imm: blk, d: 1 });
            emit(&mut c, Insn::Trapa(0));
        }
        // with an interrupt the period must stay well above the handler's run time (no livelock)
        let cks = if with_irq { e.pick(&[2u32, 3]) } else { e.pick(&[1u32, 2, 3]) };
        let tcora = if with_irq && cks == 2 { 128 + e.below(128) } else { 1 + e.below(255) };
        emit(&mut c, Insn::MovImm { sz: Sz::B, imm: tcora, d: 14 });
        emit(&mut c, Insn::Store { sz: Sz::B, s: 14, ea: Ea::A8(0x84) });
        let irq_bit = if !with_irq { 0 } else if vec == 36 { 0x40 } else { 0x20 };
        let tcr = cks | if e.chance(1, 2) { 0x08 } else { 0 } | irq_bit;
        emit(&mut c, Insn::MovImm { sz: Sz::B, imm: tcr, d: 14 });
        emit(&mut c, Insn::Store { sz: Sz::B, s: 14, ea: Ea::A8(0x80) });
        if with_irq && cks == 2 && e.chance(3, 4) {
            end_event = Some((vec, tcora));
        }
    }
    let nitems = 2 + e.below(10);
    let mut delay_loops = 0;
    let leaf_off = 0x1500u32;
    for _ in 0..nitems {
        match e.below(13) {
            0..=2 => {
                for _ in 0..1 + e.below(4) {
                    emit(&mut c, arith(e));
                }
            }
            3 => {
                let a = data + 4 * e.below(0x30);
                emit(&mut c, Insn::Store { sz: Sz::L, s: e.below(5) as u8, ea: Ea::A24(a) });
                emit(&mut c, Insn::Load { sz: Sz::W, ea: Ea::A24(a + 2), d: e.below(5) as u8 });
            }
            4 | 5 if delay_loops < 3 => {
                // delay loop: sized so that totals fall on both sides of the sync thresholds
                delay_loops += 1;
                features.push("delay loop");
                let n = match e.below(4) {
                    0 => 1 + e.below(2000),
                    1 => 20000 + e.below(10000),
                    _ => 1 + e.below(65535),
                };
                emit(&mut c, Insn::MovImm { sz: Sz::W, imm: n, d: 5 });
                let top = c.len();
                emit(&mut c, Insn::Un { op: UnOp::Dec1, sz: Sz::W, d: 5 });
                let disp = top as i32 - (c.len() as i32 + 2);
                emit(&mut c, Insn::Bcc { cond: 6, disp, wide: false });
            }
            6 => {
                features.push("call");
                emit(&mut c, Insn::Jsr(JTarget::Abs(BASE + leaf_off)));
                // the most expensive forms (five fetch words + two data cycles): under slow bus settings
                // one instruction is charged more than 85 states
                emit(&mut c, Insn::MovImm { sz: Sz::L, imm: BASE, d: 6 });
                emit(&mut c, Insn::Load { sz: Sz::L, ea: Ea::D24(6, 0x10 + 4 * e.below(0x40)), d: 3 });
            }
            7 | 8 => {
                // port writes: direction, then data
                features.push("port write");
                let p = 1 + e.below(11);
                emit(&mut c, Insn::MovImm { sz: Sz::B, imm: e.u8() as u32, d: 14 });
                emit(&mut c, Insn::Store { sz: Sz::B, s: 14, ea: Ea::A24(0xfee000 + p - 1) });
                emit(&mut c, Insn::MovImm { sz: Sz::B, imm: e.u8() as u32, d: 14 });
                emit(&mut c, Insn::Store { sz: Sz::B, s: 14, ea: Ea::A8((0xd0 + p - 1) as u8) });
            }
            9 | 10 => {
                // console output through the MES write call; the guest first stores the text itself
                features.push("console output");
                let len = 1 + e.below(12);
                let text: Vec<u8> = (0..len).map(|_| e.pick(b"abcXYZ 019\n\\:,.")).collect();
                let toff = data_cursor;
                data_cursor += 0x20;
                if data_cursor > 0x7c0 {
                    data_cursor = 0x200;
                }
                for (k, b) in text.iter().enumerate() {
                    emit(&mut c, Insn::MovImm { sz: Sz::B, imm: *b as u32, d: 14 });
                    emit(&mut c, Insn::Store { sz: Sz::B, s: 14, ea: Ea::A24(data + toff + k as u32) });
                }
                let blk = data + toff + 0x10;
                for (k, w) in [1u32, data + toff, len].iter().enumerate() {
                    emit(&mut c, Insn::MovImm { sz: Sz::L, imm: *w, d: 0 });
                    emit(&mut c, Insn::Store { sz: Sz::L, s: 0, ea: Ea::A24(blk + 4 * k as u32) });
                }
                emit(&mut c, Insn::MovImm { sz: Sz::L, imm: 104, d: 0 });
                emit(&mut c, Insn::MovImm { sz: Sz::L, imm: blk, d: 1 });
                emit(&mut c, Insn::Trapa(0));
                texts.push((toff, text));
            }
            11 => {
                // print argv[i] with the MES write call: pointer read at run time, length known from the string
                features.push("argv word echoed");
                let i = e.below(words.len().min(8) as u32);
                let blk = data + 0x140;
                emit(&mut c, Insn::Load { sz: Sz::L, ea: Ea::A24(argv_save), d: 1 });
                emit(&mut c, Insn::Load { sz: Sz::L, ea: Ea::D16(1, 4 * i as u16), d: 2 });
                emit(&mut c, Insn::MovImm { sz: Sz::L, imm: 1, d: 0 });
                emit(&mut c, Insn::Store { sz: Sz::L, s: 0, ea: Ea::A24(blk) });
                emit(&mut c, Insn::Store { sz: Sz::L, s: 2, ea: Ea::A24(blk + 4) });
                emit(&mut c, Insn::MovImm { sz: Sz::L, imm: words[i as usize].len() as u32, d: 0 });
                emit(&mut c, Insn::Store { sz: Sz::L, s: 0, ea: Ea::A24(blk + 8) });
                emit(&mut c, Insn::MovImm { sz: Sz::L, imm: 104, d: 0 });
                emit(&mut c, Insn::MovImm { sz: Sz::L, imm: blk, d: 1 });
                emit(&mut c, Insn::Trapa(0));
            }
            _ => {
                for _ in 0..1 + e.below(2) {
                    emit(&mut c, arith(e));
                }
            }
        }
        if c.len() > 0x1200 {
            break;
        }
    }
    if features.contains(&"slow bus prologue") {
        features.push("instruction charged more than 85 states");
        emit(&mut c, Insn::MovImm { sz: Sz::L, imm: BASE, d: 6 });
        emit(&mut c, Insn::Load { sz: Sz::L, ea: Ea::D24(6, 0x20), d: 3 });
        emit(&mut c, Insn::Store { sz: Sz::L, s: 3, ea: Ea::D24(6, code_max + 0x40) });
    }
    if use_timer {
        // read the counter at the end: what the peripheral saw is part of the final state
        emit(&mut c, Insn::Load { sz: Sz::B, ea: Ea::A8(0x88), d: 12 });
        emit(&mut c, Insn::Load { sz: Sz::B, ea: Ea::A8(0x82), d: 4 });
    }
    if let Some(t) = tune {
        features.push("tuned total");
        emit(&mut c, Insn::MovImm { sz: Sz::L, imm: t.n.max(1), d: 5 });
        let top = c.len();
        emit(&mut c, Insn::Un { op: UnOp::Dec1, sz: Sz::L, d: 5 });
        let disp = top as i32 - (c.len() as i32 + 2);
        emit(&mut c, Insn::Bcc { cond: 6, disp, wide: false });
        // fillers: I1 (8 states), BRN d:16 (I2 N2 = 18), MULXU.B (I1 N12 = 20) - times 3 in the run loop
        for _ in 0..t.fill[0] {
            emit(&mut c, Insn::MovRR { sz: Sz::B, s: 14, d: 14 });
        }
        for _ in 0..t.fill[1] {
            emit(&mut c, Insn::Bcc { cond: 1, disp: 0, wide: true });
        }
        for _ in 0..t.fill[2] {
            emit(&mut c, Insn::Mulxu { sz: Sz::B, s: 14, d: 6 });
        }
    }
    // a burst of messages as the very last thing the program does: a port (all bits outputs) toggled n
    // times, one ioport message each - whatever is still queued when the run ends must not be lost
    if e.chance(1, 4) && !heavy_end {
        features.push("message burst right before the end");
        let p = 1 + e.below(11);
        let n = e.pick(&[3u32, 16, 64, 200, 255]);
        emit(&mut c, Insn::MovImm { sz: Sz::B, imm: 0xff, d: 14 });
        emit(&mut c, Insn::Store { sz: Sz::B, s: 14, ea: Ea::A24(0xfee000 + p - 1) });
        emit(&mut c, Insn::MovImm { sz: Sz::B, imm: e.u8() as u32, d: 14 });
        emit(&mut c, Insn::MovImm { sz: Sz::B, imm: n, d: 13 });
        let top = c.len();
        emit(&mut c, Insn::Un { op: UnOp::Not, sz: Sz::B, d: 14 });
        emit(&mut c, Insn::Store { sz: Sz::B, s: 14, ea: Ea::A8((0xd0 + p - 1) as u8) });
        emit(&mut c, Insn::Un { op: UnOp::Dec1, sz: Sz::B, d: 13 });
        let disp = top as i32 - (c.len() as i32 + 2);
        emit(&mut c, Insn::Bcc { cond: 6, disp, wide: false });
    }
    // a failing instruction at the end of some programs
    let fails = tune.is_none() && e.chance(1, 6);
    if fails {
        features.push("failing instruction");
        match e.below(3) {
            0 => c.extend([0x00, 0x00]),                                                    // NOP: not implemented
            1 => emit(&mut c, Insn::Load { sz: Sz::W, ea: Ea::A24(0x200000), d: 1 }),       // unmapped read
            _ => emit(&mut c, Insn::Store { sz: Sz::B, s: 9, ea: Ea::A24(0xffffee) }),      // unmapped write
        }
    }
    if let (Some((vec, tcora)), false) = (end_event, fails || heavy_end) {
        // the guest sets the counter a few ticks before its event (compare match A / overflow), so that the request
        // is raised by one of the last instructions - now and then by the very last one: then it is pending, unmasked,
        // at the moment PC reaches the exit address (the run ends there all the same)
        features.push("timer event placed at the end of the program");
        let d = 1 + e.below(3);
        let v = if vec == 36 { tcora.wrapping_sub(d) & 0xff } else { (0x100 - d) & 0xff };
        emit(&mut c, Insn::MovImm { sz: Sz::B, imm: v, d: 14 });
        emit(&mut c, Insn::Store { sz: Sz::B, s: 14, ea: Ea::A8(0x88) });
    }
    emit(&mut c, Insn::MovImm { sz: Sz::L, imm: e.below(256), d: 0 }); // exit code
    let exit = if heavy_end {
        features.push("last instruction charged more than 255 states");
        emit(&mut c, Insn::MovImm { sz: Sz::L, imm: BASE, d: 6 });
        emit(&mut c, Insn::Load { sz: Sz::L, ea: Ea::D24(6, 0x20), d: 3 });
        c.len() as u32
    } else {
        let exit = c.len() as u32 + 4;
        emit(&mut c, Insn::Jmp(JTarget::Abs(BASE + exit)));
        exit
    };
    assert!(c.len() < handler_off as usize);
    // handler and leaf
    c.resize(handler_off as usize, 0);
    let mut h: Vec<u8> = vec![];
    h.extend([0x01, 0x00, 0x6d, 0xf0]); // PUSH.L ER0
    emit(&mut h, Insn::Load { sz: Sz::L, ea: Ea::A24(counter), d: 0 });
    emit(&mut h, Insn::Un { op: UnOp::Inc1, sz: Sz::L, d: 0 });
    emit(&mut h, Insn::Store { sz: Sz::L, s: 0, ea: Ea::A24(counter) });
    // acknowledge: clear all three flags
    for b in [5u8, 6, 7] {
        emit(&mut h, Insn::Bit { op: BitOp::Bclr, sel: BitSel::Imm(b), tgt: BitTgt::A8(0x82) });
    }
    h.extend([0x01, 0x00, 0x6d, 0x70]); // POP.L ER0
    emit(&mut h, Insn::Rte);
    c.extend(h);
    c.resize(leaf_off as usize, 0);
    for _ in 0..1 + e.below(3) {
        emit(&mut c, arith(e));
    }
    emit(&mut c, Insn::Rts);
    c.resize(code_max as usize, 0);
    let _ = texts;
    let file = simple_elf(&c, 0x1000, 0x400 + 4 * e.below(0x100), exit);
    // run() counts the states since the last sync relative to its own start, so a preset total is only
    // the state of a real run if it is a multiple of the sync interval (= "a sync was just sent"):
    // 2147 x 2,000,000 is the last such total below 2^32 (967,296 states below it)
    let start_total = match e.below(4) {
        0 => 2147u64 * 2_000_000,
        _ => 0,
    };
    if start_total != 0 {
        features.push("state count starts just below 2^32");
    }
    Guest { file, args, fails, features, start_total }
}

pub struct Machine {
    pub cpu: Cpu,
    pub rx: Receiver<String>,
    pub tx: Sender<String>,
}

pub fn machine(file: &[u8], args: &str, tag: &str) -> Result<Machine, String> {
    let dir = std::env::temp_dir().join(format!("h8verif-{}", std::process::id()));
    let _ = std::fs::create_dir_all(&dir);
    let path = dir.join(format!("{}.elf", tag));
    std::fs::write(&path, file).map_err(|e| e.to_string())?;
    *crate::setting::ENABLE_PRINT_OPCODE.write().unwrap() = false;
    let mut cpu = Cpu::new();
    let (out_tx, out_rx) = channel::<String>();
    let (in_tx, in_rx) = channel::<String>();
    hooks::attach_socket(&mut cpu, Socket::from_channels(out_tx, in_rx));
    let p = path.to_string_lossy().to_string();
    let a = args.to_string();
    let r = {
        let cpu = &mut cpu;
        guarded(move || crate::elf::load(p, cpu, a))
    };
    let _ = std::fs::remove_file(&path);
    r.map_err(|p| format!("loader panicked: {}", p))?;
    Ok(Machine { cpu, rx: out_rx, tx: in_tx })
}

#[derive(Clone, Debug, PartialEq)]
pub struct Final {
    pub result: Result<(), String>,
    pub er: [u32; 8],
    pub ccr: u8,
    pub pc: u32,
    pub total: u64,
    pub msgs: Vec<String>,
}

/// (A) the real run loop
pub fn run_a(g: &Guest, tag: &str) -> Result<(Machine, Final), String> {
    let mut m = machine(&g.file, &g.args, tag)?;
    hooks::set_state_sum(&mut m.cpu, g.start_total as usize);
    let r = {
        let cpu = &mut m.cpu;
        guarded(move || cpu.run())
    };
    let result = match r {
        Ok(Ok(())) => Ok(()),
        Ok(Err(e)) => Err(format!("{:#}", e).lines().next().unwrap_or("").to_string()),
        Err(p) => return Err(format!("run() panicked: {}", p)),
    };
    let msgs: Vec<String> = m.rx.try_iter().collect();
    let f = Final { result, er: m.cpu.er, ccr: hooks::ccr(&m.cpu), pc: hooks::pc(&m.cpu), total: m.cpu.bus.cpu_state_sum as u64, msgs };
    Ok((m, f))
}

/// (A') the real run loop while a second thread keeps suspending and resuming it over the control channel
/// (`cmd:pause` ... `cmd:start`, with lines the protocol ignores in between) at moments the OS picks: suspension
/// must be invisible to the guest - same final state, same state count, same message sequence as the undisturbed run.
pub fn run_a_paused(g: &Guest, tag: &str, seed: u64) -> Result<(Machine, Final, usize), String> {
    let mut m = machine(&g.file, &g.args, tag)?;
    hooks::set_state_sum(&mut m.cpu, g.start_total as usize);
    let done = std::sync::atomic::AtomicBool::new(false);
    let tx = m.tx.clone();
    let (r, windows) = std::thread::scope(|sc| {
        let feeder = sc.spawn(|| {
            let mut x = seed | 1;
            let mut next = move || {
                x = x.wrapping_mul(6364136223846793005).wrapping_add(1442695040888963407);
                (x >> 33) as u32
            };
            let mut windows = 0usize;
            while !done.load(std::sync::atomic::Ordering::Relaxed) {
                std::thread::sleep(std::time::Duration::from_micros(50 + (next() % 1500) as u64));
                if tx.send("cmd:pause".into()).is_err() {
                    break;
                }
                for _ in 0..next() % 3 {
                    let _ = tx.send(["cmd:pause", "bogus", "cmd:nothing", "cmd:start:now", ""][(next() % 5) as usize].into());
                }
                std::thread::sleep(std::time::Duration::from_micros((next() % 800) as u64));
                // resume - always: a suspended loop never reaches the end of the program
                if tx.send("cmd:start".into()).is_err() {
                    break;
                }
                windows += 1;
            }
            windows
        });
        let r = {
            let cpu = &mut m.cpu;
            guarded(move || cpu.run())
        };
        done.store(true, std::sync::atomic::Ordering::Relaxed);
        (r, feeder.join().unwrap_or(0))
    });
    let result = match r {
        Ok(Ok(())) => Ok(()),
        Ok(Err(e)) => Err(format!("{:#}", e).lines().next().unwrap_or("").to_string()),
        Err(p) => return Err(format!("run() panicked: {}", p)),
    };
    let msgs: Vec<String> = m.rx.try_iter().collect();
    let f = Final { result, er: m.cpu.er, ccr: hooks::ccr(&m.cpu), pc: hooks::pc(&m.cpu), total: m.cpu.bus.cpu_state_sum as u64, msgs };
    Ok((m, f, windows))
}

pub struct BInfo {
    pub steps: u64,
    pub syncs: usize,
    /// charge (already x3) of the last executed instruction
    pub last_charge: u64,
    /// the last instruction is the one that crossed a threshold / the total is an exact multiple
    pub sync_on_last: bool,
    pub exact_multiple: bool,
    /// an interrupt request raised by the program's last instruction is pending when PC reaches the exit address
    pub irq_pending_at_exit: bool,
    /// instructions that cross a sync threshold *and* complete one of the run loop's 1 ms pacing periods (20,000
    /// states counted from the previous period's end): two events of the loop's bookkeeping due at one instruction
    pub pace_coincidences: u32,
}

/// (B) the accounting of the statement, re-implemented on top of single steps (hooks), in lockstep with
/// (C) the reference model. Err = the stepped emulator and the reference disagree.
pub fn run_b(g: &Guest, tag: &str, max_steps: u64) -> Result<(Machine, Final, BInfo), String> {
    let mut m = machine(&g.file, &g.args, tag)?;
    // reference over a snapshot of the loaded DRAM (every other region of a fresh machine is zero)
    let snapshot: Vec<u8> = m.cpu.bus.dram.to_vec();
    let base = move |a: u32| -> u8 {
        if (0x400000..0x600000).contains(&a) {
            snapshot[(a - 0x400000) as usize]
        } else {
            0
        }
    };
    let mut s = RefState::new(&base);
    let cpu = &mut m.cpu;
    hooks::set_pc(cpu, cpu.er[2]);
    hooks::init_registers(cpu).map_err(|e| e.to_string())?;
    s.er = cpu.er;
    s.ccr = hooks::ccr(cpu);
    s.pc = hooks::pc(cpu);
    let exit = cpu.exit_addr;
    let mut total: u64 = g.start_total;
    cpu.bus.cpu_state_sum = total as usize;
    let mut expected: Vec<String> = vec![];
    let mut result: Result<(), String> = Ok(());
    let mut steps = 0u64;
    let mut syncs = 0usize;
    let mut last_charge = 0u64;
    let (mut pace, mut pace_coincidences) = (0u64, 0u32);
    let mut sync_on_last = false;
    loop {
        if steps >= max_steps {
            return Err(format!("generator error: program did not end within {} instructions", max_steps));
        }
        // poll
        let r = guarded(|| hooks::try_interrupt(cpu));
        match r {
            Ok(Ok(())) => {}
            Ok(Err(e)) => {
                result = Err(format!("{:#}", e).lines().next().unwrap_or("").to_string());
                break;
            }
            Err(p) => return Err(format!("interrupt poll panicked: {}", p)),
        }
        if hooks::pc(cpu) != s.pc || cpu.er[7] != s.er[7] {
            // an interrupt was accepted (C06/C10 check entries): the reference adopts the new context
            s.er = cpu.er;
            s.ccr = hooks::ccr(cpu);
            s.pc = hooks::pc(cpu);
            let sp = s.er[7] & MASK24;
            for i in 0..4 {
                if let Ok(b) = cpu.bus.read(sp + i) {
                    s.poke(sp + i, b);
                }
            }
        }
        let step = rx::step(&mut s, &[]);
        let res = guarded(|| hooks::step(cpu));
        steps += 1;
        let c = match res {
            Ok(Ok(c)) => c,
            Ok(Err(e)) => {
                match step.outcome {
                    Outcome::AccessFault(_) | Outcome::Reject(_) => {}
                    ref o => return Err(format!("instruction {} at {:06x}: emulator failed ({:#}) but the reference says {:?}", steps, s.pc, e, o)),
                }
                expected.extend(m.rx.try_iter());
                result = Err(format!("{:#}", e).lines().next().unwrap_or("").to_string());
                break;
            }
            Err(p) => return Err(format!("step panicked: {}", p)),
        };
        if step.outcome != Outcome::Ok {
            return Err(format!("instruction {} ({:?}): emulator executed it but the reference says {:?}", steps, step.decoded.class, step.outcome));
        }
        // peripheral registers: the emulator's values are authoritative for the reference
        let periph_read = step.accesses.iter().any(|a| !a.write && (0..a.size).any(|i| is_peripheral_reg(a.addr + i)));
        let periph_write = step.accesses.iter().any(|a| a.write && (0..a.size).any(|i| is_peripheral_reg(a.addr + i) || (0xfee000..=0xfee0ff).contains(&(a.addr + i))));
        if periph_read {
            s.er = cpu.er;
            s.ccr = hooks::ccr(cpu);
        }
        if periph_write {
            for a in step.accesses.iter().filter(|a| a.write) {
                for i in 0..a.size {
                    if let Ok(b) = cpu.bus.read(a.addr + i) {
                        s.poke(a.addr + i, b);
                    }
                }
            }
        }
        for i in 0..8 {
            if (cpu.er[i] ^ s.er[i]) & !step.dont_care_reg[i] != 0 {
                return Err(format!("instruction {} ({:?}): ER{} = {:08x}, reference {:08x}", steps, step.decoded.class, i, cpu.er[i], s.er[i]));
            }
        }
        if (hooks::ccr(cpu) ^ s.ccr) & !step.dont_care_ccr != 0 || hooks::pc(cpu) != s.pc {
            return Err(format!("instruction {} ({:?}): CCR {:02x} PC {:06x}, reference CCR {:02x} PC {:06x}", steps, step.decoded.class, hooks::ccr(cpu), hooks::pc(cpu), s.ccr, s.pc));
        }
        for &a in &step.dont_care_mem {
            if let Ok(b) = cpu.bus.read(a) {
                s.poke(a, b);
            }
        }
        // ---- the statement's accounting
        let state = c as u64 * 3;
        let before = total;
        total += state;
        cpu.bus.cpu_state_sum = total as usize;
        expected.extend(m.rx.try_iter());
        last_charge = state;
        sync_on_last = false;
        pace += state;
        let pace_period_ends = pace >= 20_000;
        if pace_period_ends {
            pace = 0;
        }
        if total / SYNC > before / SYNC {
            expected.push(format!("sync:{}", total));
            syncs += 1;
            sync_on_last = true;
            if pace_period_ends && hooks::pc(cpu) != exit {
                pace_coincidences += 1;
            }
        }
        let mut rest = state;
        while rest > 0 {
            let chunk = rest.min(255);
            let r = guarded(|| hooks::update_modules(cpu, chunk as u8));
            match r {
                Ok(Ok(())) => {}
                Ok(Err(e)) => return Err(format!("update_modules failed: {}", e)),
                Err(p) => return Err(format!("update_modules panicked: {}", p)),
            }
            rest -= chunk;
        }
        if hooks::pc(cpu) == exit {
            break;
        }
    }
    // final memory: reference writes are present in the stepped emulator
    for (&a, &v) in s.overlay.iter() {
        if is_peripheral_reg(a) || (0xfee000..=0xfee0ff).contains(&a) {
            continue;
        }
        if cpu.bus.read(a).ok() != Some(v) {
            return Err(format!("final memory[{:06x}] = {:02x?}, reference {:02x}", a, cpu.bus.read(a).ok(), v));
        }
    }
    let f = Final { result, er: cpu.er, ccr: hooks::ccr(cpu), pc: hooks::pc(cpu), total, msgs: expected };
    let exact_multiple = total > 0 && total % SYNC == 0;
    let irq_pending_at_exit = f.result.is_ok() && hooks::pending_interrupts(&m.cpu) > 0 && hooks::ccr(&m.cpu) & 0x80 == 0;
    Ok((m, f, BInfo { steps, syncs, last_charge, sync_on_last, exact_multiple, irq_pending_at_exit, pace_coincidences }))
}

/// Tune the tail so that (variant 0) the program's last instruction is the one that crosses a sync
/// threshold, (1) the total is exactly a multiple of the interval, (2) the total ends just below one.
pub fn tuned_guest(raw: &[u32], variant: u32, tag: &str) -> Option<Guest> {
    let base_n = 2000u32;
    let probe = |n: u32| -> Option<(u64, u64)> {
        let g = build_guest_tuned(&mut Ent::new(raw), Some(&Tune { n, fill: [0, 0, 0], heavy_end: false }));
        let (_, f, info) = run_b(&g, tag, 3_000_000).ok()?;
        if f.result.is_err() {
            return None;
        }
        Some((f.total, info.last_charge))
    };
    let (t0, last) = probe(base_n)?;
    let (t1, _) = probe(base_n + 1000)?;
    if t1 <= t0 || (t1 - t0) % 1000 != 0 {
        return None; // the per-iteration cost is not constant (e.g. a timer interrupt lands in the loop)
    }
    let c = (t1 - t0) / 1000;
    let fills: [u64; 3] = [24, 54, 60];
    // thresholds: the first multiple comfortably above the untuned total; exact hits need a multiple of 6
    let mut k = (t0 + 400 * c) / SYNC + 1;
    if variant == 1 {
        while (k * SYNC) % 6 != t0 % 6 {
            k += 1;
            if k > 6 {
                return None;
            }
        }
    }
    let goal_total: u64 = match variant {
        0 => {
            // total in [k*SYNC, k*SYNC + last): the last instruction crosses
            let mut t = k * SYNC;
            while t % 6 != t0 % 6 {
                t += 1;
            }
            if t >= k * SYNC + last {
                return None;
            }
            t
        }
        1 => k * SYNC,
        _ => {
            let mut t = k * SYNC - 1;
            while t % 6 != t0 % 6 {
                t -= 1;
            }
            t
        }
    };
    // goal_total = t0 + c*(n - base_n) + R with R in [144, 144 + c): representable by the fillers
    let need = goal_total.checked_sub(t0)?;
    let mut iters = (need.checked_sub(144)?) / c;
    loop {
        let r = need - iters * c;
        // small search for 24a + 54b + 60d == r
        for b in 0..8u64 {
            for d in 0..8u64 {
                let rest = r.checked_sub(54 * b + 60 * d);
                if let Some(rest) = rest {
                    if rest % 24 == 0 && rest / 24 < 40 {
                        let n = base_n as u64 + iters;
                        if n > 3_000_000 {
                            return None;
                        }
                        let tune = Tune { n: n as u32, fill: [(rest / fills[0]) as u32, b as u32, d as u32], heavy_end: false };
                        return Some(build_guest_tuned(&mut Ent::new(raw), Some(&tune)));
                    }
                }
            }
        }
        if iters == 0 || need - (iters - 1) * c > 144 + 4 * c {
            return None;
        }
        iters -= 1;
    }
}

/// Variant 3: slow bus, the program ends with its 294-state instruction, and the tail is solved - with the
/// fillers' charges under this guest's bus settings measured by probing runs - so that a sync threshold falls
/// *inside* that instruction, at a drawn offset (in its first 255 states or behind them).
pub fn tuned_heavy_guest(raw: &[u32], tag: &str) -> Option<Guest> {
    let base_n = 2000u32;
    let probe = |n: u32, fill: [u32; 3]| -> Option<(u64, u64)> {
        let g = build_guest_tuned(&mut Ent::new(raw), Some(&Tune { n, fill, heavy_end: true }));
        let (_, f, info) = run_b(&g, tag, 3_000_000).ok()?;
        if f.result.is_err() {
            return None;
        }
        Some((f.total, info.last_charge))
    };
    let (t0, last) = probe(base_n, [0, 0, 0])?;
    if last <= 255 {
        return None;
    }
    let (t1, _) = probe(base_n + 1000, [0, 0, 0])?;
    if t1 <= t0 || (t1 - t0) % 1000 != 0 {
        return None;
    }
    let c = (t1 - t0) / 1000;
    let mut f = [0u64; 3];
    for i in 0..3 {
        let mut fill = [0u32; 3];
        fill[i] = 1;
        f[i] = probe(base_n, fill)?.0.checked_sub(t0)?;
        if f[i] == 0 {
            return None;
        }
    }
    let k = (t0 + 400 * c) / SYNC + 1;
    // the threshold k*SYNC lies `off` states behind the start of the last instruction, 0 < off <= last
    let off = 1 + (raw.get(7).copied().unwrap_or(0) as u64 % last);
    // total = k*SYNC - off + last
    for adj in 0..64u64 {
        let goal = (k * SYNC + last).checked_sub(((off + adj - 1) % last) + 1)?;
        let need = goal.checked_sub(t0)?;
        let max_fill = f[0] * 40 + f[1] * 8 + f[2] * 8;
        let mut iters = need.saturating_sub(max_fill.min(need)) / c;
        while iters * c <= need {
            let r = need - iters * c;
            if r > max_fill {
                iters += 1;
                continue;
            }
            for b in 0..8u64 {
                for d in 0..8u64 {
                    if let Some(rest) = r.checked_sub(f[1] * b + f[2] * d) {
                        if rest % f[0] == 0 && rest / f[0] < 40 {
                            let n = base_n as u64 + iters;
                            if n > 3_000_000 {
                                return None;
                            }
                            let tune = Tune { n: n as u32, fill: [(rest / f[0]) as u32, b as u32, d as u32], heavy_end: true };
                            return Some(build_guest_tuned(&mut Ent::new(raw), Some(&tune)));
                        }
                    }
                }
            }
            iters += 1;
        }
    }
    None
}

/// Variant 4: a count-down loop whose body (a x INC.B, b x MULXU.B, DEC.L, BNE) is chosen so that - by the run loop's
/// own bookkeeping rule, simulated here over the measured charges - some instruction both crosses a sync threshold and
/// completes one of the loop's 1 ms pacing periods (20,000 states counted from the end of the previous period). The
/// statement relates nothing to pacing: the sync message is due at that instruction all the same, with that total,
/// before anything the next instruction emits. The simulation only steers the generator; the oracle stays the
/// stepped accounting. (With bodies of 100-500 states the periods drift against the thresholds by a few thousand
/// states per threshold, so the first coincidence typically comes after 5-15 thresholds: found by search.)
fn paced_program(a: u32, b: u32, n: u32, extra_mov: bool) -> Guest {
    let mut c: Vec<u8> = vec![];
    if extra_mov {
        emit(&mut c, Insn::MovImm { sz: Sz::L, imm: 0x1234, d: 5 });
    }
    emit(&mut c, Insn::MovImm { sz: Sz::L, imm: n, d: 3 });
    let top = c.len();
    for _ in 0..a {
        emit(&mut c, Insn::Un { op: UnOp::Inc1, sz: Sz::B, d: 12 });
    }
    for _ in 0..b {
        emit(&mut c, Insn::Mulxu { sz: Sz::B, s: 1, d: 2 });
    }
    emit(&mut c, Insn::Un { op: UnOp::Dec1, sz: Sz::L, d: 3 });
    let disp = top as i32 - (c.len() as i32 + 2);
    emit(&mut c, Insn::Bcc { cond: 6, disp, wide: false });
    emit(&mut c, Insn::MovImm { sz: Sz::L, imm: 0, d: 0 });
    let exit = c.len() as u32 + 4;
    emit(&mut c, Insn::Jmp(JTarget::Abs(BASE + exit)));
    c.resize(0x200, 0);
    let file = simple_elf(&c, 0x1000, 0x400, exit);
    Guest { file, args: String::new(), fails: false, features: vec!["pacing-period end and sync threshold on one instruction"], start_total: 0 }
}

pub fn paced_guest(raw: &[u32], tag: &str, _attempts: u32) -> Option<Guest> {
    let total = |a: u32, b: u32, n: u32, x: bool| -> Option<u64> {
        let (_, f, _) = run_b(&paced_program(a, b, n, x), tag, 100_000).ok()?;
        f.result.ok().map(|_| f.total)
    };
    let t0 = total(0, 0, 1, false)?;
    let inc = total(1, 0, 1, false)?.checked_sub(t0)?;
    let mul = total(0, 1, 1, false)?.checked_sub(t0)?;
    let mov = total(0, 0, 1, true)?.checked_sub(t0)?;
    let dec_bne = total(0, 0, 2, false)?.checked_sub(t0)?;
    let dec = inc; // both are one-word instructions without internal cycles
    let bne = dec_bne.checked_sub(dec)?;
    if inc == 0 || mul == 0 || mov == 0 || bne == 0 {
        return None;
    }
    // simulate the run loop's two counters over the loop; first threshold (<= 14) at which they coincide
    let first_hit = |a: u32, b: u32| -> Option<u64> {
        let body: Vec<u64> = std::iter::repeat(inc).take(a as usize).chain(std::iter::repeat(mul).take(b as usize)).chain([dec, bne]).collect();
        let (mut tot, mut pace) = (mov, mov);
        loop {
            for &s in &body {
                let before = tot;
                tot += s;
                pace += s;
                let ends = pace >= 20_000;
                if ends {
                    pace = 0;
                }
                if tot / SYNC > before / SYNC {
                    if ends {
                        return Some(tot / SYNC);
                    }
                    if tot / SYNC >= 14 {
                        return None;
                    }
                }
            }
        }
    };
    let mut hits: Vec<(u32, u32, u64)> = vec![];
    for a in 0..7u32 {
        for b in 0..9u32 {
            if let Some(k) = first_hit(a, b) {
                hits.push((a, b, k));
            }
        }
    }
    if hits.is_empty() {
        return None;
    }
    hits.sort_by_key(|h| h.2);
    hits.truncate(6);
    let (a, b, k) = hits[raw.first().copied().unwrap_or(0) as usize % hits.len()];
    let cost = a as u64 * inc + b as u64 * mul + dec + bne;
    // run a little past the threshold (and past the instruction after it)
    let n = (k * SYNC) / cost + 3 + (raw.get(1).copied().unwrap_or(0) % 40) as u64;
    if n * (a as u64 + b as u64 + 2) > 2_900_000 {
        return None;
    }
    let g = paced_program(a, b, n as u32, false);
    // the stepped accounting must agree that the coincidence is there (it models pacing only as a counter)
    let (_, f, info) = run_b(&g, tag, 3_000_000).ok()?;
    if f.result.is_ok() && info.pace_coincidences > 0 {
        Some(g)
    } else {
        None
    }
}

fn same_memory(a: &Cpu, b: &Cpu) -> Option<String> {
    let pairs: [(&[u8], &[u8], &str, u32); 5] = [
        (&a.bus.dram[..], &b.bus.dram[..], "DRAM", 0x400000),
        (&a.bus.memory[..], &b.bus.memory[..], "on-chip RAM", 0xffbf20),
        (&a.bus.exception_handling_vector[..], &b.bus.exception_handling_vector[..], "vector area", 0),
        (&a.bus.io_registrs1[..], &b.bus.io_registrs1[..], "I/O registers 1", 0xfee000),
        (&a.bus.io_registrs2[..], &b.bus.io_registrs2[..], "I/O registers 2 (timer, ports)", 0xffff20),
    ];
    for (x, y, name, lo) in pairs {
        if x != y {
            let k = x.iter().zip(y.iter()).position(|(p, q)| p != q).unwrap();
            return Some(format!("{} differs at {:06x}: {:02x} vs {:02x}", name, lo as usize + k, x[k], y[k]));
        }
    }
    None
}

/// judge one guest: A against B (+C inside B)
pub fn judge(g: &Guest, tag: &str) -> Result<(Final, BInfo), String> {
    let (mb, fb, info) = run_b(g, &format!("{}b", tag), 3_000_000)?;
    let (ma, fa) = run_a(g, &format!("{}a", tag))?;
    if fa.result.is_ok() != fb.result.is_ok() {
        return Err(format!("run() returned {:?}; stepping the same program gives {:?}", fa.result, fb.result));
    }
    if g.fails != fa.result.is_err() {
        return Err(format!("program {} a failing instruction but run() returned {:?}", if g.fails { "contains" } else { "does not contain" }, fa.result));
    }
    if fa.er != fb.er || fa.ccr != fb.ccr {
        return Err(format!("final registers: run() {:08x?} ccr {:02x}; stepped {:08x?} ccr {:02x}", fa.er, fa.ccr, fb.er, fb.ccr));
    }
    if fa.result.is_ok() && fa.pc != ma.cpu.exit_addr {
        return Err(format!("run() reported success with PC {:06x}, exit address {:06x}", fa.pc, ma.cpu.exit_addr));
    }
    if fa.result.is_ok() && fa.total != fb.total {
        return Err(format!("cumulative state count: run() {} ; sum of 3 x per-instruction charge over {} instructions = {}", fa.total, info.steps, fb.total));
    }
    if fa.result.is_ok() {
        if fa.msgs != fb.msgs {
            let i = fa.msgs.iter().zip(fb.msgs.iter()).position(|(x, y)| x != y).unwrap_or(fa.msgs.len().min(fb.msgs.len()));
            return Err(format!("message sequence differs at index {}: run() {:?} vs expected {:?} ({} vs {} messages)", i, fa.msgs.get(i), fb.msgs.get(i), fa.msgs.len(), fb.msgs.len()));
        }
        if let Some(m) = same_memory(&ma.cpu, &mb.cpu) {
            return Err(format!("final memory of run() vs stepped execution: {}", m));
        }
    } else {
        // a failing run: everything emitted before the failure is the same, and memory too
        let n = fb.msgs.len().min(fa.msgs.len());
        if fa.msgs[..n] != fb.msgs[..n] || fa.msgs.len() != fb.msgs.len() {
            return Err(format!("messages before the failing instruction differ: {:?} vs {:?}", fa.msgs.len(), fb.msgs.len()));
        }
        if let Some(m) = same_memory(&ma.cpu, &mb.cpu) {
            return Err(format!("memory at the failing instruction, run() vs stepped execution: {}", m));
        }
    }
    // time stamps of port messages never decrease and never exceed the total
    let mut last = 0u64;
    for m in &fa.msgs {
        if let Some(rest) = m.strip_prefix("ioport:") {
            if let Some(t) = rest.rsplit(':').next().and_then(|t| t.parse::<u64>().ok()) {
                if t < last || t > fa.total {
                    return Err(format!("ioport time stamp {} after {} (total {})", t, last, fa.total));
                }
                last = t;
            }
        }
    }
    Ok((fa, info))
}

/// One guest through the real release binary with `-m`: exit status and the exact stdout stream (console
/// text + `msg: ` lines) must be what the in-process run produced.
pub fn judge_real(bin: &std::path::PathBuf, g: &Guest, f: &Final, tag: &str) -> Result<Result<(), String>, String> {
    use crate::engine::realbin::*;
    let out = match run_stdout(bin, tag, &g.file, &g.args, std::time::Duration::from_secs(60)) {
        Ok(o) => o,
        Err(RealErr::Inconclusive(m)) => return Err(m),
    };
    let exp = expected_stdout(&f.msgs);
    if f.result.is_ok() {
        if out.status != Some(0) {
            return Ok(Err(format!("real binary: the program runs to its exit address, the process ended with status {:?}; stderr: {}", out.status, out.stderr.lines().last().unwrap_or(""))));
        }
    } else if out.status == Some(0) {
        return Ok(Err("real binary: the program contains a failing instruction, the process reported success (exit status 0)".to_string()));
    }
    if out.stdout != exp {
        let i = out.stdout.iter().zip(exp.iter()).position(|(a, b)| a != b).unwrap_or(out.stdout.len().min(exp.len()));
        let ctx = |v: &[u8]| String::from_utf8_lossy(&v[i.saturating_sub(40)..(i + 60).min(v.len())]).to_string();
        return Ok(Err(format!("real binary: stdout of -m differs from the message sequence of the run at byte {} ({} vs {} bytes): observed ..{:?}.. expected ..{:?}..", i, out.stdout.len(), exp.len(), ctx(&out.stdout), ctx(&exp))));
    }
    Ok(Ok(()))
}

fn real_phase(ctx: &Ctx, guests: &[(Guest, Final)]) -> Stats {
    let Some(bin) = crate::engine::realbin::real_binary() else {
        let mut st = Stats::new();
        st.notes.push("real-binary phase skipped: H8VERIF_REALBIN is not set (run through ./check)".into());
        return st;
    };
    par_shards(ctx, 16, |shard| {
        let mut st = Stats::new();
        for (i, (g, f)) in guests.iter().enumerate() {
            if i % 16 != shard {
                continue;
            }
            match judge_real(&bin, g, f, &format!("c13-{}-{}", shard, i)) {
                Ok(Ok(())) => {
                    st.evaluations += 1;
                    st.class("real binary (-m): exit status and stdout stream equal the in-process run");
                    if f.result.is_err() {
                        st.class("real binary: failing program -> non-zero exit status");
                    }
                }
                Ok(Err(m)) => {
                    st.fail(Failure { signature: format!("run loop | {}", fail_field(&m.replace(|c: char| c.is_ascii_digit(), ""))), detail: m.chars().take(900).collect(), case: guest_json(g) });
                    break;
                }
                Err(m) => st.notes.push(format!("real-binary run inconclusive: {}", m)),
            }
        }
        st
    })
}

fn digest(f: &Final, cpu: &Cpu) -> u64 {
    use std::hash::{Hash, Hasher};
    let mut h = std::collections::hash_map::DefaultHasher::new();
    f.er.hash(&mut h);
    f.ccr.hash(&mut h);
    f.pc.hash(&mut h);
    f.total.hash(&mut h);
    f.msgs.hash(&mut h);
    format!("{:?}", f.result).hash(&mut h);
    cpu.bus.dram[..].hash(&mut h);
    cpu.bus.memory[..].hash(&mut h);
    cpu.bus.io_registrs1[..].hash(&mut h);
    cpu.bus.io_registrs2[..].hash(&mut h);
    cpu.bus.exception_handling_vector[..].hash(&mut h);
    h.finish()
}

fn guest_json(g: &Guest) -> Value {
    json!({"kind": "run-program", "file": hex(&g.file), "args": g.args, "fails": g.fails, "features": g.features, "start_total": g.start_total})
}

pub fn run(ctx: &Ctx) -> i32 {
    if let Some(v) = &ctx.replay {
        let case = v.get("case").unwrap_or(v);
        let (Some(file), Some(args)) = (case.get("file").and_then(|f| f.as_str()).and_then(unhex), case.get("args").and_then(|a| a.as_str())) else { return 2 };
        let g = Guest { file, args: args.to_string(), fails: case.get("fails").and_then(|f| f.as_bool()).unwrap_or(false), features: vec![], start_total: case.get("start_total").and_then(|f| f.as_u64()).unwrap_or(0) };
        let quiet = Redirect::start(false);
        let mut r = judge(&g, "replay").map(|_| ());
        if r.is_ok() {
            // the suspend / resume re-run (three times: the windows fall where the OS puts them)
            if let Ok((m0, f0)) = run_a(&g, "replay-plain") {
                let d0 = digest(&f0, &m0.cpu);
                for k in 0..3u64 {
                    match run_a_paused(&g, "replay-paused", mix(ctx.seed, 0x1305_0000 + k)) {
                        Ok((m, f, windows)) => {
                            if digest(&f, &m.cpu) != d0 {
                                r = Err(format!("final registers / memory / state count / message sequence differ between an undisturbed run and a run suspended and resumed {} times over the control channel", windows));
                                break;
                            }
                        }
                        Err(e) => {
                            r = Err(e);
                            break;
                        }
                    }
                }
            }
        }
        if r.is_ok() && g.start_total == 0 {
            if let (Some(bin), Ok((_, f))) = (crate::engine::realbin::real_binary(), run_a(&g, "replay-real")) {
                match judge_real(&bin, &g, &f, "replay") {
                    Ok(x) => r = x,
                    Err(m) => {
                        drop(quiet);
                        eprintln!("inconclusive: {}", m);
                        return 2;
                    }
                }
            }
        }
        drop(quiet);
        return match r {
            Ok(_) => {
                println!("replay {}: passes", P);
                0
            }
            Err(m) => {
                let f = Failure { signature: "run loop".into(), detail: m, case: case.clone() };
                let p = write_replay(P, &f);
                println!("VIOLATION property={} replay={}", P, p.display());
                println!("  detail: {}", f.detail);
                1
            }
        };
    }
    let tier = ctx.tier;
    let n: u32 = tier.pick(320, 20_000);
    let nshards = 32usize;
    let quiet = Redirect::start(false);
    // phase 1: every program through the run loop and through the stepped accounting
    let collected: std::sync::Mutex<Vec<(Guest, u64, Final)>> = std::sync::Mutex::new(vec![]);
    let mut stats = par_shards(ctx, nshards, |shard| {
        let stats = std::cell::RefCell::new(Stats::new());
        let ent = entropy_n(500);
        set_shrink_iters(24); // every case runs in real (paced) time
        let mut k = 0u32;
        let kc = std::cell::Cell::new(0u32);
        let _ = run_prop(mix(ctx.seed, 0x1301_0000 + shard as u64), n / nshards as u32, &ent, |raw, shrinking| {
            kc.set(kc.get() + 1);
            let tag = format!("c13-{}-{}", shard, kc.get());
            // every third case: the total is placed exactly at a sync threshold (crossed by the last
            // instruction / exact multiple / just below)
            let g = if kc.get() % 10 == 5 && !shrinking {
                // one case in ten: a program in which a sync threshold and the end of a pacing period fall on the
                // same instruction (searched for with the stepped accounting; a handful of attempts)
                match paced_guest(raw, &format!("{}p", tag), 6) {
                    Some(g) => g,
                    None => build_guest(&mut Ent::new(raw)),
                }
            } else if kc.get() % 3 == 0 {
                let variant = (kc.get() / 3) % 4;
                let tuned = if variant == 3 { tuned_heavy_guest(raw, &format!("{}t", tag)) } else { tuned_guest(raw, variant, &format!("{}t", tag)) };
                match tuned {
                    Some(g) => g,
                    None => build_guest(&mut Ent::new(raw)),
                }
            } else {
                build_guest(&mut Ent::new(raw))
            };
            let r = judge(&g, &tag);
            let mut st = stats.borrow_mut();
            match r {
                Ok((fa, info)) => {
                    if !shrinking {
                        st.evaluations += 1;
                        st.class_n("instructions executed by run()", info.steps);
                        for f in &g.features {
                            st.class(&format!("program with {}", f));
                        }
                        let has_msg = fa.msgs.iter().any(|m| m.starts_with("ioport:") || m.starts_with("stdout:"));
                        st.class(&format!("sync thresholds crossed: {}", info.syncs.min(4)));
                        if info.sync_on_last {
                            st.class("the program's last instruction crosses a sync threshold");
                        }
                        if info.exact_multiple {
                            st.class("total is an exact multiple of the sync interval");
                        }
                        if info.pace_coincidences > 0 {
                            st.class("an instruction crosses a sync threshold and completes a 1 ms pacing period");
                        }
                        if info.irq_pending_at_exit {
                            st.class("an unmasked interrupt request raised by the last instruction is pending at the exit address");
                        }
                        if info.syncs >= 1 || has_msg || g.fails {
                            st.nontrivial(key_hash(&g.file), || json!({"features": g.features, "instructions": info.steps, "total_states": fa.total, "messages": fa.msgs.iter().take(8).collect::<Vec<_>>(), "result": format!("{:?}", fa.result)}));
                        }
                        // remember some for the determinism phase
                        if kc.get() % 3 == 1 {
                            if let Ok((ma, f2)) = run_a(&g, &format!("{}d", tag)) {
                                collected.lock().unwrap().push((g.clone(), digest(&f2, &ma.cpu), f2.clone()));
                                if f2 != fa {
                                    st.fail(Failure { signature: "run loop | two runs differ".into(), detail: format!("two runs of the same program differ: {:?} vs {:?}", (f2.total, f2.msgs.len()), (fa.total, fa.msgs.len())), case: guest_json(&g) });
                                }
                            }
                        }
                    }
                    Ok(())
                }
                Err(m) => {
                    let sig = format!("run loop | {}", fail_field(&m.replace(|c: char| c.is_ascii_digit(), "")));
                    let f = Failure { signature: sig.clone(), detail: m.chars().take(700).collect(), case: guest_json(&g) };
                    if ctx.survey {
                        if !shrinking {
                            st.evaluations += 1;
                            st.survey_fail(f);
                        }
                        Ok(())
                    } else {
                        st.failures.clear();
                        st.fail(f);
                        Err(sig)
                    }
                }
            }
        });
        let _ = &mut k;
        stats.into_inner()
    });
    // phase 2: determinism under host load: re-run while every core is kept busy
    let guests = collected.into_inner().unwrap();
    let stop = std::sync::atomic::AtomicBool::new(false);
    let dstats = std::thread::scope(|sc| {
        for _ in 0..ctx.threads {
            sc.spawn(|| {
                let mut x = 1u64;
                while !stop.load(std::sync::atomic::Ordering::Relaxed) {
                    for _ in 0..10_000 {
                        x = x.wrapping_mul(6364136223846793005).wrapping_add(1);
                    }
                    std::hint::black_box(x);
                }
            });
        }
        let r = par_shards(ctx, 8, |shard| {
            let mut st = Stats::new();
            for (i, (g, d, _)) in guests.iter().enumerate() {
                if i % 8 != shard {
                    continue;
                }
                // every other one of them with suspend / resume windows on top
                if i % 2 == 1 {
                    match run_a_paused(g, &format!("c13-pause-{}-{}", shard, i), mix(ctx.seed, 0x1305_0000 + i as u64)) {
                        Ok((m, f, windows)) => {
                            st.evaluations += 1;
                            st.class("re-run with cmd:pause / cmd:start windows from a second thread");
                            st.class_n("suspend/resume windows delivered", windows as u64);
                            if digest(&f, &m.cpu) != *d {
                                st.fail(Failure { signature: "run loop | result depends on suspend/resume".into(), detail: format!("final registers / memory / state count / message sequence differ between an undisturbed run and a run suspended and resumed {} times over the control channel", windows), case: guest_json(g) });
                                break;
                            }
                        }
                        Err(e) => {
                            st.fail(Failure { signature: "run loop | re-run failed".into(), detail: e, case: guest_json(g) });
                            break;
                        }
                    }
                    continue;
                }
                match run_a(g, &format!("c13-load-{}-{}", shard, i)) {
                    Ok((m, f)) => {
                        st.evaluations += 1;
                        st.class("re-run under host load (all cores busy)");
                        if digest(&f, &m.cpu) != *d {
                            st.fail(Failure { signature: "run loop | result depends on host load".into(), detail: "final registers / memory / state count / message sequence differ between an idle and a loaded host".into(), case: guest_json(g) });
                            break;
                        }
                    }
                    Err(e) => {
                        st.fail(Failure { signature: "run loop | re-run failed".into(), detail: e, case: guest_json(g) });
                        break;
                    }
                }
            }
            st
        });
        stop.store(true, std::sync::atomic::Ordering::Relaxed);
        r
    });
    stats.merge(dstats);
    // phase 3: the repository's real binary (src/main.rs: argument parsing, settings, load, run().unwrap())
    let real: Vec<(Guest, Final)> = guests.iter().filter(|(g, _, _)| g.start_total == 0).map(|(g, _, f)| (g.clone(), f.clone())).take(tier.pick(32, 600) as usize).collect();
    stats.merge(real_phase(ctx, &real));
    drop(quiet);
    let _ = std::fs::remove_dir(std::env::temp_dir().join(format!("h8verif-{}", std::process::id())));
    let rule = "cases = proptest-generated terminating guest programs (straight-line arithmetic, memory accesses, calls, counted delay loops sized to land on both sides of 1-3 sync thresholds, port direction/data writes, console output through the MES write call, timer start with an optional interrupt handler installed through set_handler, optional slow-bus prologue, optionally a failing instruction at the end) wrapped into an ELF whose ___exit is the program's end, with generated argument strings. Drivers: (A) elf::load + the real Cpu::run() in-process (real pacing left in) with all messages captured; (B) the statement's accounting re-implemented over single steps (poll, step, total += 3 x charge, sync when floor(total/2,000,000) grows, peripherals fed the same amount) in lockstep with (C) the reference model. Oracle: run() succeeds iff the program has no failing instruction and then PC == exit address; final registers, CCR, all five memory regions (incl. timer and port registers = what peripherals saw), cumulative state count and the exact message sequence (ioport/stdout/sync, order and stamps) of A equal B; a third of the programs is run again, and again while all cores are kept busy - half of those while a second thread suspends and resumes the loop over the control channel (cmd:pause / cmd:start windows with ignored lines in between, at moments the OS picks): byte-identical results. Programs also print their own argv words (MES write of the pointer found at run time), write values into unrelated on-chip I/O registers, end with a burst of 3-255 port messages (1 in 4), and 1 in 4 starts at the last sync multiple below 2^32 (state count, stamps and sync totals cross 2^32). A third of the programs get a tail solved so that the total lands exactly on / just before / just after a threshold; one in ten is a long slow-bus program searched for (with the stepped accounting) such that one instruction both crosses a sync threshold and completes one of the loop's 1 ms pacing periods. Phase 3: 32 (quick) / 600 (thorough) programs through the repository's real release binary (-m): exit status 0 iff no failing instruction, stdout byte stream == console text + `msg: ` lines of the in-process run (covers src/main.rs incl. the argument string). Non-trivial = total crosses >= 1 sync threshold, or emits an ioport/stdout message, or contains a failing instruction; distinct by ELF contents.";
    finish(ctx, P, stats, rule, vec!["'independent of host speed' is sampled under CPU contention, not proved; no wall-clock value is ever asserted".into(), "absolute per-instruction charges are C20's subject: C13 only relates run()'s totals to the charges the steps return".into()], Map::new())
}
