//! C14 - the MES system-call trap delivers console output and handler setup faithfully.

use super::common::*;
use super::driver::*;
use crate::engine::emu::Emu;
use crate::engine::program::*;
use crate::engine::run::*;
use crate::engine::stats::*;
use crate::engine::stdio::Redirect;
use crate::engine::stepcase::*;
use crate::gen::*;
use crate::refmodel::exec::{self as rx, BusCfg, Event, MASK24};
use crate::refmodel::insn::*;
use serde_json::{json, Map, Value};

const P: &str = "C14";

#[derive(Clone, Debug)]
pub struct Tag {
    pub kind: u8, // 0 write, 1 set_handler, 2 other id
    pub len: usize,
    pub nontrivial_text: bool,
    pub vec: u32,
}

/// valid UTF-8 text weighted to NUL, newline, backslash, quote and multi-byte scalars
pub fn utf8_text(e: &mut Ent, max_bytes: usize) -> Vec<u8> {
    let target = match e.below(6) {
        0 => 0,
        1 => 1 + e.below(8) as usize,
        2 => e.pick(&[4096usize, 4095, 1024, 255, 256, 1025, 1026, 2047, 2048, 2049, 3000]),
        _ => e.below(200) as usize,
    }
    .min(max_bytes);
    // where the newlines are: sprinkled (1 character in 16), none at all, or exactly one at a drawn position - at
    // the start, the end, or so that a newline-free tail of about 2^10 / 2^11 / 2^12 bytes follows it (what a
    // line-buffered console writer treats differently from the lines before)
    let nl_mode = e.below(4);
    let nl_at = match e.below(8) {
        0 => 0,
        1 => target.saturating_sub(1),
        2 => target.saturating_sub(e.pick(&[1023usize, 1024, 1025, 1026])),
        3 => target.saturating_sub(e.pick(&[2047usize, 2048, 2049, 4095])),
        _ => e.below(target as u32 + 1) as usize,
    };
    let mut s = String::new();
    // characters come from a small generator seeded by draws (long texts must not exhaust the draw vector)
    let mut x = e.u32() | 1;
    let style = e.below(4);
    while s.len() < target {
        x = x.wrapping_mul(1664525).wrapping_add(1013904223);
        let r = x >> 8;
        let c = match (r % 16, style) {
            (0, _) if nl_mode >= 2 => 'N',
            (0, _) => '\n',
            (1, _) => '\\',
            (2, _) => '\0',
            (3, _) => '"',
            (4, 1) | (4, 2) => char::from_u32(0x80 + (r >> 4) % 0x700).unwrap_or('é'),
            (5, 2) => char::from_u32(0x800 + (r >> 4) % 0xd000).unwrap_or('日'),
            (6, 2) => char::from_u32(0x10000 + (r >> 4) % 0x10000).unwrap_or('😀'),
            (7, _) => 'n', // a literal n after a backslash now and then
            (8, 3) => ':',
            _ => (0x20 + ((r >> 4) % 0x5f) as u8) as char,
        };
        if s.len() + c.len_utf8() > target {
            s.push('x');
        } else {
            s.push(c);
        }
    }
    if nl_mode == 3 && !s.is_empty() {
        // exactly one newline: replace the character at (the boundary at or before) the drawn position
        let mut p = nl_at.min(s.len() - 1);
        while !s.is_char_boundary(p) {
            p -= 1;
        }
        let ch_len = s[p..].chars().next().map(|c| c.len_utf8()).unwrap_or(1);
        let mut t = String::with_capacity(s.len());
        t.push_str(&s[..p]);
        t.push('\n');
        for _ in 1..ch_len {
            t.push('x');
        }
        t.push_str(&s[p + ch_len..]);
        s = t;
    }
    s.into_bytes()
}

/// a block of `size` bytes in on-chip RAM or DRAM (incl. the very end of the regions) that overlaps
/// nothing in `avoid`; the block is added to `avoid`
fn place(e: &mut Ent, size: u32, avoid: &mut Vec<(u32, u32)>, even: bool) -> u32 {
    let free = |a: u32, avoid: &Vec<(u32, u32)>| avoid.iter().all(|&(lo, n)| a + size + 8 <= lo || lo + n + 8 <= a);
    for _ in 0..24 {
        let r = if e.chance(1, 2) && size < 0x2000 { Region::Ram } else { Region::Dram };
        let a = e.addr_in(r, size.max(2) + 2, 1);
        let a = if even { (a + 1) & !1 } else { a };
        if free(a, avoid) {
            avoid.push((a, size));
            return a;
        }
    }
    // fallback: first free slot of a DRAM arena
    let mut a = 0x500000u32;
    while !free(a, avoid) {
        a += 0x40;
    }
    avoid.push((a, size));
    a
}

pub fn build(e: &mut Ent, kind: Option<u8>, vecn: Option<u32>) -> (StepCase, Tag) {
    let kind = kind.unwrap_or_else(|| match e.below(8) {
        0..=4 => 0,
        5 | 6 => 1,
        _ => 2,
    });
    let mut er = e.regfile();
    let ccr = e.u8();
    let mut patches = vec![];
    let pc = e.code_addr(2, &[]);
    let mut avoid: Vec<(u32, u32)> = vec![(pc, 16)];
    let mut tag = Tag { kind, len: 0, nontrivial_text: false, vec: 0 };
    match kind {
        0 => {
            let text = utf8_text(e, 4096);
            let buf = place(e, text.len() as u32, &mut avoid, false);
            let blk = place(e, 12, &mut avoid, true);
            let fd = e.val32();
            let mut b = vec![];
            b.extend(fd.to_be_bytes());
            b.extend((buf | if e.chance(1, 8) { 0 } else { 0 }).to_be_bytes());
            b.extend((text.len() as u32).to_be_bytes());
            patches.push((blk, b));
            if !text.is_empty() {
                patches.push((buf, text.clone()));
            }
            er[0] = 104;
            er[1] = blk;
            tag.len = text.len();
            tag.nontrivial_text = text.iter().any(|c| !(0x20..=0x7e).contains(c));
        }
        1 => {
            let v = vecn.unwrap_or_else(|| match e.below(5) {
                0 => e.u32(),
                // a valid vector number in the low bits with anything above it (a number that is shifted, scaled or
                // truncated before it is checked passes for the vector): must be ignored like any other number
                1 => {
                    let n = 1 + e.below(63);
                    match e.below(4) {
                        0 => n | (1u32 << (6 + e.below(26))),
                        1 => n | 0x8000_0000,
                        2 => n | 0x4000_0000,
                        _ => n | ((e.u16() as u32).max(1) << 16),
                    }
                }
                _ => e.below(256),
            });
            let addr = (e.data_addr(&[Region::Ram, Region::Dram], 2, 2)) | if e.chance(1, 2) { 0 } else { (e.below(0xa6) as u32) << 24 };
            let blk = place(e, 8, &mut avoid, true);
            let mut b = vec![];
            b.extend(v.to_be_bytes());
            b.extend(addr.to_be_bytes());
            patches.push((blk, b));
            er[0] = 113;
            er[1] = blk;
            tag.vec = v;
        }
        _ => {
            er[0] = match e.below(4) {
                0 => e.pick(&[0u32, 1, 103, 105, 112, 114, 0xffff_ffff, 104 << 8, 0x100 + 104]),
                // a supported number in the low bits with anything above it (the call number is all 32 bits of ER0:
                // a comparison of a truncated or masked register takes these for 104 / 113), and one-bit neighbours
                1 => {
                    let n = e.pick(&[104u32, 113]);
                    match e.below(4) {
                        0 => n | (1u32 << (8 + e.below(24))),
                        1 => n | ((e.u8() as u32).max(1) << 24),
                        2 => n | ((e.u16() as u32).max(1) << 16),
                        _ => n ^ (1u32 << e.below(8)),
                    }
                }
                _ => {
                    let x = e.val32();
                    if x == 104 || x == 113 {
                        x + 1
                    } else {
                        x
                    }
                }
            };
            er[1] = e.data_addr(&[Region::Ram, Region::Dram], 12, 2);
        }
    }
    let code = encode(&Insn::Trapa(0));
    (StepCase { code, pc, er, ccr, patches, bus: e.bus_cfg(), irq: None, primer: None }, tag)
}

fn classify(case: &StepCase, j: &Judged, t: &Tag, stats: &mut Stats) {
    match t.kind {
        0 => {
            stats.class("write call (ER0 = 104)");
            if t.len == 0 {
                stats.class("write of length 0");
            }
            if t.len >= 1024 {
                stats.class("write of length >= 1024");
            }
            if t.len > 0 && t.nontrivial_text {
                stats.nontrivial(key_hash(&(&case.patches, case.er[1])), || json!({"case": case.brief().chars().take(300).collect::<String>(), "messages": j.msgs.iter().map(|m| m.chars().take(80).collect::<String>()).collect::<Vec<_>>()}));
            }
        }
        1 => {
            stats.class("set_handler call (ER0 = 113)");
            if (1..64).contains(&t.vec) {
                stats.class("set_handler with a vector in 1-63");
            }
        }
        _ => stats.class("unsupported call number (must fail)"),
    }
}

// ---- sequences of calls, set_handler followed by an interrupt, console stream

struct Seq {
    prog: Prog,
    stop: u32,
    texts: Vec<Vec<u8>>,
    /// (vector, handler address) installed by the sequence's set_handler calls, in order
    handlers: Vec<(u32, u32)>,
}

fn build_seq(e: &mut Ent) -> Seq {
    let ncalls = 1 + e.below(20) as usize;
    let code = if e.chance(1, 2) { 0xffc000 } else { 0x430000 + 2 * e.below(0x1000) };
    let mut body: Vec<u8> = vec![];
    let mut image: Vec<(u32, Vec<u8>)> = vec![];
    // code, handler slots, stack, MES's GOT save words
    let mut avoid: Vec<(u32, u32)> = vec![(code, 0x400), (0xffd000, 0x1400), (0xffef00, 0x140), (0xfffd10, 0x110)];
    let mut texts = vec![];
    let mut handlers = vec![];
    for _ in 0..ncalls {
        if e.chance(3, 4) {
            let cap = if e.chance(1, 5) { 4096 } else { 300 };
            let text = utf8_text(e, cap);
            let buf = place(e, text.len() as u32, &mut avoid, false);
            let blk = place(e, 12, &mut avoid, true);
            let mut b = vec![];
            b.extend(e.u32().to_be_bytes());
            b.extend(buf.to_be_bytes());
            b.extend((text.len() as u32).to_be_bytes());
            image.push((blk, b));
            if !text.is_empty() {
                image.push((buf, text.clone()));
            }
            body.extend(encode(&Insn::MovImm { sz: Sz::L, imm: 104, d: 0 }));
            body.extend(encode(&Insn::MovImm { sz: Sz::L, imm: blk, d: 1 }));
            body.extend(encode(&Insn::Trapa(0)));
            texts.push(text);
        } else {
            // vectors: any, or related to an earlier one of this sequence (the same again, 4 x, / 4, 2 x, neighbours - a
            // vector number is also a table index and a byte offset); handlers: their own address, or one shared with an
            // earlier installation (one handler serving several vectors, a vector re-registered with the same handler)
            let v = match (handlers.last().copied(), e.below(3)) {
                (Some((pv, _)), 0) => {
                    let pv: u32 = pv;
                    let c = [pv, pv * 4, pv / 4, pv * 2, pv / 2, pv + 1, pv.saturating_sub(1), pv ^ 1];
                    let x = c[e.below(c.len() as u32) as usize];
                    if (1..64).contains(&x) { x } else { 1 + e.below(63) }
                }
                _ => 1 + e.below(63),
            };
            let h = match (handlers.is_empty(), e.below(3)) {
                (false, 0) => handlers[e.below(handlers.len() as u32) as usize].1,
                _ => 0xffd000 + 0x10 * v + 0x400 * e.below(4),
            };
            let blk = place(e, 8, &mut avoid, true);
            let mut b = vec![];
            b.extend(v.to_be_bytes());
            b.extend((h | ((e.below(0xa6)) << 24)).to_be_bytes());
            image.push((blk, b));
            body.extend(encode(&Insn::MovImm { sz: Sz::L, imm: 113, d: 0 }));
            body.extend(encode(&Insn::MovImm { sz: Sz::L, imm: blk, d: 1 }));
            body.extend(encode(&Insn::Trapa(0)));
            handlers.push((v, h));
        }
    }
    let stop = code + body.len() as u32;
    image.push((code, body));
    let mut er = e.regfile();
    er[7] = 0xfff040;
    let (ccr, bus) = (e.u8() & 0x7f, e.bus_cfg());
    image.extend(e.env_noise());
    Seq { prog: Prog { image, er, ccr, pc: code, bus }, stop, texts, handlers }
}

fn run_seq(emu: &mut Emu, s: &Seq) -> Result<usize, String> {
    let stop = s.stop;
    // after the calls: raise each installed vector once; it must enter the installed address
    let mut pending: Vec<(u32, u32)> = {
        // the last installation per vector wins
        let mut m = std::collections::BTreeMap::new();
        for &(v, h) in &s.handlers {
            m.insert(v, h);
        }
        m.into_iter().collect()
    };
    let mut expect_pc: Option<u32> = None;
    let mut violation = None;
    let mut calls_done = false;
    let opts = LsOpts { quirks: &[], max_steps: 400, full_dram: false, compare_memory: true };
    let out = lockstep(emu, &s.prog, &opts, &mut |v: &View| {
        if let Some(pc) = expect_pc.take() {
            if v.pc != pc {
                violation = Some(format!("interrupt after set_handler entered {:06x}, the installed address is {:06x}", v.pc, pc));
                return Ctl::Stop;
            }
        }
        if v.pc == stop {
            calls_done = true;
        }
        if !calls_done {
            return Ctl::Step;
        }
        // all calls done: raise each installed vector once (interrupts must be enabled for that)
        if pending.is_empty() {
            return Ctl::Stop;
        }
        if v.ccr & rx::F_I != 0 {
            return Ctl::SetCcr(v.ccr & !rx::F_I);
        }
        let (vec, h) = pending.pop().unwrap();
        expect_pc = Some(h & MASK24);
        Ctl::Irq(vec as u8)
    });
    if let Some(v) = violation {
        return Err(v);
    }
    match &out.end {
        End::Stopped => {}
        End::Mismatch(m) => return Err(m.clone()),
        other => return Err(format!("sequence did not run to its end: {:?}", other)),
    }
    let expect: Vec<String> = s.texts.iter().map(|t| format!("stdout:{}", String::from_utf8_lossy(t))).collect();
    let got: Vec<String> = out.msgs.iter().filter(|m| m.starts_with("stdout:")).cloned().collect();
    if got != expect {
        let i = got.iter().zip(expect.iter()).position(|(a, b)| a != b).unwrap_or(got.len().min(expect.len()));
        return Err(format!("{} write calls produced {} stdout messages; first difference at call {}: {:?} vs expected {:?}", expect.len(), got.len(), i, got.get(i), expect.get(i)));
    }
    Ok(s.texts.len())
}

pub fn run(ctx: &Ctx) -> i32 {
    if let Some(v) = &ctx.replay {
        let _quiet = Redirect::start(false);
        let case = v.get("case").unwrap_or(v);
        if case.get("kind").and_then(|k| k.as_str()) == Some("mes-sequence") {
            let Some(prog) = case.get("prog").and_then(Prog::from_json) else { return 2 };
            let texts: Vec<Vec<u8>> = case.get("texts").and_then(|t| t.as_array()).map(|a| a.iter().filter_map(|x| x.as_str().and_then(unhex)).collect()).unwrap_or_default();
            let handlers = case.get("handlers").and_then(|t| t.as_array()).map(|a| a.iter().filter_map(|p| Some((p.get(0)?.as_u64()? as u32, p.get(1)?.as_u64()? as u32))).collect()).unwrap_or_default();
            let stop = case.get("stop").and_then(|s| s.as_u64()).unwrap_or(0) as u32;
            let mut emu = Emu::new(&ctx.base);
            let r = run_seq(&mut emu, &Seq { prog, stop, texts, handlers });
            drop(_quiet);
            return match r {
                Ok(_) => {
                    println!("replay {}: sequence passes", P);
                    0
                }
                Err(m) => {
                    let f = Failure { signature: "MES call sequence".into(), detail: m, case: case.clone() };
                    let p = write_replay(P, &f);
                    println!("VIOLATION property={} replay={}", P, p.display());
                    println!("  detail: {}", f.detail);
                    1
                }
            };
        }
        let code = {
            // replay_step prints; keep the guest's console output away from it by running it first quietly
            drop(_quiet);
            replay_step(ctx, P, v)
        };
        return code;
    }
    let tier = ctx.tier;
    // guest console output goes to the process's stdout: keep it away from the verdict lines
    let quiet = Redirect::start(false);
    let enumerated = |emit: &mut dyn FnMut(&str, Builder<Tag>)| {
        for v in 0..256u32 {
            for _k in 0..tier.pick(8, 64) {
                emit("set_handler x every vector number 0-255", &|e| build(e, Some(1), Some(v)));
            }
        }
    };
    let mut stats = Drive {
        ctx,
        property: P,
        aspects: Aspects { events: true, ..Aspects::STATE },
        salt: 0x1401_0000,
        nshards: 64,
        enumerated: &enumerated,
        random_cases: tier.pick(600_000, 30_000_000),
        build_random: &|e| build(e, None, None),
        classify: &|c, j, t: &Tag, s| classify(c, j, t, s),
        all_quirks: false,
    }
    .run();
    stats.exhaustive_subspaces.insert("set_handler vector numbers 0-255".into(), 256);

    // sequences of calls + set_handler followed by an interrupt of that vector
    let nseq: u32 = tier.pick(80_000, 1_500_000);
    let nshards = 32usize;
    let sstats = par_shards(ctx, nshards, |shard| {
        let w = Worker::new(ctx);
        let ent = entropy_n(500);
        let _ = run_prop(mix(ctx.seed, 0x1402_0000 + shard as u64), nseq / nshards as u32, &ent, |raw, shrinking| {
            let s = build_seq(&mut Ent::new(raw));
            let r = run_seq(&mut w.emu.borrow_mut(), &s);
            let mut st = w.stats.borrow_mut();
            match r {
                Ok(n) => {
                    if !shrinking {
                        st.evaluations += 1;
                        st.class("sequence of MES calls");
                        if !s.handlers.is_empty() {
                            st.class("sequence: set_handler followed by an interrupt of that vector");
                        }
                        if n >= 2 || !s.handlers.is_empty() {
                            st.nontrivial(key_hash(&(&s.texts, &s.handlers, s.prog.pc)), || json!({"write_calls": n, "handlers": s.handlers, "first_text": s.texts.first().map(|t| String::from_utf8_lossy(t).chars().take(60).collect::<String>())}));
                        }
                    }
                    Ok(())
                }
                Err(m) => {
                    let sig = format!("MES call sequence | {}", fail_field(&m.replace(|c: char| c.is_ascii_digit(), "")));
                    let f = Failure { signature: sig.clone(), detail: m.chars().take(600).collect(), case: json!({"kind": "mes-sequence", "prog": s.prog.to_json(), "stop": s.stop, "texts": s.texts.iter().map(|t| hex(t)).collect::<Vec<_>>(), "handlers": s.handlers}) };
                    if ctx.survey {
                        if !shrinking {
                            st.evaluations += 1;
                            st.survey_fail(f);
                        }
                        Ok(())
                    } else {
                        st.failures.clear();
                        st.fail(f);
                        Err(sig)
                    }
                }
            }
        });
        w.stats.into_inner()
    });
    stats.merge(sstats);
    drop(quiet);

    // console half: the bytes must appear once, in order, on the emulator's console (= process stdout)
    let ncon: u32 = tier.pick(300, 5000);
    {
        let mut emu = Emu::new(&ctx.base);
        let mut runner = proptest_runner(mix(ctx.seed, 0x1403_0000), 1);
        let ent = entropy_n(500);
        for i in 0..ncon {
            let raw = sample(&mut runner, &ent);
            let s = build_seq(&mut Ent::new(&raw));
            let cap = Redirect::start(true);
            let r = run_seq(&mut emu, &s);
            let console = cap.finish();
            let expect: Vec<u8> = s.texts.iter().flat_map(|t| t.iter().copied()).collect();
            stats.evaluations += 1;
            if r.is_ok() && console != expect {
                let k = console.iter().zip(expect.iter()).position(|(a, b)| a != b).unwrap_or(console.len().min(expect.len()));
                stats.fail(Failure {
                    signature: "MES call sequence | console stream".into(),
                    detail: format!("console received {} bytes, the write calls emitted {} bytes; first difference at offset {}", console.len(), expect.len(), k),
                    case: json!({"kind": "mes-sequence", "prog": s.prog.to_json(), "stop": s.stop, "texts": s.texts.iter().map(|t| hex(t)).collect::<Vec<_>>(), "handlers": s.handlers}),
                });
                break;
            }
            if let Err(m) = r {
                stats.fail(Failure { signature: "MES call sequence | console phase".into(), detail: m.chars().take(400).collect(), case: json!({"kind": "mes-sequence", "prog": s.prog.to_json(), "stop": s.stop, "texts": s.texts.iter().map(|t| hex(t)).collect::<Vec<_>>(), "handlers": s.handlers}) });
                break;
            }
            stats.class("console stream compared with the emitted bytes");
            let _ = i;
        }
    }
    let rule = "cases = single steps of TRAPA #0 with ER0 = 104 (argument block and buffer placed independently in on-chip RAM / DRAM incl. region ends, lengths 0-4096, valid UTF-8 weighted to NUL, newline, backslash, quote and 2-4-byte scalars, arbitrary fd), ER0 = 113 with every vector number 0-255 (and arbitrary 32-bit values) and handler addresses with arbitrary top byte, and every other call number (must fail); plus generated sequences of 1-20 calls run in lockstep with the reference, each installed vector then raised once through the interrupt controller (must enter the installed address), and the same sequences with the process's console captured. Oracle = exactly one `stdout:<text>` message per write call with byte-identical text in call order, console stream == concatenation of the buffers, PC at the next instruction, all registers / CCR / memory unchanged (full comparison; set_handler: only the vector entry's low 24 bits), unsupported numbers -> error. Non-trivial = a non-empty text with a byte outside printable ASCII, or a sequence with >= 2 write calls or a set_handler + interrupt; distinct by contents and placement.";
    let mut extra = Map::new();
    extra.insert("masked_details".into(), json!(["top byte of the installed vector entry", "the per-vector GOT save word MES keeps at H'FFFD10 + 4 x vector"]));
    finish(ctx, P, stats, rule, vec!["handler addresses use top bytes below 0xA6 here; larger ones are C15's subject (arithmetic overflow in the overflow-checking build)".into()], extra)
}
