//! "Instruction soups": straight-line programs of 4-48 generated instructions of *every* implemented form,
//! executed back to back on one emulator state (no restore between the instructions) in lockstep with the
//! reference model. The single-step checks set every pre-state from outside; a soup is what a guest does:
//! the operands of instruction k are what instructions 1..k-1 left behind (registers, flags, memory), so
//! state that an implementation carries from one instruction into the next - a cached operand, a stale
//! intermediate, something not reset after a rare branch - is exercised the way real code exercises it.
//!
//! Generation is *model guided*: the generator runs the reference model while it emits code, so it knows
//! the register contents at every point and can pick displacements / pointer set-ups that make each
//! memory operand land in one of the data zones (construction, not rejection); an instruction the
//! reference does not give a defined outcome for (DIVXU overflow, odd stack...) is rolled back and another
//! one is drawn. Data zones are disjoint from the code, so no soup modifies its own instructions.
//!
//! Oracle: after every instruction registers, CCR, PC and the bytes written must equal the reference;
//! at the end the whole memory (windows + small regions completely); with `charge` also the states
//! returned by every instruction == the reference's cycle mix x the bus cost rule.

use crate::engine::emu::*;
use crate::engine::program::*;
use crate::engine::run::*;
use crate::engine::stats::*;
use crate::engine::stepcase::PreImage;
use crate::gen::*;
use crate::refmodel::exec::{self as rx, total_cost, BusCfg, Outcome, Quirk, RefState, MASK24};
use crate::refmodel::insn::*;
use serde_json::{json, Value};
use std::collections::HashMap;

#[derive(Clone, Copy, Debug, PartialEq, Eq)]
pub enum Flavor {
    Mov,
    Arith,
    Logic,
    Bit,
    Ea,
    Flow,
    All,
}
impl Flavor {
    pub fn name(self) -> &'static str {
        match self {
            Flavor::Mov => "mov",
            Flavor::Arith => "arith",
            Flavor::Logic => "logic",
            Flavor::Bit => "bit",
            Flavor::Ea => "ea",
            Flavor::Flow => "flow",
            Flavor::All => "all",
        }
    }
    pub fn from_name(s: &str) -> Flavor {
        match s {
            "mov" => Flavor::Mov,
            "arith" => Flavor::Arith,
            "logic" => Flavor::Logic,
            "bit" => Flavor::Bit,
            "ea" => Flavor::Ea,
            "flow" => Flavor::Flow,
            _ => Flavor::All,
        }
    }
    /// weights of the categories [reg move, memory move, arithmetic, logic/shift, bit, flow]
    fn weights(self) -> [u32; 6] {
        match self {
            Flavor::Mov => [3, 8, 1, 1, 1, 2],
            Flavor::Arith => [1, 2, 9, 1, 1, 2],
            Flavor::Logic => [1, 2, 1, 9, 1, 2],
            Flavor::Bit => [1, 2, 1, 1, 9, 2],
            Flavor::Ea => [1, 8, 1, 1, 4, 4],
            Flavor::Flow => [1, 2, 2, 1, 1, 9],
            Flavor::All => [2, 4, 3, 3, 3, 3],
        }
    }
}

#[derive(Clone, Debug)]
pub struct Soup {
    pub prog: Prog,
    pub stop: u32,
    /// instructions on the executed path (as simulated by the generator)
    pub path_len: usize,
    pub forms: Vec<String>,
    /// (action index, vector): an interrupt of that vector is requested and polled for before that action, if
    /// CCR.I is clear then (every vector 1-31 outside the trap / call slots has its own RTE stub)
    pub irqs: Vec<(u16, u8)>,
    /// (action index, address, byte): before that action something *outside* the instruction stream writes the
    /// byte through the bus write path (what a `u8:` control line or a service of the emulator does between two
    /// instructions) - mostly into the operand the previous instruction has just accessed
    pub pokes: Vec<(u16, u32, u8)>,
}

/// vectors the soups raise interrupts on: 1-31 without TRAPA #1-#3 (9-11) and the @@aa:8 slot (16)
pub const IRQ_VECTORS: [u8; 27] = [1, 2, 3, 4, 5, 6, 7, 8, 12, 13, 14, 15, 17, 18, 19, 20, 21, 22, 23, 24, 25, 26, 27, 28, 29, 30, 31];

/// data zones (lo, len): disjoint from every code placement
const Z_RAM: (u32, u32) = (0xffd800, 0x800);
const Z_DRAM: (u32, u32) = (0x500000, 0x10000);
const Z_A8: (u32, u32) = (0xffff00, 0x20);
const Z_VEC: (u32, u32) = (0x000080, 0x80);
const Z_DRAM_END: (u32, u32) = (0x5fff80, 0x80);
const Z_RAM_START: (u32, u32) = (0xffbf20, 0x80);
const ZONES: [(u32, u32); 6] = [Z_RAM, Z_DRAM, Z_A8, Z_VEC, Z_DRAM_END, Z_RAM_START];

fn zone_of(a: u32, size: u32) -> Option<usize> {
    let a = a & MASK24;
    ZONES.iter().position(|&(lo, len)| a >= lo && a + size <= lo + len)
}

fn target_in(e: &mut Ent, zone: usize, size: u32) -> u32 {
    let (lo, len) = ZONES[zone];
    let al = if size == 1 { 1 } else { 2 };
    let slots = (len - size) / al + 1;
    let k = match e.below(6) {
        0 => 0,
        1 => slots - 1,
        _ => e.below(slots),
    };
    lo + k * al
}

struct Gen<'s, 'e, 'v> {
    s: RefState<'s>,
    e: &'e mut Ent<'v>,
    code: Vec<u8>,
    base: u32,
    leaf: u32,
    handler: u32,
    pushed: Vec<Sz>,
    path: usize,
    forms: Vec<String>,
    /// bytes whose value the reference does not constrain (call-frame top bytes, STC.W layout): the generator
    /// never reads them back, so the path it simulates is the path every correct implementation takes
    dc: std::collections::HashSet<u32>,
    /// data access of the last executed instruction (address, size)
    last_access: Option<(u32, u32)>,
    pokes: Vec<(u16, u32, u8)>,
    allow_pokes: bool,
}

const DATA_B: [u8; 8] = [0, 1, 2, 3, 8, 9, 10, 11];
const DATA_W: [u8; 8] = [0, 1, 2, 3, 8, 9, 10, 11];
const ANY_B: [u8; 14] = [0, 1, 2, 3, 4, 5, 6, 8, 9, 10, 11, 12, 13, 14];

impl<'s, 'e, 'v> Gen<'s, 'e, 'v> {
    fn cursor(&self) -> u32 {
        self.base + self.code.len() as u32
    }
    /// a register to write: mostly one of the data registers ER0-ER3, now and then part of a pointer register
    fn dreg(&mut self, sz: Sz) -> u8 {
        let any = self.e.chance(1, 8);
        match sz {
            Sz::B => {
                if any {
                    self.e.pick(&ANY_B)
                } else {
                    self.e.pick(&DATA_B)
                }
            }
            Sz::W => {
                if any {
                    self.e.pick(&ANY_B)
                } else {
                    self.e.pick(&DATA_W)
                }
            }
            Sz::L => {
                if any {
                    self.e.below(7) as u8
                } else {
                    self.e.below(4) as u8
                }
            }
        }
    }
    fn sreg(&mut self, sz: Sz) -> u8 {
        match sz {
            Sz::B | Sz::W => self.e.below(16) as u8,
            Sz::L => self.e.below(8) as u8,
        }
    }
    fn sz(&mut self) -> Sz {
        self.e.pick(&[Sz::B, Sz::W, Sz::L])
    }
    fn imm(&mut self, sz: Sz) -> u32 {
        // operand words that read like instruction words - prefixes above all: an operand is data, whatever it
        // looks like (a decoder that remembers 'the word before' must not be fooled by it)
        if self.e.chance(1, 12) {
            let w = self.e.pick(&[0x01f0u32, 0x0100, 0x0140, 0x01c0, 0x01d0, 0x7800, 0x7c00, 0x7d00, 0x7e00, 0x7f00, 0x6a20, 0x6b20, 0x5800, 0x5470, 0x5670, 0x5700]);
            return match sz {
                Sz::B => w >> 8,
                Sz::W => w,
                Sz::L => if self.e.chance(1, 2) { w } else { (w << 16) | self.e.pick(&[0x01f0u32, 0x0100, 0x6466, 0x0000]) },
            } & sz.mask();
        }
        // now and then an immediate related to current register contents (coincidences)
        if self.e.chance(1, 5) {
            let r = self.s.er[self.e.below(7) as usize];
            let v = match self.e.below(4) {
                0 => r,
                1 => !r,
                2 => r.wrapping_neg(),
                _ => r.wrapping_add(1),
            };
            return v & sz.mask();
        }
        self.e.val(sz)
    }

    /// Emit the instructions, run the reference over them; true if every one had a defined successful
    /// outcome and execution is back on the main line (pc == end of the emitted code).
    fn try_emit(&mut self, insns: &[Insn]) -> bool {
        let snap = (self.s.er, self.s.ccr, self.s.pc, self.s.overlay.clone(), self.code.len(), self.path, self.forms.len());
        let mut ok = true;
        for i in insns {
            let bytes = encode(i);
            // the encoder must be the inverse of the decoder for what we emit
            match decode_bytes(&bytes).class {
                Class::Impl(j) if j == *i => {}
                _ => {
                    ok = false;
                    break;
                }
            }
            if self.code.len() + bytes.len() > 0x2c0 {
                ok = false;
                break;
            }
            let at = self.cursor();
            for (k, b) in bytes.iter().enumerate() {
                self.s.poke(at + k as u32, *b);
            }
            self.code.extend_from_slice(&bytes);
        }
        let mut new_dc: Vec<u32> = vec![];
        if ok {
            let end = self.cursor();
            let mut guard = 0;
            while self.s.pc != end {
                guard += 1;
                if guard > 24 {
                    ok = false;
                    break;
                }
                let st = rx::step(&mut self.s, &[]);
                if st.outcome != Outcome::Ok {
                    ok = false;
                    break;
                }
                // never let an instruction write into the code, the leaf or the handlers
                let lo = self.base;
                let hi = self.base + 0x400;
                if st.accesses.iter().any(|a| a.write && a.addr.wrapping_add(a.size) > lo && a.addr < hi) {
                    ok = false;
                    break;
                }
                // nor into the trap / call vectors
                if st.accesses.iter().any(|a| a.write && a.kind != rx::AccKind::Stack && a.addr < 0x80) {
                    ok = false;
                    break;
                }
                // the on-chip I/O registers stay out of the soups altogether (peripherals; C16, C17, C19 own them)
                if st.accesses.iter().any(|a| (0..a.size).any(|k| {
                    let x = a.addr.wrapping_add(k) & MASK24;
                    (0xfee000..=0xfee0ff).contains(&x) || (0xffff20..=0xffffe9).contains(&x)
                })) {
                    ok = false;
                    break;
                }
                // SP must stay an even pointer into its zone
                if self.s.er[7] & 1 != 0 {
                    ok = false;
                    break;
                }
                // unconstrained bits must not flow into later instructions
                if st.dont_care_reg.iter().any(|m| *m != 0) || st.accesses.iter().any(|a| !a.write && a.kind == rx::AccKind::Data && (0..a.size).any(|k| self.dc.contains(&a.addr.wrapping_add(k)))) {
                    ok = false;
                    break;
                }
                new_dc.extend(st.dont_care_mem.iter().copied());
                if let Class::Impl(i) = st.decoded.class {
                    self.forms.push(i.form());
                }
                self.last_access = st.accesses.iter().rev().find(|a| a.kind == rx::AccKind::Data).map(|a| (a.addr & MASK24, a.size));
                self.path += 1;
            }
        }
        if !ok {
            self.s.er = snap.0;
            self.s.ccr = snap.1;
            self.s.pc = snap.2;
            self.s.overlay = snap.3;
            self.code.truncate(snap.4);
            self.path = snap.5;
            self.forms.truncate(snap.6);
        } else {
            self.dc.extend(new_dc);
        }
        ok
    }

    /// a memory operand of `size` bytes: the addressing mode plus the set-up instruction it needs (if any)
    fn mem_operand(&mut self, sz: Sz, allow_postpre: bool) -> (Vec<Insn>, Ea) {
        let size = sz.bytes();
        let kind = self.e.below(if allow_postpre { 8 } else { 6 });
        // absolute forms
        match kind {
            0 => {
                let t = target_in(self.e, 2, size);
                // @aa:8 exists for MOV.B only; W/L reach the same page through @aa:16
                return (vec![], if sz == Sz::B { Ea::A8((t & 0xff) as u8) } else { Ea::A16(0xff00 | (t & 0xff) as u16) });
            }
            1 => {
                let z = if self.e.chance(1, 3) { 3 } else if self.e.chance(1, 4) { 5 } else { 0 };
                let t = target_in(self.e, z, size);
                return (vec![], Ea::A16((t & 0xffff) as u16));
            }
            2 => {
                let z = self.e.below(ZONES.len() as u32) as usize;
                let t = target_in(self.e, z, size);
                return (vec![], Ea::A24(t));
            }
            _ => {}
        }
        // register based: 3 Ind, 4 D16, 5 D24, 6 Post, 7 Pre
        let r = if self.e.chance(3, 4) { 4 + self.e.below(3) as u8 } else { self.e.below(7) as u8 };
        let cur = self.s.er[r as usize];
        let reuse = self.e.chance(1, 2);
        let al_ok = |a: u32| size == 1 || a & 1 == 0;
        if reuse {
            let low = cur & MASK24;
            match kind {
                3 | 6 if al_ok(low) && zone_of(low, size).is_some() => {
                    return (vec![], if kind == 3 { Ea::Ind(r) } else { Ea::Post(r) });
                }
                7 if al_ok(low) && zone_of(low.wrapping_sub(size) & MASK24, size).is_some() => {
                    return (vec![], Ea::Pre(r));
                }
                4 => {
                    if let Some(z) = zone_of(low, 1) {
                        let t = target_in(self.e, z, size);
                        let d = t as i64 - low as i64;
                        if (-0x8000..0x8000).contains(&d) {
                            return (vec![], Ea::D16(r, d as i16 as u16));
                        }
                    }
                }
                5 => {
                    let z = self.e.below(ZONES.len() as u32) as usize;
                    let t = target_in(self.e, z, size);
                    return (vec![], Ea::D24(r, t.wrapping_sub(low) & MASK24));
                }
                _ => {}
            }
        }
        // set the pointer up first
        let z = self.e.below(ZONES.len() as u32) as usize;
        let t = target_in(self.e, z, size);
        let up = self.e.upper_byte();
        let (ea, low) = match kind {
            3 => (Ea::Ind(r), t),
            4 => {
                let d = match self.e.below(4) {
                    0 => self.e.pick(&[0u16, 1, 2, 0x7fff, 0x8000, 0xffff, 0xfffe, 0x00ff, 0xff00]),
                    1 => self.e.below(64) as u16,
                    2 => (self.e.below(64) as u16).wrapping_neg(),
                    _ => self.e.u16(),
                };
                (Ea::D16(r, d), t.wrapping_sub(d as i16 as i32 as u32) & MASK24)
            }
            5 => {
                let d = match self.e.below(4) {
                    0 => self.e.pick(&[0u32, 1, 2, 0x7fffff, 0x800000, 0xffffff, 0xfffffe, 0x00ffff, 0xff0000]),
                    1 => self.e.below(256),
                    _ => self.e.u32() & MASK24,
                };
                (Ea::D24(r, d), t.wrapping_sub(d) & MASK24)
            }
            6 => (Ea::Post(r), t),
            _ => (Ea::Pre(r), t.wrapping_add(size) & MASK24),
        };
        // for @-ERn the register is above the operand: with low == 0 after masking the borrow goes into the
        // upper byte - that is fine, the access is at the decremented value's low 24 bits
        (vec![Insn::MovImm { sz: Sz::L, imm: low | up, d: r }], ea)
    }

    fn data_not_overlapping(&mut self, sz: Sz, ea: &Ea) -> u8 {
        // +/- forms: the data register must not overlap the address register (C01's precondition)
        for _ in 0..8 {
            let d = self.dreg(sz);
            let er = match sz {
                Sz::B | Sz::W => d & 7,
                Sz::L => d,
            };
            match ea {
                Ea::Post(r) | Ea::Pre(r) if er == *r => continue,
                _ => return d,
            }
        }
        0
    }

    fn gen_regmove(&mut self) -> bool {
        let sz = self.sz();
        let i = if self.e.chance(1, 2) {
            let d = self.dreg(sz);
            Insn::MovImm { sz, imm: self.imm(sz), d }
        } else {
            let (s, d) = (self.sreg(sz), self.dreg(sz));
            Insn::MovRR { sz, s, d }
        };
        self.try_emit(&[i])
    }
    fn gen_memmove(&mut self) -> bool {
        let sz = self.sz();
        let (mut pre, ea) = self.mem_operand(sz, true);
        let load = match ea {
            Ea::Post(_) => true,
            Ea::Pre(_) => false,
            _ => self.e.chance(1, 2),
        };
        let i = if load {
            let d = self.data_not_overlapping(sz, &ea);
            Insn::Load { sz, ea, d }
        } else {
            let s = match ea {
                Ea::Pre(_) => self.data_not_overlapping(sz, &ea),
                _ => self.sreg(sz),
            };
            Insn::Store { sz, s, ea }
        };
        pre.push(i);
        let ok = self.try_emit(&pre);
        // a sibling right behind it: the same base register, the same displacement number in the other width (or the
        // same effective address through the other width) - encodings that look alike must not be confused by
        // anything remembered between instructions
        if ok && self.e.chance(1, 3) {
            let sib = match ea {
                Ea::D16(r, d) => Some(if self.e.chance(1, 2) { Ea::D24(r, d as u32) } else { Ea::D24(r, (d as i16 as i32 as u32) & MASK24) }),
                Ea::D24(r, d) => Some(Ea::D16(r, d as u16)),
                Ea::Ind(r) => Some(Ea::D16(r, 0)),
                Ea::A16(a) => Some(Ea::A24(a as u32)),
                _ => None,
            };
            if let Some(sib) = sib {
                let d = self.dreg(sz);
                let _ = self.try_emit(&[Insn::Load { sz, ea: sib, d }]);
            }
        }
        ok
    }
    fn gen_arith(&mut self) -> bool {
        let i = match self.e.below(12) {
            0..=4 => {
                let sz = self.sz();
                let op = self.e.pick(&[AluOp::Add, AluOp::Sub, AluOp::Cmp]);
                let imm = self.e.chance(1, 2) && !(op == AluOp::Sub && sz == Sz::B);
                let d = self.dreg(sz);
                let src = if imm { Src::Imm(self.imm(sz)) } else { Src::Reg(self.sreg(sz)) };
                Insn::Alu { op, sz, src, d }
            }
            5 | 6 => {
                let d = self.dreg(Sz::B);
                let src = if self.e.chance(1, 2) { Src::Imm(self.imm(Sz::B)) } else { Src::Reg(self.sreg(Sz::B)) };
                Insn::Addx { src, d }
            }
            7 | 8 => {
                let sz = self.sz();
                let op = match sz {
                    Sz::B => self.e.pick(&[UnOp::Neg, UnOp::Inc1, UnOp::Dec1]),
                    _ => self.e.pick(&[UnOp::Neg, UnOp::Inc1, UnOp::Inc2, UnOp::Dec1, UnOp::Dec2]),
                };
                Insn::Un { op, sz, d: self.dreg(sz) }
            }
            9 => {
                let n = self.e.pick(&[1u8, 2, 4]);
                let d = self.dreg(Sz::L);
                if self.e.chance(1, 2) {
                    Insn::Adds { n, d }
                } else {
                    Insn::Subs { n, d }
                }
            }
            10 => {
                let sz = self.e.pick(&[Sz::B, Sz::W]);
                let s = self.sreg(sz);
                let d = match sz {
                    Sz::B => self.dreg(Sz::W),
                    _ => self.dreg(Sz::L),
                };
                Insn::Mulxu { sz, s, d }
            }
            _ => {
                let sz = self.e.pick(&[Sz::B, Sz::W]);
                let s = self.sreg(sz);
                let d = match sz {
                    Sz::B => self.dreg(Sz::W),
                    _ => self.dreg(Sz::L),
                };
                // make the quotient fit now and then by clearing the upper half first
                if self.e.chance(1, 2) {
                    let clr = match sz {
                        Sz::B => Insn::MovImm { sz: Sz::B, imm: self.e.below(4), d: d & 7 }, // RdH
                        _ => Insn::MovImm { sz: Sz::W, imm: self.e.below(4), d: 8 | (d & 7) }, // Ed
                    };
                    return self.try_emit(&[clr, Insn::Divxu { sz, s, d }]);
                }
                Insn::Divxu { sz, s, d }
            }
        };
        self.try_emit(&[i])
    }
    fn gen_logic(&mut self) -> bool {
        let sz = self.sz();
        let i = if self.e.chance(2, 5) {
            let op = self.e.pick(&[AluOp::And, AluOp::Or, AluOp::Xor]);
            let d = self.dreg(sz);
            let src = if self.e.chance(1, 2) { Src::Imm(self.imm(sz)) } else { Src::Reg(self.sreg(sz)) };
            Insn::Alu { op, sz, src, d }
        } else {
            let op = self.e.pick(&[UnOp::Not, UnOp::Extu, UnOp::Shll, UnOp::Shal, UnOp::Shlr, UnOp::Shar, UnOp::Rotxl, UnOp::Rotl, UnOp::Rotxr, UnOp::Rotr]);
            let sz = if op == UnOp::Extu && sz == Sz::B { Sz::W } else { sz };
            Insn::Un { op, sz, d: self.dreg(sz) }
        };
        self.try_emit(&[i])
    }
    /// an external write into the operand the last instruction accessed (only where that is plain zone memory)
    fn maybe_poke(&mut self, num: u32, den: u32) {
        if !self.allow_pokes || !self.e.chance(num, den) {
            return;
        }
        if let Some((a, size)) = self.last_access {
            let t = a.wrapping_add(self.e.below(size.max(1)));
            if zone_of(t, 1).is_some() && !self.dc.contains(&t) && self.pokes.len() < 24 {
                let v = self.e.u8();
                self.s.poke(t, v);
                self.pokes.push((self.path as u16, t, v));
            }
        }
    }
    fn gen_bit(&mut self) -> bool {
        // the "test, then set or clear" idiom on one memory operand - with, now and then, an external write into
        // that operand between the two instructions
        if self.e.chance(1, 6) {
            let t = target_in(self.e, 2, 1);
            let tgt = BitTgt::A8((t & 0xff) as u8);
            let n = self.e.below(8) as u8;
            let first = self.e.pick(&[BitOp::Btst, BitOp::Btst, BitOp::Bld, BitOp::Band]);
            if !self.try_emit(&[Insn::Bit { op: first, sel: BitSel::Imm(n), tgt }]) {
                return false;
            }
            self.maybe_poke(1, 2);
            let second = self.e.pick(&[BitOp::Bset, BitOp::Bclr, BitOp::Bnot, BitOp::Bst]);
            let m = self.e.below(8) as u8;
            let _ = self.try_emit(&[Insn::Bit { op: second, sel: BitSel::Imm(m), tgt }]);
            return true;
        }
        let op = self.e.pick(&BitOp::ALL);
        let sel = if op.has_reg_form() && self.e.chance(1, 2) { BitSel::Reg(self.e.below(16) as u8) } else { BitSel::Imm(self.e.below(8) as u8) };
        match self.e.below(3) {
            0 => {
                let r = if op.is_rmw() { self.dreg(Sz::B) } else { self.sreg(Sz::B) };
                self.try_emit(&[Insn::Bit { op, sel, tgt: BitTgt::Reg(r) }])
            }
            1 => {
                let t = target_in(self.e, 2, 1);
                self.try_emit(&[Insn::Bit { op, sel, tgt: BitTgt::A8((t & 0xff) as u8) }])
            }
            _ => {
                // @ERd: reuse a pointer or set one up
                let r = if self.e.chance(3, 4) { 4 + self.e.below(3) as u8 } else { self.e.below(7) as u8 };
                let low = self.s.er[r as usize] & MASK24;
                let mut pre = vec![];
                if !(self.e.chance(1, 2) && zone_of(low, 1).is_some()) {
                    let z = self.e.below(ZONES.len() as u32) as usize;
                    let t = target_in(self.e, z, 1);
                    let up = self.e.upper_byte();
                    pre.push(Insn::MovImm { sz: Sz::L, imm: t | up, d: r });
                }
                pre.push(Insn::Bit { op, sel, tgt: BitTgt::Ind(r) });
                self.try_emit(&pre)
            }
        }
    }
    fn two_byte_insn(&mut self) -> Insn {
        let sz = self.sz();
        match self.e.below(4) {
            0 => {
                let (s, d) = (self.sreg(sz), self.dreg(sz));
                Insn::MovRR { sz, s, d }
            }
            1 => {
                let op = self.e.pick(&[AluOp::Add, AluOp::Sub, AluOp::Cmp]);
                let (s, d) = (self.sreg(sz), self.dreg(sz));
                Insn::Alu { op, sz, src: Src::Reg(s), d }
            }
            2 => {
                let op = self.e.pick(&[UnOp::Not, UnOp::Neg, UnOp::Shll, UnOp::Shar, UnOp::Rotxl, UnOp::Rotr, UnOp::Inc1, UnOp::Dec1]);
                Insn::Un { op, sz, d: self.dreg(sz) }
            }
            _ => Insn::Alu { op: AluOp::Xor, sz: Sz::B, src: Src::Imm(self.e.u8() as u32), d: self.dreg(Sz::B) },
        }
    }
    fn gen_flow(&mut self) -> bool {
        match self.e.below(10) {
            0 | 1 => {
                // conditional skip over one 2-byte instruction
                let cond = self.e.below(16) as u8;
                let wide = self.e.chance(1, 3);
                let skipped = self.two_byte_insn();
                let taken = rx::cond_true(cond, self.s.ccr);
                let b = Insn::Bcc { cond, disp: 2, wide };
                if taken {
                    // the skipped instruction is dead code: emit its bytes without executing it
                    if !self.try_emit_with_dead(&b, &skipped) {
                        return false;
                    }
                    true
                } else {
                    self.try_emit(&[b, skipped])
                }
            }
            2 | 3 => {
                // call the leaf routine
                let next_after = |len: u32, me: &Self| me.cursor() + len;
                match self.e.below(5) {
                    0 => {
                        let d = self.leaf as i64 - next_after(2, self) as i64;
                        if (-128..128).contains(&d) {
                            return self.try_emit(&[Insn::Bsr { disp: d as i32, wide: false }]);
                        }
                        let d = self.leaf as i64 - next_after(4, self) as i64;
                        self.try_emit(&[Insn::Bsr { disp: d as i32, wide: true }])
                    }
                    1 => {
                        let d = self.leaf as i64 - next_after(4, self) as i64;
                        self.try_emit(&[Insn::Bsr { disp: d as i32, wide: true }])
                    }
                    2 => self.try_emit(&[Insn::Jsr(JTarget::Abs(self.leaf))]),
                    3 => {
                        let r = self.e.below(7) as u8;
                        let up = self.e.upper_byte();
                        self.try_emit(&[Insn::MovImm { sz: Sz::L, imm: self.leaf | up, d: r }, Insn::Jsr(JTarget::Reg(r))])
                    }
                    _ => {
                        if self.e.chance(1, 2) {
                            self.try_emit(&[Insn::Jsr(JTarget::MemInd(0x40))])
                        } else {
                            // BSR d:8 to a routine that sits right behind a branch over it
                            let body = self.two_byte_insn();
                            self.try_emit(&[Insn::Bsr { disp: 2, wide: false }, Insn::Bcc { cond: 0, disp: 4, wide: false }, body, Insn::Rts])
                        }
                    }
                }
            }
            4 => {
                let n = 1 + self.e.below(3) as u8;
                self.try_emit(&[Insn::Trapa(n)])
            }
            5 => {
                // jump to the next instruction
                match self.e.below(3) {
                    0 => {
                        let t = self.cursor() + 4;
                        self.try_emit(&[Insn::Jmp(JTarget::Abs(t))])
                    }
                    1 => {
                        let r = self.e.below(7) as u8;
                        let t = self.cursor() + 8;
                        let up = self.e.upper_byte();
                        self.try_emit(&[Insn::MovImm { sz: Sz::L, imm: t | up, d: r }, Insn::Jmp(JTarget::Reg(r))])
                    }
                    2 if self.e.chance(1, 2) => {
                        // JMP @@aa:8 through a slot that holds the address of an RTS: the address to continue at is
                        // pushed first, so the RTS behind the vector comes back here
                        let r = self.e.below(4) as u8;
                        let t = self.cursor() + 6 + 4 + 2;
                        let up = self.e.upper_byte();
                        self.try_emit(&[Insn::MovImm { sz: Sz::L, imm: t | up, d: r }, Insn::Store { sz: Sz::L, s: r, ea: Ea::Pre(7) }, Insn::Jmp(JTarget::MemInd(0x44))])
                    }
                    _ => {
                        // Bcc always / never with a wider displacement over nothing
                        let cond = self.e.pick(&[0u8, 1]);
                        let wide = self.e.chance(1, 2);
                        self.try_emit(&[Insn::Bcc { cond, disp: 0, wide }])
                    }
                }
            }
            6 | 7 => {
                // push / pop
                if !self.pushed.is_empty() && self.e.chance(1, 2) {
                    let sz = *self.pushed.last().unwrap();
                    let d = match sz {
                        Sz::L => self.e.below(4) as u8,
                        _ => self.e.pick(&DATA_W),
                    };
                    if self.try_emit(&[Insn::Load { sz, ea: Ea::Post(7), d }]) {
                        self.pushed.pop();
                        return true;
                    }
                    false
                } else {
                    let sz = self.e.pick(&[Sz::W, Sz::L, Sz::L]);
                    let s = match sz {
                        Sz::L => self.e.below(7) as u8,
                        _ => self.e.pick(&ANY_B),
                    };
                    if self.pushed.len() < 8 && self.try_emit(&[Insn::Store { sz, s, ea: Ea::Pre(7) }]) {
                        self.pushed.push(sz);
                        return true;
                    }
                    false
                }
            }
            8 => {
                let d = self.e.pick(&DATA_B);
                self.try_emit(&[Insn::StcB { d }])
            }
            _ => {
                let (mut pre, ea) = self.mem_operand(Sz::W, true);
                let ea = match ea {
                    Ea::Post(r) => Ea::Ind(r),
                    Ea::A8(a) => Ea::A16(0xff00 | a as u16),
                    o => o,
                };
                pre.push(Insn::StcW { ea });
                self.try_emit(&pre)
            }
        }
    }
    /// a taken branch followed by an instruction that is never executed
    fn try_emit_with_dead(&mut self, b: &Insn, dead: &Insn) -> bool {
        let bytes_b = encode(b);
        let bytes_d = encode(dead);
        if bytes_d.len() != 2 || self.code.len() + bytes_b.len() + 2 > 0x2c0 {
            return false;
        }
        let snap = (self.s.er, self.s.ccr, self.s.pc, self.s.overlay.clone(), self.code.len());
        let at = self.cursor();
        for (k, x) in bytes_b.iter().chain(bytes_d.iter()).enumerate() {
            self.s.poke(at + k as u32, *x);
        }
        self.code.extend_from_slice(&bytes_b);
        self.code.extend_from_slice(&bytes_d);
        let st = rx::step(&mut self.s, &[]);
        if st.outcome == Outcome::Ok && self.s.pc == self.cursor() {
            self.path += 1;
            self.forms.push(b.form());
            true
        } else {
            self.s.er = snap.0;
            self.s.ccr = snap.1;
            self.s.pc = snap.2;
            self.s.overlay = snap.3;
            self.code.truncate(snap.4);
            false
        }
    }
}

pub fn build(e: &mut Ent, fl: Flavor) -> Soup {
    build_irq(e, fl, false)
}

pub fn build_irq(e: &mut Ent, fl: Flavor, with_irqs: bool) -> Soup {
    // code placement: on-chip RAM below the data zone, or DRAM (near the load base or anywhere below the data zone)
    let base = match e.below(4) {
        0 | 1 => 0xffc000 + 2 * e.below(0x600),
        2 => LOAD_BASE + 2 * e.below(0x800),
        _ => 0x400000 + 2 * e.below(0x70000),
    };
    let leaf = base + 0x2c0;
    let handler = base + 0x340;
    let mut patches: Vec<(u32, Vec<u8>)> = vec![];
    // leaf: 0-2 two-byte instructions on data registers + RTS; handlers: RTE (one per trap so vectors differ)
    let mut leaf_code: Vec<u8> = vec![];
    for _ in 0..e.below(3) {
        let sz = e.pick(&[Sz::B, Sz::W, Sz::L]);
        let d = match sz {
            Sz::L => e.below(4) as u8,
            _ => e.pick(&DATA_B),
        };
        let op = e.pick(&[UnOp::Not, UnOp::Inc1, UnOp::Rotl, UnOp::Shlr]);
        leaf_code.extend(encode(&Insn::Un { op, sz, d }));
    }
    leaf_code.extend(encode(&Insn::Rts));
    patches.push((leaf, leaf_code));
    for n in 1..=3u32 {
        let h = handler + 8 * n;
        let mut hc = vec![];
        if e.chance(1, 2) {
            hc.extend(encode(&Insn::Un { op: UnOp::Inc1, sz: Sz::B, d: e.pick(&DATA_B) }));
        }
        hc.extend(encode(&Insn::Rte));
        patches.push((h, hc));
        let top = (e.upper_byte() >> 24) as u8;
        patches.push((4 * (8 + n), vec![top, (h >> 16) as u8, (h >> 8) as u8, h as u8]));
    }
    if with_irqs {
        // one RTE stub per interrupt vector, so that an entry through the wrong vector lands somewhere else
        for &v in IRQ_VECTORS.iter() {
            let h = base + 0x380 + 2 * v as u32;
            patches.push((h, encode(&Insn::Rte)));
            let top = (e.upper_byte() >> 24) as u8;
            patches.push((4 * v as u32, vec![top, (h >> 16) as u8, (h >> 8) as u8, h as u8]));
        }
    }
    // @@aa:8 slot for JMP: the address of a lone RTS
    {
        let rts_at = handler + 0x30;
        patches.push((rts_at, encode(&Insn::Rts)));
        let top = (e.upper_byte() >> 24) as u8;
        patches.push((0x44, vec![top, (rts_at >> 16) as u8, (rts_at >> 8) as u8, rts_at as u8]));
    }
    // @@aa:8 slot for JSR
    let top = (e.upper_byte() >> 24) as u8;
    patches.push((0x40, vec![top, (leaf >> 16) as u8, (leaf >> 8) as u8, leaf as u8]));
    // data zones: a few random words so that loads see generated data, not only address tags
    for _ in 0..e.below(6) {
        let z = e.below(ZONES.len() as u32) as usize;
        let t = target_in(e, z, 4);
        patches.push((t, e.val32().to_be_bytes().to_vec()));
    }
    let mut er = [0u32; 8];
    for r in er.iter_mut().take(4) {
        *r = e.val32();
    }
    for r in 4..7 {
        let z = e.below(ZONES.len() as u32) as usize;
        let (lo, len) = ZONES[z];
        er[r] = ((lo + (len / 2)) & !1) | e.upper_byte();
    }
    // stack: middle of a zone of its own (RAM or DRAM), 4-aligned, upper byte arbitrary
    let sp = if e.chance(1, 2) { 0xfff400 + 4 * e.below(0x80) } else { 0x5e8000 + 4 * e.below(0x1000) };
    er[7] = sp | e.upper_byte();
    let ccr = e.u8();
    let bus = if e.chance(1, 2) { crate::checks::c20::distinct_cfg(e) } else { e.bus_cfg() };
    let n = 4 + e.below(44) as usize;

    // environment noise is part of the image the generator simulates on
    patches.extend(e.env_noise());
    let mut pre = PreImage { map: HashMap::new() };
    for (a, bytes) in &patches {
        for (i, b) in bytes.iter().enumerate() {
            pre.map.insert(a + i as u32, *b);
        }
    }
    let mut pokes: Vec<(u16, u32, u8)> = vec![];
    let (code, path_len, forms, stop) = {
        let mut s = RefState::new(&pre);
        s.er = er;
        s.ccr = ccr;
        s.pc = base;
        let mut g = Gen { s, e, code: vec![], base, leaf, handler, pushed: vec![], path: 0, forms: vec![], dc: Default::default(), last_access: None, pokes: vec![], allow_pokes: !with_irqs };
        let w = fl.weights();
        let total: u32 = w.iter().sum();
        let mut emitted = 0;
        let mut attempts = 0;
        while emitted < n && attempts < 3 * n && !g.e.exhausted() {
            attempts += 1;
            let mut k = g.e.below(total);
            let mut cat = 0;
            while k >= w[cat] {
                k -= w[cat];
                cat += 1;
            }
            let ok = match cat {
                0 => g.gen_regmove(),
                1 => g.gen_memmove(),
                2 => g.gen_arith(),
                3 => g.gen_logic(),
                4 => g.gen_bit(),
                _ => g.gen_flow(),
            };
            if ok {
                emitted += 1;
                if cat == 1 || cat == 4 {
                    g.maybe_poke(1, 8);
                }
            }
        }
        let _ = g.handler;
        let stop = g.cursor();
        pokes = std::mem::take(&mut g.pokes);
        (g.code, g.path, g.forms, stop)
    };
    let mut image = vec![(base, code)];
    image.extend(patches);
    let mut irqs = vec![];
    if with_irqs {
        for _ in 0..e.below(7) {
            irqs.push((e.below(path_len as u32 + 8) as u16, e.pick(&IRQ_VECTORS)));
        }
        // bursts: the same boundary several times (the second one is taken right after the first stub's RTE)
        if e.chance(1, 3) && !irqs.is_empty() {
            let (at, _) = irqs[0];
            for _ in 0..1 + e.below(3) {
                irqs.push((at, e.pick(&IRQ_VECTORS)));
            }
        }
    }
    Soup { prog: Prog { image, er, ccr, pc: base, bus }, stop, path_len, forms, irqs, pokes }
}

pub struct SoupRun {
    pub steps: usize,
    pub known: Vec<Quirk>,
    pub charges_compared: usize,
    pub irqs_taken: usize,
    /// the run left the path the generator simulated (no mismatch): not a verdict, counted
    pub ended_early: bool,
}

/// Err(detail) on a violation
pub fn run_soup(emu: &mut Emu, prog: &Prog, stop: u32, quirks: &[Quirk], charge: bool) -> Result<SoupRun, String> {
    run_soup_irq(emu, prog, stop, quirks, charge, &[])
}

pub fn run_soup_irq(emu: &mut Emu, prog: &Prog, stop: u32, quirks: &[Quirk], charge: bool, irqs: &[(u16, u8)]) -> Result<SoupRun, String> {
    run_soup_full(emu, prog, stop, quirks, charge, irqs, &[])
}

pub fn run_soup_full(emu: &mut Emu, prog: &Prog, stop: u32, quirks: &[Quirk], charge: bool, irqs: &[(u16, u8)], pokes: &[(u16, u32, u8)]) -> Result<SoupRun, String> {
    let opts = LsOpts { quirks, max_steps: 400, full_dram: false, compare_memory: true };
    let cfg: BusCfg = prog.bus;
    let mut violation: Option<String> = None;
    let mut compared = 0usize;
    let mut todo: Vec<(u16, u8)> = irqs.to_vec();
    todo.sort();
    todo.reverse();
    let mut taken = 0usize;
    let mut last_was_irq = false;
    let mut poke_todo: Vec<(u16, u32, u8)> = pokes.to_vec();
    poke_todo.reverse();
    let out = lockstep(emu, prog, &opts, &mut |v: &View| {
        if let Some(&(at, a, b)) = poke_todo.last() {
            if at as usize <= v.idx {
                poke_todo.pop();
                return Ctl::Patch(a, vec![b]);
            }
        }
        // an interrupt before this action? (requests are only raised while I is clear: then the poll must accept
        // it at once, through its own vector - the lockstep compares frame, SP, CCR and PC with the reference)
        if std::env::var("H8DBG").is_ok() {
            eprintln!("ls  {:3} {:06x} er={:08x?} ccr={:02x}", v.idx, v.pc, v.er, v.ccr);
        }
        if let Some(&(at, vec)) = todo.last() {
            if (at as usize) <= v.idx && v.ccr & 0x80 == 0 && v.pc != stop {
                todo.pop();
                taken += 1;
                last_was_irq = true;
                return Ctl::Irq(vec);
            }
        }
        if charge && !std::mem::take(&mut last_was_irq) {
            if let Some(step) = v.last {
                if matches!(step.outcome, Outcome::Ok) && v.idx > 0 {
                    if let Some(exp) = total_cost(&step.cycles, &cfg) {
                        compared += 1;
                        if exp != v.last_states {
                            violation = Some(format!("instruction {} ({:?}) charged {} states; cycle table x cost rule under {:?} = {} ({:?})", v.idx, step.decoded.class, v.last_states, cfg, exp, step.cycles));
                            return Ctl::Stop;
                        }
                    }
                }
            }
        }
        if v.pc == stop {
            return Ctl::Stop;
        }
        Ctl::Step
    });
    if let Some(m) = violation {
        return Err(m);
    }
    match out.end {
        End::Stopped => {
            if hooks_pending(emu) != 0 {
                return Err(format!("{} interrupt requests are still pending at the end although every request was raised while I was clear and polled for at once", hooks_pending(emu)));
            }
            Ok(SoupRun { steps: out.steps, known: out.known, charges_compared: compared, irqs_taken: taken, ended_early: false })
        }
        End::Mismatch(m) => Err(m),
        // after an open finding's quirk has fired the emulator (and the reference that follows it) is on another
        // path than the one the generator simulated with the pure reference: where that path ends is not a verdict
        _ if !out.known.is_empty() => Ok(SoupRun { steps: out.steps, known: out.known, charges_compared: compared, irqs_taken: taken, ended_early: false }),
        // Leaving the simulated path without a mismatch is not a verdict either: every disagreement between the
        // emulator and the reference is reported by the step at which it appears (End::Mismatch). It is counted
        // (`ended_early`), and must stay rare - the generator keeps unconstrained bits out of later operands.
        _ => Ok(SoupRun { steps: out.steps, known: out.known, charges_compared: compared, irqs_taken: taken, ended_early: true }),
    }
}

fn hooks_pending(emu: &Emu) -> usize {
    crate::cpu::verif_hooks::pending_interrupts(&emu.cpu)
}

fn soup_sig(m: &str) -> String {
    format!("instruction soup | {}", fail_field(&m.replace(|c: char| c.is_ascii_digit(), "")))
}

/// One phase of a check: `n` soups of flavour `fl`, sharded; returns the phase's stats (to be merged).
pub fn phase(ctx: &Ctx, property: &'static str, fl: Flavor, n: u32, salt: u64, charge: bool) -> Stats {
    phase_irq(ctx, property, fl, n, salt, charge, false)
}

/// `with_irqs`: interrupts of generated vectors are raised and polled for at generated instruction boundaries
/// (whenever I is clear there); every vector has its own RTE stub, so the soup's outcome is what it is without them
pub fn phase_irq(ctx: &Ctx, property: &'static str, fl: Flavor, n: u32, salt: u64, charge: bool, with_irqs: bool) -> Stats {
    let nshards = 32usize;
    // open findings of every property: a soup executes all instruction families
    let quirks: Vec<Quirk> = rx::ALL_QUIRKS.iter().copied().filter(|q| ctx.findings.all.iter().any(|f| f.status == "open" && f.signature == quirk_sig(*q))).collect();
    par_shards(ctx, nshards, |shard| {
        let w = Worker::new(ctx);
        let ent = entropy_n(700);
        set_shrink_iters(600);
        let _ = run_prop(mix(ctx.seed, salt + shard as u64), (n / nshards as u32).max(1), &ent, |raw, shrinking| {
            let soup = build_irq(&mut Ent::new(raw), fl, with_irqs);
            let r = run_soup_full(&mut w.emu.borrow_mut(), &soup.prog, soup.stop, &quirks, charge, &soup.irqs, &soup.pokes);
            let mut st = w.stats.borrow_mut();
            match r {
                Ok(run) => {
                    if !shrinking {
                        st.evaluations += 1;
                        st.class(&format!("soup ({}): programs", fl.name()));
                        if run.ended_early {
                            st.class("soup: left the simulated path without a mismatch (not a verdict)");
                        }
                        st.class_n(&format!("soup ({}): instructions executed back to back", fl.name()), run.steps as u64);
                        if charge {
                            st.class_n(&format!("soup ({}): charges compared", fl.name()), run.charges_compared as u64);
                        }
                        if !soup.pokes.is_empty() {
                            st.class_n("soup: external writes (bus write path) between two instructions", soup.pokes.len() as u64);
                        }
                        if with_irqs {
                            st.class_n(&format!("soup ({}): interrupts accepted between two instructions", fl.name()), run.irqs_taken as u64);
                            if run.irqs_taken >= 2 {
                                st.class(&format!("soup ({}): >= 2 interrupts in one soup", fl.name()));
                            }
                        }
                        for q in &run.known {
                            if ctx.findings.is_open(property, &quirk_sig(*q)) {
                                st.known_hit(&quirk_sig(*q), || json!({"kind": "soup", "entry": format!("{:06x}", soup.prog.pc)}));
                            } else {
                                st.class(&format!("soup: matches open finding of another property: {:?}", q));
                            }
                        }
                        for f in &soup.forms {
                            st.class(&format!("soup form: {}", f));
                        }
                        let mut distinct: Vec<&String> = soup.forms.iter().collect();
                        distinct.sort();
                        distinct.dedup();
                        if run.steps >= 8 && distinct.len() >= 4 {
                            let key = key_hash(&("soup", &soup.prog.image[0], soup.prog.er, soup.prog.ccr));
                            st.nontrivial(key, || json!({"soup": fl.name(), "entry": format!("{:06x}", soup.prog.pc), "instructions": run.steps, "distinct_forms": distinct.len(), "first_forms": soup.forms.iter().take(12).collect::<Vec<_>>()}));
                        }
                    }
                    Ok(())
                }
                Err(m) => {
                    let sig = soup_sig(&m);
                    if ctx.survey {
                        if !shrinking {
                            st.evaluations += 1;
                            st.survey_fail(Failure { signature: sig, detail: m, case: json!({"kind": "soup", "brief": format!("entry {:06x}", soup.prog.pc)}) });
                        }
                        Ok(())
                    } else {
                        st.failures.clear();
                        st.fail(Failure { signature: sig.clone(), detail: m, case: json!({"kind": "soup", "prog": soup.prog.to_json(), "stop": soup.stop, "charge": charge, "forms": soup.forms, "irqs": soup.irqs.iter().map(|(a, v)| json!([a, v])).collect::<Vec<_>>(), "pokes": soup.pokes.iter().map(|(i, a, v)| json!([i, a, v])).collect::<Vec<_>>()}) });
                        Err(sig)
                    }
                }
            }
        });
        w.stats.into_inner()
    })
}

pub const RULE: &str = " Plus instruction soups: straight-line programs of 4-48 model-guided generated instructions of every implemented form (weighted to this property's family), executed back to back on one emulator state in lockstep with the reference (registers, CCR, PC and written bytes after every instruction, whole memory at the end), so that the operands of each instruction are what the previous ones left behind; a soup counts as non-trivial when it executes >= 8 instructions of >= 4 distinct forms.";

pub const RULE_IRQ: &str = " Plus instruction soups with interrupts: straight-line programs of 4-48 model-guided generated instructions of every implemented form, executed back to back in lockstep with the reference, during which interrupts of generated vectors (1-31 outside the trap slots, each with its own RTE stub) are requested at generated instruction boundaries - also several at one boundary - whenever CCR.I is clear there: the poll must accept each at once through its own vector (frame, SP, I, PC compared), the stub's RTE must resume the soup, the soup must end in the state it ends in without interrupts (the reference's), and no request may be left pending.";

pub fn is_soup_replay(v: &Value) -> bool {
    v.get("case").unwrap_or(v).get("kind").and_then(|k| k.as_str()) == Some("soup")
}

pub fn replay(ctx: &Ctx, property: &str, v: &Value) -> i32 {
    let case = v.get("case").unwrap_or(v);
    let (Some(prog), Some(stop)) = (case.get("prog").and_then(Prog::from_json), case.get("stop").and_then(|s| s.as_u64())) else {
        eprintln!("bad soup replay file");
        return 2;
    };
    let charge = case.get("charge").and_then(|c| c.as_bool()).unwrap_or(false);
    let irqs: Vec<(u16, u8)> = case.get("irqs").and_then(|a| a.as_array()).map(|a| a.iter().filter_map(|p| Some((p.get(0)?.as_u64()? as u16, p.get(1)?.as_u64()? as u8))).collect()).unwrap_or_default();
    let quirks: Vec<Quirk> = rx::ALL_QUIRKS.iter().copied().filter(|q| ctx.findings.all.iter().any(|f| f.status == "open" && f.signature == quirk_sig(*q))).collect();
    let mut emu = Emu::new(&ctx.base);
    if std::env::var("H8DBG").is_ok() {
        // the reference alone, as the generator runs it
        let mut pre = PreImage { map: HashMap::new() };
        for (a, bytes) in &prog.image {
            for (i, b) in bytes.iter().enumerate() {
                pre.map.insert(a.wrapping_add(i as u32), *b);
            }
        }
        let mut s = RefState::new(&pre);
        s.er = prog.er;
        s.ccr = prog.ccr;
        s.pc = prog.pc;
        for k in 0..80 {
            if s.pc == stop as u32 {
                break;
            }
            let pc = s.pc;
            let st = rx::step(&mut s, &[]);
            eprintln!("ref {:3} {:06x} {:?} -> {:?} er={:08x?} ccr={:02x} dcr={:x?} dcm={:x?} dcc={:02x}", k, pc, st.decoded.class, st.outcome, s.er, s.ccr, st.dont_care_reg, st.dont_care_mem, st.dont_care_ccr);
        }
    }
    let pokes: Vec<(u16, u32, u8)> = case.get("pokes").and_then(|a| a.as_array()).map(|a| a.iter().filter_map(|p| Some((p.get(0)?.as_u64()? as u16, p.get(1)?.as_u64()? as u32, p.get(2)?.as_u64()? as u8))).collect()).unwrap_or_default();
    match run_soup_full(&mut emu, &prog, stop as u32, &quirks, charge, &irqs, &pokes) {
        Ok(_) => {
            println!("replay {}: soup passes", property);
            0
        }
        Err(m) => {
            let f = Failure { signature: soup_sig(&m), detail: m, case: case.clone() };
            let p = write_replay(property, &f);
            println!("VIOLATION property={} replay={}", property, p.display());
            println!("  detail: {}", f.detail);
            1
        }
    }
}

/// development aid: `check SOUP [--survey]` runs every flavour with the charge comparison and prints the statistics
pub fn dev(ctx: &Ctx) -> i32 {
    let mut code = 0;
    for (i, fl) in [Flavor::Mov, Flavor::Arith, Flavor::Logic, Flavor::Bit, Flavor::Ea, Flavor::All].into_iter().enumerate() {
        let t = std::time::Instant::now();
        let st = phase(ctx, "C07", fl, ctx.tier.pick(20_000, 400_000), 0x5000 + 0x100 * i as u64, true);
        println!("flavour {}: {} soups, {} non-trivial, {:.1}s", fl.name(), st.evaluations, st.nontrivial_keys.len(), t.elapsed().as_secs_f64());
        for (k, v) in &st.classes {
            println!("   {:>10}  {}", v, k);
        }
        for (sig, (n, fs)) in &st.survey {
            println!("   SURVEY {:>6} {}", n, sig);
            if let Some(f) = fs.first() {
                println!("          {}", f.detail);
            }
        }
        for f in &st.failures {
            println!("   FAILURE {} | {}", f.signature, f.detail);
            println!("   {}", f.case.get("forms").map(|x| x.to_string()).unwrap_or_default());
            code = 1;
        }
    }
    code
}
