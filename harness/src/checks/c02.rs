//! C02 - arithmetic instructions produce the manual's result and H,N,Z,V,C flags.

use super::alu::*;
use super::common::*;
use super::driver::*;
use crate::engine::run::*;
use crate::engine::stats::*;
use crate::engine::stepcase::*;
use crate::gen::*;
use crate::refmodel::insn::*;
use serde_json::{json, Map};

const P: &str = "C02";

pub const OPSET16: [u32; 19] = [0, 1, 2, 0xf, 0x10, 0x7f, 0x80, 0xff, 0x100, 0xfff, 0x1000, 0x7ffe, 0x7fff, 0x8000, 0x8001, 0xfffe, 0xffff, 0x5555, 0xaaaa];

pub fn classify(case: &StepCase, j: &Judged, t: &Tag, stats: &mut Stats) {
    let form = t.insn.form();
    stats.class(&format!("form: {}", form));
    let delta = flag_delta(case.ccr, j.emu_ccr);
    let src_hi = t.sreg.map(|s| s >= 8).unwrap_or(false);
    if t.same_reg {
        stats.class("source overlaps destination register");
    }
    if src_hi {
        stats.class("source register number >= 8");
    }
    if !delta.is_empty() || src_hi || t.same_reg {
        let key = key_hash(&(form, t.sreg, t.dreg, j.emu_ccr & 0x2f, value_class(t.form.dsz(), t.a), value_class(t.form.ssz().unwrap_or(t.form.dsz()), t.b)));
        stats.nontrivial(key, || sample_json(case, j));
    }
}

pub fn run(ctx: &Ctx) -> i32 {
    if let Some(v) = &ctx.replay {
        if crate::checks::soup::is_soup_replay(v) {
            return crate::checks::soup::replay(ctx, P, v);
        }
        return replay_step(ctx, P, v);
    }
    let forms = arith_forms();
    let tier = ctx.tier;
    let b = |e: &mut Ent, f: Force| build(&arith_forms_cached(), e, &f);
    let enumerated = |emit: &mut dyn FnMut(&str, Builder<Tag>)| {
        let forms = arith_forms_cached();
        for (fi, form) in forms.iter().enumerate() {
            // (1) 8-bit operands: every (a, b, carry-in)
            if form.dsz() == Sz::B {
                let bs: u32 = if form.is_binary() { 256 } else { 1 };
                for a in 0..256u32 {
                    for bv in 0..bs {
                        for c in 0..2u8 {
                            emit("8-bit: every (a, b, carry-in)", &|e| {
                                let ccr = (e.u8() & 0xfe) | c;
                                b(e, Force { form: Some(fi), a: Some(a), b: Some(bv), ccr: Some(ccr), ..Default::default() })
                            });
                        }
                    }
                }
            }
            // (2) every (source, destination) register pair
            let ns = form.ssz().map(nregs).unwrap_or(1);
            for s in 0..ns as u8 {
                for d in 0..nregs(form.dsz()) as u8 {
                    emit("form x source reg x destination reg", &|e| b(e, Force { form: Some(fi), sreg: Some(s), dreg: Some(d), ..Default::default() }));
                }
            }
            // (3) all 256 CCR values x operand set
            for ccr in 0..=255u8 {
                for k in 0..4 {
                    emit("form x CCR", &|e| {
                        let _ = k;
                        b(e, Force { form: Some(fi), ccr: Some(ccr), ..Default::default() })
                    });
                }
            }
            // (4) 16-bit: all pairs of the boundary set (quick), strided full square (thorough)
            if form.dsz() == Sz::W && !matches!(form, FormT::Mulxu(_) | FormT::Divxu(_)) {
                if form.is_binary() {
                    for &a in OPSET16.iter() {
                        for &bv in OPSET16.iter() {
                            emit("16-bit boundary pairs", &|e| b(e, Force { form: Some(fi), a: Some(a), b: Some(bv), ..Default::default() }));
                        }
                    }
                    if tier == Tier::Thorough {
                        let mut a = 0u32;
                        while a < 65536 {
                            let mut bv = (a * 7) % 61;
                            while bv < 65536 {
                                emit("16-bit strided square", &|e| b(e, Force { form: Some(fi), a: Some(a), b: Some(bv), ..Default::default() }));
                                bv += 61;
                            }
                            a += 13;
                        }
                    }
                } else {
                    let stride = tier.pick(5, 1);
                    let mut a = 0u32;
                    while a < 65536 {
                        emit("16-bit unary operand", &|e| b(e, Force { form: Some(fi), a: Some(a), ..Default::default() }));
                        a += stride;
                    }
                }
            }
        }
    };
    let mut stats = Drive {
        ctx,
        property: P,
        aspects: Aspects::STATE,
        salt: 0x0201_0000,
        nshards: 64,
        enumerated: &enumerated,
        random_cases: ctx.tier.pick(8_000_000, 400_000_000),
        build_random: &|e| b(e, Force::default()),
        classify: &|c, j, t: &Tag, s| classify(c, j, t, s),
        all_quirks: false,
    }
    .run();
    let n8: u64 = forms.iter().filter(|f| f.dsz() == Sz::B).map(|f| if f.is_binary() { 131072 } else { 512 }).sum();
    stats.exhaustive_subspaces.insert("8-bit forms x every (a, b, carry-in)".into(), n8);
    stats.exhaustive_subspaces.insert("form x source register x destination register".into(), forms.iter().map(|f| f.ssz().map(nregs).unwrap_or(1) as u64 * nregs(f.dsz()) as u64).sum());
    stats.exhaustive_subspaces.insert("form x CCR".into(), forms.len() as u64 * 256);
    let rule = "cases = ADD/SUB/CMP (B,W,L; immediate and register), ADDX, NEG, INC/DEC (#1/#2), ADDS/SUBS (#1/#2/#4), MULXU, DIVXU (divisor != 0 and fitting quotient constructed) with enumerated 8-bit operand triples, register pairs, CCR values and 16-bit boundary pairs crossed with proptest-generated register files / values; oracle = reference model post-state (result, each of H,N,Z,V,C, every other register, PC, memory). Non-trivial = at least one of H,N,Z,V,C changes, or the source register number is >= 8, or source and destination overlap; distinct by (form, register fields, flag outcome, operand value classes).";
    let mut extra = Map::new();
    extra.insert("masked_details".into(), json!(["DIVXU with zero divisor or non-fitting quotient: destination not compared (outside the property's quantifier)"]));
    stats.merge(crate::checks::soup::phase(ctx, P, crate::checks::soup::Flavor::Arith, ctx.tier.pick(300000, 6000000), 0x2510000, false));
    let rule_soup = format!("{}{}", rule, crate::checks::soup::RULE);
    let rule: &str = &rule_soup;
    finish(ctx, P, stats, rule, vec!["reference model transcribed from the H8/300H programming manual (DESIGN 1.3, Appendix A.2)".into()], extra)
}

pub fn arith_forms_cached() -> Vec<FormT> {
    arith_forms()
}
