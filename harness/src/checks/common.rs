//! Helpers shared by the single-step checks (C01-C08, C20).

use crate::engine::emu::Emu;
use crate::engine::run::*;
use crate::engine::stats::*;
use crate::engine::stepcase::*;
use crate::gen::*;
use crate::refmodel::exec::RefState;
use crate::refmodel::insn::*;
use serde_json::{json, Value};

pub fn put_reg(er: &mut [u32; 8], sz: Sz, r: u8, v: u32) {
    let e = &mut er[(r & 7) as usize];
    match sz {
        Sz::B => {
            if r < 8 {
                *e = (*e & 0xffff_00ff) | ((v & 0xff) << 8)
            } else {
                *e = (*e & 0xffff_ff00) | (v & 0xff)
            }
        }
        Sz::W => {
            if r < 8 {
                *e = (*e & 0xffff_0000) | (v & 0xffff)
            } else {
                *e = (*e & 0x0000_ffff) | ((v & 0xffff) << 16)
            }
        }
        Sz::L => *e = v,
    }
}
pub fn get_reg(er: &[u32; 8], sz: Sz, r: u8) -> u32 {
    let e = er[(r & 7) as usize];
    match sz {
        Sz::B => {
            if r < 8 {
                (e >> 8) & 0xff
            } else {
                e & 0xff
            }
        }
        Sz::W => {
            if r < 8 {
                e & 0xffff
            } else {
                e >> 16
            }
        }
        Sz::L => e,
    }
}
pub fn be_bytes(sz: Sz, v: u32) -> Vec<u8> {
    match sz {
        Sz::B => vec![v as u8],
        Sz::W => vec![(v >> 8) as u8, v as u8],
        Sz::L => v.to_be_bytes().to_vec(),
    }
}
pub fn nregs(sz: Sz) -> u32 {
    if sz == Sz::L {
        8
    } else {
        16
    }
}

/// `check <Cxx> --replay file` for single-step cases: re-execute with a full memory compare.
pub fn replay_step(ctx: &Ctx, property: &str, v: &Value) -> i32 {
    let case_v = v.get("case").unwrap_or(v);
    let Some(step) = case_v.get("step").and_then(StepCase::from_json) else {
        eprintln!("replay file does not contain a step case");
        return 2;
    };
    let asp_name = case_v.get("aspects").and_then(|a| a.as_str()).unwrap_or("state");
    let mut asp = match asp_name {
        "charge" => Aspects::CHARGE,
        "state+events" => Aspects { events: true, ..Aspects::STATE },
        _ => Aspects::STATE,
    };
    asp.full_dram = true;
    let mut emu = Emu::new(&ctx.base);
    let quirks = open_quirks(ctx, property);
    let j = judge(&mut emu, &step, &asp, &quirks);
    if std::env::var("H8VERIF_QUIET_REPLAY").is_ok() && !matches!(j.verdict, Verdict::Fail(_)) {
        println!("passes");
        return 0;
    }
    println!("replay {}: {}", property, step.brief());
    println!("  reference: {:?} decoded {:?}", j.step.outcome, j.step.decoded.class);
    println!("  emulator : {:?}", j.emu);
    match j.verdict {
        Verdict::Fail(why) => {
            println!("  mismatch : {}", why);
            let f = Failure { signature: v.get("signature").and_then(|s| s.as_str()).unwrap_or("replay").to_string(), detail: why, case: case_v.clone() };
            let p = write_replay(property, &f);
            println!("VIOLATION property={} replay={}", property, p.display());
            1
        }
        other => {
            println!("  verdict  : {:?}", other);
            0
        }
    }
}

/// flags that changed between two CCR values, as a short string
pub fn flag_delta(before: u8, after: u8) -> String {
    let names = ['C', 'V', 'Z', 'N', 'U', 'H', 'u', 'I'];
    let mut s = String::new();
    for i in 0..8 {
        if (before ^ after) & (1 << i) != 0 {
            s.push(names[i]);
        }
    }
    s
}

pub fn sample_json(case: &StepCase, j: &Judged) -> Value {
    json!({
        "case": case.brief(),
        "insn": format!("{:?}", j.step.decoded.class),
        "result": format!("{:?}", j.emu),
        "ccr_after": j.emu_ccr,
        "pc_after": j.emu_pc,
    })
}

/// a RefState-free view of a register operand in a register file
pub fn reg_bits(sz: Sz, r: u8) -> (usize, u32) {
    RefState::reg_bits(sz, r)
}

pub fn disp16_mix(e: &mut Ent) -> u16 {
    match e.below(4) {
        0 => e.pick(&[0u16, 1, 2, 4, 0x7e, 0x7fff, 0x7ffe, 0x8000, 0x8001, 0xffff, 0xfffe, 0xfffc, 0xff00, 0x100]),
        _ => e.u16(),
    }
}
pub fn disp24_mix(e: &mut Ent) -> u32 {
    match e.below(4) {
        0 => e.pick(&[0u32, 1, 2, 4, 0x7fffff, 0x7ffffe, 0x800000, 0x800001, 0xffffff, 0xfffffe, 0xfffffc, 0xff0000, 0x10000, 0x8000, 0x7fff]),
        _ => e.u32() >> 8,
    }
}
