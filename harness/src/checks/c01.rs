//! C01 - MOV/PUSH/POP move the exact value to the exact place and touch nothing else.

use super::common::*;
use super::driver::*;
use crate::engine::run::*;
use crate::engine::stats::*;
use crate::engine::stepcase::*;
use crate::gen::*;
use crate::refmodel::exec::MASK24;
use crate::refmodel::insn::*;
use serde_json::{json, Map};

const P: &str = "C01";

#[derive(Clone, Copy, Debug, PartialEq, Eq, Hash)]
pub enum Mode {
    RR,
    Imm,
    Ind,
    D16,
    D24,
    IncDec,
    A8,
    A16,
    A24,
}

/// every MOV form: (size, mode, load?)
pub fn forms() -> Vec<(Sz, Mode, bool)> {
    let mut v = vec![];
    for sz in [Sz::B, Sz::W, Sz::L] {
        v.push((sz, Mode::RR, true));
        v.push((sz, Mode::Imm, true));
        for m in [Mode::Ind, Mode::D16, Mode::D24, Mode::IncDec, Mode::A8, Mode::A16, Mode::A24] {
            if m == Mode::A8 && sz != Sz::B {
                continue;
            }
            v.push((sz, m, true));
            v.push((sz, m, false));
        }
    }
    v
}

#[derive(Clone, Copy, Default)]
pub struct Force {
    pub form: Option<usize>,
    pub dreg: Option<u8>,
    pub areg: Option<u8>,
    pub value: Option<u32>,
    pub ccr: Option<u8>,
    /// C01 keeps operands in RAM/DRAM/vector; upper byte of address registers per `upper`
    pub no_upper: bool,
    /// explicit effective address (C08: may be anywhere, also unmapped)
    pub target: Option<u32>,
    /// explicit displacement (16-bit forms use the low 16 bits)
    pub disp: Option<u32>,
    /// explicit upper byte (bits 31-24) of the address register
    pub upper: Option<u32>,
    /// explicit absolute address operand for the @aa forms
    pub abs: Option<u32>,
}

/// Build one MOV case. Returns (case, insn, ea, moved value).
pub fn build(e: &mut Ent, f: &Force) -> (StepCase, Insn, Option<u32>, u32) {
    let fs = forms();
    let fi = f.form.unwrap_or_else(|| e.below(fs.len() as u32) as usize);
    let (sz, mode, load) = fs[fi];
    let size = sz.bytes();
    let align = if sz == Sz::B { 1 } else { 2 };
    let areg = f.areg.unwrap_or_else(|| e.below(8) as u8) & 7;
    // data register: not overlapping the address register in +/- forms (constructed, not rejected)
    let mut dreg = f.dreg.unwrap_or_else(|| e.below(nregs(sz)) as u8) % nregs(sz) as u8;
    if mode == Mode::IncDec && (dreg & 7) == areg {
        dreg = (dreg & 8) | ((areg + 1 + e.below(7) as u8) & 7);
    }
    let sreg = e.below(nregs(sz)) as u8; // source register of the register-register form
    let value = f.value.unwrap_or_else(|| e.val(sz)) & sz.mask();
    let mut er = e.regfile();
    let ccr = f.ccr.unwrap_or_else(|| e.u8());
    let target = match mode {
        Mode::RR | Mode::Imm => None,
        Mode::A8 if f.abs.is_some() => Some(0xffff00 | (f.abs.unwrap() & 0xff)),
        Mode::A16 if f.abs.is_some() => Some(((f.abs.unwrap() as u16 as i16) as i32 as u32) & MASK24),
        Mode::A24 if f.abs.is_some() => Some(f.abs.unwrap() & MASK24),
        _ if f.target.is_some() => f.target.map(|t| t & MASK24),
        Mode::A8 => Some(0xffff00 + e.below(0x20)),
        Mode::A16 => Some(if e.chance(1, 3) {
            e.addr_in(Region::Vector, size, align)
        } else {
            // the part of on-chip RAM reachable by a sign-extended 16-bit address
            let a = e.addr_in(Region::Ram, size, align);
            a.max(0xffbf20)
        }),
        _ => Some(e.data_addr(&[Region::Ram, Region::Dram, Region::Vector], size, align)),
    };
    let ea = match mode {
        Mode::Ind => Some(Ea::Ind(areg)),
        Mode::D16 => Some(Ea::D16(areg, f.disp.map(|d| d as u16).unwrap_or_else(|| disp16_mix(e)))),
        Mode::D24 => Some(Ea::D24(areg, f.disp.map(|d| d & MASK24).unwrap_or_else(|| disp24_mix(e)))),
        Mode::IncDec => Some(if load { Ea::Post(areg) } else { Ea::Pre(areg) }),
        Mode::A8 => Some(Ea::A8(target.unwrap() as u8)),
        Mode::A16 => Some(Ea::A16(target.unwrap() as u16)),
        Mode::A24 => Some(Ea::A24(target.unwrap())),
        _ => None,
    };
    let insn = match (mode, load) {
        (Mode::RR, _) => Insn::MovRR { sz, s: sreg, d: dreg },
        (Mode::Imm, _) => Insn::MovImm { sz, imm: value, d: dreg },
        (_, true) => Insn::Load { sz, ea: ea.unwrap(), d: dreg },
        (_, false) => Insn::Store { sz, s: dreg, ea: ea.unwrap() },
    };
    let mut patches = vec![];
    match mode {
        Mode::RR => put_reg(&mut er, sz, sreg, value),
        Mode::Imm => {}
        _ => {
            if load {
                let t = target.unwrap();
                if (0..size).all(|i| crate::refmodel::exec::mapped(t.wrapping_add(i))) && !(0..size).any(|i| crate::engine::emu::is_peripheral_reg(t.wrapping_add(i)) || (0xfee000..=0xfee0ff).contains(&t.wrapping_add(i))) {
                    patches.push((t, be_bytes(sz, value)));
                }
            } else {
                put_reg(&mut er, sz, dreg, value);
            }
        }
    }
    let mut moved = value;
    if let Some(ea) = ea {
        if ea.reg().is_some() {
            let low = reg_for_ea(&ea, target.unwrap(), sz);
            let upper = if f.no_upper { 0 } else { f.upper.unwrap_or_else(|| e.upper_byte()) };
            er[areg as usize] = low | upper;
            if !load {
                // the data register may share ERn with the address register (non +/- forms): the value
                // actually stored is whatever the register then holds
                moved = get_reg(&er, sz, dreg);
            }
        }
    }
    let code = encode(&insn);
    let avoid: Vec<u32> = target.into_iter().collect();
    let mut pc = e.code_addr(code.len() as u32, &avoid);
    // rare class: the memory operand overlaps the executing instruction's own bytes (all instruction
    // words must be fetched before the operand is accessed)
    if let Some(t) = target {
        if Region::of(t).map(|r| r != Region::Vector).unwrap_or(false) && e.chance(1, 24) {
            let len = code.len() as u32;
            let cand = (t & !1).wrapping_add(2).wrapping_sub(2 * e.below(len / 2 + 2));
            let (lo, hi) = Region::of(t).unwrap().bounds();
            if cand >= lo && cand + len + 2 <= hi + 1 {
                pc = cand;
            }
        }
    }
    let bus = e.bus_cfg();
    (StepCase { code, pc, er, ccr, patches, bus, irq: None, primer: None }, insn, target, moved)
}

fn classify(case: &StepCase, j: &Judged, stats: &mut Stats, insn: &Insn, target: Option<u32>, moved: u32) {
    let form = insn.form();
    stats.class(&format!("form: {}", form));
    let (sz, dst_before) = match *insn {
        Insn::MovRR { sz, d, .. } | Insn::MovImm { sz, d, .. } | Insn::Load { sz, d, .. } => (sz, Some(get_reg(&case.er, sz, d))),
        Insn::Store { sz, .. } => (sz, None),
        _ => return,
    };
    let changed = match dst_before {
        Some(b) => b != moved,
        None => {
            // store: destination memory held the tag bytes
            let t = target.unwrap();
            be_bytes(sz, moved) != (0..sz.bytes()).map(|i| crate::engine::emu::baseline_byte(t + i)).collect::<Vec<u8>>()
        }
    };
    let not_test_addr = target.map(|t| t & MASK24 != 0xffcf20).unwrap_or(true);
    let rc = target.map(|t| region_class(t, sz.bytes())).unwrap_or_else(|| "reg".into());
    stats.class(&format!("operand: {}", rc));
    if let Some(r) = insn.mem_ea().and_then(|e| e.reg()) {
        if case.er[r as usize] >> 24 != 0 {
            stats.class("address register with non-zero upper byte");
        }
    }
    if changed && not_test_addr {
        let regs = match *insn {
            Insn::MovRR { s, d, .. } => (s, d),
            Insn::MovImm { d, .. } => (0, d),
            Insn::Load { d, ea, .. } => (ea.reg().unwrap_or(0), d),
            Insn::Store { s, ea, .. } => (s, ea.reg().unwrap_or(0)),
            _ => (0, 0),
        };
        let key = key_hash(&(form, regs, rc, value_class(sz, moved), case.ccr));
        stats.nontrivial(key, || sample_json(case, j));
    }
}

pub fn run(ctx: &Ctx) -> i32 {
    if let Some(v) = &ctx.replay {
        if crate::checks::soup::is_soup_replay(v) {
            return crate::checks::soup::replay(ctx, P, v);
        }
        return replay_step(ctx, P, v);
    }
    let fs = forms();
    let tier = ctx.tier;
    type Tag = (Insn, Option<u32>, u32);
    let b = |e: &mut Ent, f: Force| -> (StepCase, Tag) {
        let (c, i, t, m) = build(e, &f);
        (c, (i, t, m))
    };
    let enumerated = |emit: &mut dyn FnMut(&str, Builder<Tag>)| {
        let fs = forms();
        // (1) every form x every data register x every address register
        for fi in 0..fs.len() {
            for d in 0..nregs(fs[fi].0) as u8 {
                for a in 0..8u8 {
                    emit("form x data reg x addr reg", &|e| b(e, Force { form: Some(fi), dreg: Some(d), areg: Some(a), ..Default::default() }));
                }
            }
        }
        // (2) every form x all 256 CCR values
        for fi in 0..fs.len() {
            for ccr in 0..=255u8 {
                emit("form x CCR", &|e| b(e, Force { form: Some(fi), ccr: Some(ccr), ..Default::default() }));
            }
        }
        // (3) byte forms x all 256 data values; word forms x all 65536 (thorough) / strided (quick)
        for fi in 0..fs.len() {
            let (n, stride): (u32, u32) = match fs[fi].0 {
                Sz::B => (256, 1),
                Sz::W => (65536, tier.pick(97, 1)),
                Sz::L => (0, 1),
            };
            let mut v = 0;
            while v < n {
                emit("form x data value", &|e| b(e, Force { form: Some(fi), value: Some(v), ..Default::default() }));
                v += stride;
            }
        }
    };
    let mut stats = Drive {
        ctx,
        property: P,
        aspects: Aspects::STATE,
        salt: 0x0101_0000,
        nshards: 64,
        enumerated: &enumerated,
        random_cases: ctx.tier.pick(5_000_000, 240_000_000),
        build_random: &|e| b(e, Force::default()),
        classify: &|c, j, t: &Tag, s| classify(c, j, s, &t.0, t.1, t.2),
        all_quirks: false,
    }
    .run();
    stats.exhaustive_subspaces.insert("form x data register x address register".into(), fs.iter().map(|f| nregs(f.0) as u64 * 8).sum());
    stats.exhaustive_subspaces.insert("form x CCR".into(), fs.len() as u64 * 256);
    stats.exhaustive_subspaces.insert("byte form x data value".into(), fs.iter().filter(|f| f.0 == Sz::B).count() as u64 * 256);
    if ctx.tier == Tier::Thorough {
        stats.exhaustive_subspaces.insert("word form x data value".into(), fs.iter().filter(|f| f.0 == Sz::W).count() as u64 * 65536);
    }
    let rule = "cases = every MOV form of the decode table (register, immediate, @ERn, @(d:16/24,ERn), @ERn+/@-ERn, @aa:8/16/24, both directions) with enumerated register fields / CCR / data values crossed with proptest-generated register files, operand addresses (RAM, DRAM, vector area incl. first/last bytes), displacements, upper bytes, code placement and bus settings; the oracle is the reference model's complete post-state (registers, CCR, PC, all memory). Non-trivial = the moved value differs from what the destination held before and the operand is not at the unit tests' address 0xffcf20; distinct by (form, register fields, operand region/position, value class, initial CCR).";
    let mut extra = Map::new();
    extra.insert("masked_details".into(), json!(["data register overlapping the address register in @ERn+/@-ERn forms is excluded by construction (precondition of the property)"]));
    stats.merge(crate::checks::soup::phase(ctx, P, crate::checks::soup::Flavor::Mov, ctx.tier.pick(300000, 6000000), 0x1510000, false));
    let rule_soup = format!("{}{}", rule, crate::checks::soup::RULE);
    let rule: &str = &rule_soup;
    finish(ctx, P, stats, rule, vec!["reference model transcribed from the H8/300H programming manual (DESIGN 1.3, Appendix A)".into()], extra)
}
