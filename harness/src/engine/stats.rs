//! Counters, classification, samples, failures; evidence file writer; known-findings file.

use serde_json::{json, Map, Value};
use std::collections::{BTreeMap, HashSet};
use std::hash::{Hash, Hasher};
use std::path::{Path, PathBuf};

pub fn key_hash<T: Hash>(t: &T) -> u64 {
    let mut h = std::collections::hash_map::DefaultHasher::new();
    t.hash(&mut h);
    h.finish()
}

#[derive(Clone, Debug)]
pub struct Failure {
    /// stable identification of *what* fails (used for known-finding matching and grouping)
    pub signature: String,
    pub detail: String,
    /// the complete case, replayable
    pub case: Value,
}

#[derive(Default, Clone)]
pub struct Stats {
    pub evaluations: u64,
    pub skipped: u64,
    pub nontrivial_keys: HashSet<u64>,
    pub nontrivial_cases: u64,
    pub classes: BTreeMap<String, u64>,
    pub samples: Vec<Value>,
    /// known-finding signature -> (count, one sample)
    pub known: BTreeMap<String, (u64, Value)>,
    pub failures: Vec<Failure>,
    /// failures by signature in survey mode
    pub survey: BTreeMap<String, (u64, Vec<Failure>)>,
    pub exhaustive_subspaces: BTreeMap<String, u64>,
    pub notes: Vec<String>,
}

impl Stats {
    pub fn new() -> Stats {
        Stats::default()
    }
    pub fn class(&mut self, name: &str) {
        *self.classes.entry(name.to_string()).or_insert(0) += 1;
    }
    pub fn class_n(&mut self, name: &str, n: u64) {
        *self.classes.entry(name.to_string()).or_insert(0) += n;
    }
    /// record a non-trivial case with its distinctness key; keeps a few samples
    pub fn nontrivial(&mut self, key: u64, sample: impl FnOnce() -> Value) {
        self.nontrivial_cases += 1;
        let fresh = self.nontrivial_keys.insert(key);
        let c = self.nontrivial_cases;
        if fresh && (c == 1 || c == 500 || c == 20_000 || c == 300_000) && self.samples.len() < 6 {
            self.samples.push(sample());
        }
    }
    pub fn known_hit(&mut self, sig: &str, sample: impl FnOnce() -> Value) {
        let e = self.known.entry(sig.to_string()).or_insert_with(|| (0, Value::Null));
        if e.0 == 0 {
            e.1 = sample();
        }
        e.0 += 1;
    }
    pub fn fail(&mut self, f: Failure) {
        if self.failures.len() < 16 {
            self.failures.push(f);
        }
    }
    pub fn survey_fail(&mut self, f: Failure) {
        let e = self.survey.entry(f.signature.clone()).or_insert_with(|| (0, vec![]));
        e.0 += 1;
        if e.1.len() < 2 {
            e.1.push(f);
        }
    }
    pub fn merge(&mut self, o: Stats) {
        self.evaluations += o.evaluations;
        self.skipped += o.skipped;
        self.nontrivial_cases += o.nontrivial_cases;
        self.nontrivial_keys.extend(o.nontrivial_keys);
        for (k, v) in o.classes {
            *self.classes.entry(k).or_insert(0) += v;
        }
        for s in o.samples {
            if self.samples.len() < 10 {
                self.samples.push(s);
            }
        }
        for (k, (n, s)) in o.known {
            let e = self.known.entry(k).or_insert_with(|| (0, Value::Null));
            if e.0 == 0 {
                e.1 = s;
            }
            e.0 += n;
        }
        for f in o.failures {
            self.fail(f);
        }
        for (k, (n, fs)) in o.survey {
            let e = self.survey.entry(k).or_insert_with(|| (0, vec![]));
            e.0 += n;
            for f in fs {
                if e.1.len() < 2 {
                    e.1.push(f);
                }
            }
        }
        for (k, v) in o.exhaustive_subspaces {
            *self.exhaustive_subspaces.entry(k).or_insert(0) += v;
        }
        for n in o.notes {
            if !self.notes.contains(&n) && self.notes.len() < 20 {
                self.notes.push(n);
            }
        }
    }
}

#[derive(Clone, Debug)]
pub struct Finding {
    pub status: String, // "open" | "fixed"
    pub property: String,
    pub signature: String,
    pub what: String,
    pub commit: Option<String>,
}

#[derive(Clone, Debug, Default)]
pub struct Findings {
    pub all: Vec<Finding>,
}
impl Findings {
    pub fn load(path: &Path) -> Findings {
        let mut out = Findings::default();
        let Ok(text) = std::fs::read_to_string(path) else { return out };
        let Ok(v) = serde_json::from_str::<Value>(&text) else { return out };
        if let Some(arr) = v.get("findings").and_then(|a| a.as_array()) {
            for f in arr {
                let g = |k: &str| f.get(k).and_then(|x| x.as_str()).unwrap_or("").to_string();
                out.all.push(Finding {
                    status: g("status"),
                    property: g("property"),
                    signature: g("signature"),
                    what: g("what"),
                    commit: f.get("commit").and_then(|x| x.as_str()).map(|s| s.to_string()),
                });
            }
        }
        out
    }
    pub fn open_for(&self, property: &str) -> Vec<&Finding> {
        self.all.iter().filter(|f| f.status == "open" && f.property == property).collect()
    }
    pub fn is_open(&self, property: &str, signature: &str) -> bool {
        self.all.iter().any(|f| f.status == "open" && f.property == property && f.signature == signature)
    }
    pub fn what(&self, property: &str, signature: &str) -> String {
        self.all
            .iter()
            .find(|f| f.property == property && f.signature == signature)
            .map(|f| f.what.clone())
            .unwrap_or_default()
    }
}

pub struct EvidenceMeta<'a> {
    pub property: &'a str,
    pub tier: &'a str,
    pub seed: u64,
    pub rule: &'a str,
    pub assumptions: Vec<String>,
    pub wall_s: f64,
    pub violations: u64,
    pub extra: Map<String, Value>,
}

pub fn verif_root() -> PathBuf {
    if let Ok(p) = std::env::var("H8VERIF_ROOT") {
        return PathBuf::from(p);
    }
    // the harness lives in <root>/harness
    let here = Path::new(env!("CARGO_MANIFEST_DIR"));
    here.parent().map(|p| p.to_path_buf()).unwrap_or_else(|| PathBuf::from("/verif"))
}

pub fn write_evidence(stats: &Stats, meta: EvidenceMeta) {
    let root = verif_root();
    let dir = root.join("evidence");
    let _ = std::fs::create_dir_all(&dir);
    let mut cov = Map::new();
    cov.insert("evaluations".into(), json!(stats.evaluations));
    cov.insert("distinct_nontrivial".into(), json!(stats.nontrivial_keys.len() as u64));
    cov.insert("nontrivial_cases".into(), json!(stats.nontrivial_cases));
    cov.insert("unconstrained_cases_skipped".into(), json!(stats.skipped));
    cov.insert("rule".into(), json!(meta.rule));
    let mut samples = stats.samples.clone();
    for (sig, (_, s)) in &stats.known {
        samples.push(json!({"known_finding": sig, "case": s}));
    }
    cov.insert("samples".into(), Value::Array(samples));
    cov.insert("classes".into(), json!(stats.classes));
    cov.insert("exhaustive_subspaces".into(), json!(stats.exhaustive_subspaces));
    cov.insert(
        "cases_matching_known_findings".into(),
        Value::Object(stats.known.iter().map(|(k, (n, _))| (k.clone(), json!(n))).collect()),
    );
    if !stats.notes.is_empty() {
        cov.insert("notes".into(), json!(stats.notes));
    }
    for (k, v) in meta.extra {
        cov.insert(k, v);
    }
    let ev = json!({
        "property_id": meta.property,
        "tier": meta.tier,
        "seed": meta.seed,
        "level": "exploration",
        "coverage": Value::Object(cov),
        "assumptions": meta.assumptions,
        "wall_s": meta.wall_s,
        "violations": meta.violations,
    });
    let path = dir.join(format!("{}.json", meta.property));
    let _ = std::fs::write(&path, serde_json::to_string_pretty(&ev).unwrap() + "\n");
}

/// write a replay file, return its path
pub fn write_replay(property: &str, f: &Failure) -> PathBuf {
    let root = verif_root();
    let dir = root.join("replays");
    let _ = std::fs::create_dir_all(&dir);
    let body = json!({
        "property": property,
        "signature": f.signature,
        "detail": f.detail,
        "case": f.case,
    });
    let text = serde_json::to_string_pretty(&body).unwrap() + "\n";
    let h = key_hash(&text);
    let path = dir.join(format!("{}-{:016x}.json", property, h));
    let _ = std::fs::write(&path, text);
    path
}
