pub mod emu;
pub mod logctl;
pub mod program;
pub mod realbin;
pub mod run;
pub mod stats;
pub mod stdio;
pub mod stepcase;
