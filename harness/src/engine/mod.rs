pub mod emu;
pub mod run;
pub mod stats;
pub mod stepcase;
