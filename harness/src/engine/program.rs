//! Multi-instruction lockstep execution of a guest program on the emulator and on the reference
//! model, with injection points for interrupts (used by C05 programs, C06 histories, C10, C13).

use super::emu::*;
use super::stepcase::{merge_windows, win, PreImage};
use crate::cpu::verif_hooks as hooks;
use crate::refmodel::exec::{self as rx, BusCfg, Outcome, Quirk, RefState, Step};
use serde_json::{json, Value};
use std::collections::{BTreeMap, BTreeSet, HashMap};

#[derive(Clone, Debug, PartialEq)]
pub struct Prog {
    pub image: Vec<(u32, Vec<u8>)>,
    pub er: [u32; 8],
    pub ccr: u8,
    pub pc: u32,
    pub bus: BusCfg,
}
impl Prog {
    pub fn to_json(&self) -> Value {
        json!({
            "image": self.image.iter().map(|(a, b)| json!([a, super::stepcase::hex(b)])).collect::<Vec<_>>(),
            "er": self.er.to_vec(), "ccr": self.ccr, "pc": self.pc,
            "bus": [self.bus.abwcr, self.bus.astcr, self.bus.wcrh, self.bus.wcrl, self.bus.drcra],
        })
    }
    pub fn from_json(v: &Value) -> Option<Prog> {
        let mut er = [0u32; 8];
        for (i, x) in v.get("er")?.as_array()?.iter().enumerate().take(8) {
            er[i] = x.as_u64()? as u32;
        }
        let b = v.get("bus")?.as_array()?;
        let g = |i: usize| b.get(i).and_then(|x| x.as_u64()).unwrap_or(0) as u8;
        Some(Prog {
            image: v.get("image")?.as_array()?.iter().filter_map(|p| Some((p.get(0)?.as_u64()? as u32, super::stepcase::unhex(p.get(1)?.as_str()?)?))).collect(),
            er,
            ccr: v.get("ccr")?.as_u64()? as u8,
            pc: v.get("pc")?.as_u64()? as u32,
            bus: BusCfg { abwcr: g(0), astcr: g(1), wcrh: g(2), wcrl: g(3), drcra: g(4) },
        })
    }
}

pub enum Ctl {
    /// execute the next instruction on both sides
    Step,
    /// raise + accept interrupt `v` on both sides (reference: entry; emulator: request + poll)
    Irq(u8),
    /// patch bytes into both memories (e.g. the next instruction of a history), then ask again
    Patch(u32, Vec<u8>),
    /// overwrite CCR on both sides, then ask again
    SetCcr(u8),
    /// the emulator's interrupt controller gets a request for vector `v` - nothing is polled (it stays pending);
    /// then ask again
    Raise(u8),
    /// poll for interrupts (the run loop's poll): the pending request of vector `v` must be accepted now
    /// (reference: entry through `v`; emulator: poll only)
    Poll(u8),
    Stop,
}

/// what the controller sees before each action
pub struct View<'v> {
    pub idx: usize,
    pub er: &'v [u32; 8],
    pub ccr: u8,
    pub pc: u32,
    /// the reference's record of the previous action (None at the start)
    pub last: Option<&'v Step>,
    pub last_states: u32,
    pub peek: &'v dyn Fn(u32) -> Option<u8>,
}

#[derive(Clone, Debug, PartialEq)]
pub enum End {
    Stopped,
    MaxSteps,
    /// the reference reports that the instruction must fail and the emulator failed too
    BothFault(String),
    /// the reference does not constrain what follows
    Unspecified(String),
    Mismatch(String),
}

pub struct LsOutcome {
    pub end: End,
    pub steps: usize,
    pub charges: Vec<u32>,
    pub known: Vec<Quirk>,
    pub final_er: [u32; 8],
    pub final_ccr: u8,
    pub final_pc: u32,
    pub msgs: Vec<String>,
    /// reference events (console output) of all executed steps, in order
    pub events: Vec<rx::Event>,
    /// final reference memory overlay (addr -> byte) for checks that want to inspect it
    pub overlay: HashMap<u32, u8>,
    /// message of a panic of the emulator during the run (never acceptable, whatever the reference says)
    pub panic: Option<String>,
}

pub struct LsOpts<'q> {
    pub quirks: &'q [Quirk],
    pub max_steps: usize,
    pub full_dram: bool,
    /// compare memory at the end (true) - histories that patch code on the fly still work because
    /// patches go to both sides
    pub compare_memory: bool,
}

pub fn lockstep(emu: &mut Emu, prog: &Prog, opts: &LsOpts, ctl: &mut dyn FnMut(&View) -> Ctl) -> LsOutcome {
    let mut pre = PreImage { map: HashMap::new() };
    for (a, bytes) in &prog.image {
        for (i, b) in bytes.iter().enumerate() {
            pre.map.insert(a.wrapping_add(i as u32), *b);
        }
    }
    pre.map.insert(ABWCR, prog.bus.abwcr);
    pre.map.insert(ASTCR, prog.bus.astcr);
    pre.map.insert(WCRH, prog.bus.wcrh);
    pre.map.insert(WCRL, prog.bus.wcrl);
    pre.map.insert(DRCRA, prog.bus.drcra);
    for (&a, &v) in pre.map.iter() {
        emu.set_byte(a, v);
    }
    emu.set_bus_cfg(&prog.bus);
    emu.cpu.er = prog.er;
    emu.set_ccr(prog.ccr);
    emu.set_pc(prog.pc);
    let _ = emu.drain_msgs();
    emu.clear_write_log();
    // the loader's record of `___exit` concerns the run loop only; stepping a program must not depend on it. It
    // points at something inside the program's image (a routine entry, a handler, the middle of the code), at the
    // start, or nowhere.
    {
        let n: usize = prog.image.iter().map(|(_, b)| b.len()).sum();
        let h = prog.pc.wrapping_mul(0x9e37_79b9) ^ prog.er[1].rotate_left(9) ^ (n as u32) << 3;
        let h = h ^ (h >> 14);
        emu.cpu.exit_addr = match h % 4 {
            0 => 0,
            1 => prog.pc,
            _ if prog.image.is_empty() => 0,
            _ => {
                // an even address inside one of the image's pieces
                let (a, b) = &prog.image[(h >> 4) as usize % prog.image.len().max(1)];
                a.wrapping_add(((h >> 12) as usize % b.len().max(1)) as u32) & !1
            }
        };
    }

    let mut touched: BTreeSet<u32> = pre.map.keys().copied().collect();
    let mut extra_patched: BTreeSet<u32> = BTreeSet::new();
    let mut s = RefState::new(&pre);
    s.er = prog.er;
    s.ccr = prog.ccr;
    s.pc = prog.pc;
    let mut out = LsOutcome {
        end: End::MaxSteps,
        steps: 0,
        charges: vec![],
        known: vec![],
        final_er: prog.er,
        final_ccr: prog.ccr,
        final_pc: prog.pc,
        msgs: vec![],
        events: vec![],
        overlay: HashMap::new(),
        panic: None,
    };
    let mut last: Option<Step> = None;
    let mut last_states = 0u32;
    let mut periph = false;
    let mut panicked = false;
    let mut idx = 0usize;
    let mut dont_care: BTreeSet<u32> = BTreeSet::new();
    'outer: while idx < opts.max_steps {
        let action = {
            let sref = &s;
            let peek = |a: u32| sref.peek(a);
            let v = View { idx, er: &s.er, ccr: s.ccr, pc: s.pc, last: last.as_ref(), last_states, peek: &peek };
            ctl(&v)
        };
        let mut poll_only = false;
        let irq = match action {
            Ctl::Stop => {
                out.end = End::Stopped;
                break;
            }
            Ctl::Patch(a, bytes) => {
                for (i, b) in bytes.iter().enumerate() {
                    let aa = a.wrapping_add(i as u32);
                    s.poke(aa, *b);
                    emu.set_byte(aa, *b);
                    touched.insert(aa);
                    extra_patched.insert(aa);
                }
                continue;
            }
            Ctl::SetCcr(c) => {
                s.ccr = c;
                emu.set_ccr(c);
                continue;
            }
            Ctl::Raise(v) => {
                hooks::request_interrupt(&mut emu.cpu, v);
                continue;
            }
            Ctl::Step => None,
            Ctl::Irq(v) => Some(v),
            Ctl::Poll(v) => {
                poll_only = true;
                Some(v)
            }
        };
        // --- reference (with quirk fallback)
        let snapshot = if opts.quirks.is_empty() { None } else { Some((s.er, s.ccr, s.pc, s.overlay.clone())) };
        let mut step = match irq {
            Some(v) => rx::interrupt_entry(&mut s, v),
            None => rx::step(&mut s, &[]),
        };
        // --- emulator
        let res = match irq {
            Some(v) => {
                if !poll_only {
                    hooks::request_interrupt(&mut emu.cpu, v);
                }
                emu.try_interrupt()
            }
            None => emu.step(),
        };
        idx += 1;
        out.steps = idx;
        for acc in &step.accesses {
            touched.insert(acc.addr);
            for i in 0..acc.size {
                if acc.write {
                    touched.insert(acc.addr.wrapping_add(i));
                }
            }
        }
        let cmp = |s: &RefState, step: &Step, emu: &Emu, res: &EmuResult| -> Option<String> {
            match (&step.outcome, res) {
                (Outcome::Ok, EmuResult::Ok(_)) => {
                    for i in 0..8 {
                        if (emu.cpu.er[i] ^ s.er[i]) & !step.dont_care_reg[i] != 0 {
                            return Some(format!("step {}: ER{} expected {:08x} observed {:08x}", idx, i, s.er[i], emu.cpu.er[i]));
                        }
                    }
                    if (emu.ccr() ^ s.ccr) & !step.dont_care_ccr != 0 {
                        return Some(format!("step {}: CCR expected {:02x} observed {:02x}", idx, s.ccr, emu.ccr()));
                    }
                    if emu.pc() != s.pc {
                        return Some(format!("step {}: PC expected {:06x} observed {:06x}", idx, s.pc, emu.pc()));
                    }
                    // bytes written by this step
                    for acc in step.accesses.iter().filter(|a| a.write) {
                        for i in 0..acc.size {
                            let a = acc.addr.wrapping_add(i);
                            if step.dont_care_mem.contains(&a) || is_peripheral_reg(a) {
                                continue;
                            }
                            let e = s.peek(a);
                            let o = raw_get(&emu.cpu.bus, a);
                            if e != o {
                                return Some(format!("step {}: memory[{:06x}] expected {:02x?} observed {:02x?}", idx, a, e, o));
                            }
                        }
                    }
                    None
                }
                (Outcome::Ok, other) => Some(format!("step {}: expected successful execution, observed {:?}", idx, other)),
                (Outcome::AccessFault(_), EmuResult::Err(_)) | (Outcome::Reject(_), EmuResult::Err(_)) => None,
                (Outcome::AccessFault(a), other) => Some(format!("step {}: access to {:06x} must fail, observed {}", idx, a, other.kind())),
                (Outcome::Reject(m), other) => Some(format!("step {}: {} must be rejected, observed {}", idx, m, other.kind())),
                (Outcome::FetchFault, EmuResult::Ok(_)) => Some(format!("step {}: instruction fetch outside mapped memory must be an error, the step succeeded", idx)),
                (Outcome::Unspecified(_), _) | (Outcome::FetchFault, _) => None,
            }
        };
        let mut mismatch = cmp(&s, &step, emu, &res);
        if mismatch.is_some() {
            if let Some((er, ccr, pc, ov)) = snapshot {
                // retry with the open findings' quirks
                let mut s2 = RefState::new(&pre);
                s2.er = er;
                s2.ccr = ccr;
                s2.pc = pc;
                s2.overlay = ov;
                let step2 = match irq {
                    Some(v) => rx::interrupt_entry(&mut s2, v),
                    None => rx::step(&mut s2, opts.quirks),
                };
                if !step2.quirks_fired.is_empty() && cmp(&s2, &step2, emu, &res).is_none() {
                    for q in &step2.quirks_fired {
                        if !out.known.contains(q) {
                            out.known.push(*q);
                        }
                    }
                    for acc in &step2.accesses {
                        for i in 0..acc.size {
                            touched.insert(acc.addr.wrapping_add(i));
                        }
                    }
                    s.er = s2.er;
                    s.ccr = s2.ccr;
                    s.pc = s2.pc;
                    s.overlay = s2.overlay;
                    step = step2;
                    mismatch = None;
                }
            }
        }
        if let EmuResult::Panic(p) = &res {
            panicked = true;
            out.panic = Some(p.clone());
        }
        if let Some(m) = mismatch {
            out.end = End::Mismatch(format!("{} ; emulator returned {:?}", m, res));
            break 'outer;
        }
        // the emulator follows; adopt its values for bits the reference does not constrain
        for i in 0..8 {
            s.er[i] = (s.er[i] & !step.dont_care_reg[i]) | (emu.cpu.er[i] & step.dont_care_reg[i]);
        }
        s.ccr = (s.ccr & !step.dont_care_ccr) | (emu.ccr() & step.dont_care_ccr);
        for &a in &step.dont_care_mem {
            dont_care.insert(a);
            if let Some(v) = raw_get(&emu.cpu.bus, a) {
                s.poke(a, v);
            }
        }
        if step.accesses.iter().any(|a| a.write && (0..a.size).any(|i| is_peripheral_reg(a.addr + i))) {
            periph = true;
            // peripheral registers: the emulator's values are authoritative for the reference's memory - all of
            // them, not only the bytes written: a write to one register changes what others read (a DDR write
            // changes the DR byte, a TCR write may change flags)
            for a in (0xfee000u32..=0xfee00a).chain(0xffffd0..=0xffffda).chain(0xffff80..=0xffff99) {
                if let Some(v) = raw_get(&emu.cpu.bus, a) {
                    s.poke(a, v);
                }
            }
        }
        match (&step.outcome, &res) {
            (Outcome::Ok, EmuResult::Ok(n)) => {
                out.events.extend(step.events.iter().cloned());
                out.charges.push(*n);
                last_states = *n;
            }
            (Outcome::AccessFault(_), _) | (Outcome::Reject(_), _) => {
                out.end = End::BothFault(format!("{:?}", step.outcome));
                last = Some(step);
                break 'outer;
            }
            (Outcome::Unspecified(w), _) => {
                out.end = End::Unspecified(w.to_string());
                break 'outer;
            }
            (Outcome::FetchFault, _) => {
                out.end = End::Unspecified("instruction fetch outside mapped memory".into());
                break 'outer;
            }
            _ => {}
        }
        last = Some(step);
    }
    out.final_er = emu.cpu.er;
    out.final_ccr = emu.ccr();
    out.final_pc = emu.pc();
    out.msgs = emu.drain_msgs();
    // --- final memory comparison
    let windows = merge_windows(
        touched
            .iter()
            .map(|a| win(*a))
            .chain(rx::REGIONS.iter().flat_map(|&(lo, hi, _)| [win(lo), win(hi)]))
            .chain(prog.er.iter().map(|a| win(*a)))
            .chain(out.final_er.iter().map(|a| win(*a)))
            .collect(),
    );
    let d_emu = if panicked { BTreeMap::new() } else { emu.diff(&windows, opts.full_dram) };
    if opts.compare_memory && !panicked && matches!(out.end, End::Stopped | End::MaxSteps | End::BothFault(_)) && !matches!(out.end, End::BothFault(_)) {
        let mut d_ref: BTreeMap<u32, u8> = BTreeMap::new();
        for (&a, &v) in pre.map.iter() {
            if v != baseline_byte(a) {
                d_ref.insert(a, v);
            }
        }
        for (&a, &v) in s.overlay.iter() {
            if v != baseline_byte(a) {
                d_ref.insert(a, v);
            } else {
                d_ref.remove(&a);
            }
        }
        let keys: BTreeSet<u32> = d_ref.keys().chain(d_emu.keys()).copied().collect();
        for a in keys {
            if dont_care.contains(&a) || (periph && is_peripheral_reg(a)) {
                continue;
            }
            let e = d_ref.get(&a).copied().unwrap_or_else(|| baseline_byte(a));
            let o = d_emu.get(&a).copied().unwrap_or_else(|| baseline_byte(a));
            if e != o {
                out.end = End::Mismatch(format!("final memory[{:06x}]: expected {:02x} observed {:02x}", a, e, o));
                break;
            }
        }
    }
    out.overlay = std::mem::take(&mut s.overlay);
    // --- restore
    if panicked || periph || emu.dirty_hidden {
        emu.rebuild();
    } else {
        emu.restore(pre.map.keys());
        emu.restore(d_emu.keys());
        emu.restore(extra_patched.iter());
    }
    out
}
