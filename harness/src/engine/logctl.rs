//! The log level as a dimension of the environment.  The emulator's behaviour must not depend on what is being
//! logged (`--log off|error|warn|info|debug|trace` is a user option of the binary): the harness installs a logger
//! that formats and discards every record, and the level it claims to be enabled varies from generated case to
//! generated case - per thread, as a pure function of the case's position in its generator's sequence.
use std::cell::Cell;
use std::sync::atomic::{AtomicBool, AtomicU8, Ordering};

/// level for threads that never chose one (threads started by the emulator itself) and for replays
pub static DEFAULT: AtomicU8 = AtomicU8::new(3);
/// replays pin the level: the generators' counters no longer change it
pub static FROZEN: AtomicBool = AtomicBool::new(false);
thread_local! {
    static LEVEL: Cell<u8> = const { Cell::new(255) };
    static CASE_K: Cell<u64> = const { Cell::new(0) };
}
pub const NAMES: [&str; 6] = ["off", "error", "warn", "info", "debug", "trace"];

pub fn current() -> u8 {
    let l = LEVEL.with(|l| l.get());
    if l == 255 || FROZEN.load(Ordering::Relaxed) {
        DEFAULT.load(Ordering::Relaxed)
    } else {
        l
    }
}

struct Sink;
impl log::Log for Sink {
    fn enabled(&self, m: &log::Metadata) -> bool {
        (m.level() as usize as u8) <= current()
    }
    fn log(&self, record: &log::Record) {
        if self.enabled(record.metadata()) {
            // format (and thereby evaluate) the arguments like the real program's logger does, then discard
            let s = format!("{}", record.args());
            std::hint::black_box(s);
        }
    }
    fn flush(&self) {}
}
static SINK: Sink = Sink;

pub fn install() {
    let _ = log::set_logger(&SINK);
    log::set_max_level(log::LevelFilter::Trace);
}

/// called once per generated case by the case drivers: info (the binary's default) for 3 cases in 8, trace for 2,
/// off, debug and warn for one each
pub fn next_case() {
    let k = CASE_K.with(|c| {
        let k = c.get();
        c.set(k + 1);
        k
    });
    let l = [5u8, 0, 4, 2, 5, 3, 3, 3][(k % 8) as usize];
    LEVEL.with(|c| c.set(l));
}

pub fn freeze(level: u8) {
    DEFAULT.store(level, Ordering::Relaxed);
    FROZEN.store(true, Ordering::Relaxed);
}
