//! One single-instruction differential case: set up the emulator and the reference from the same
//! description, execute one step on both, compare the complete post-state.

use super::emu::*;
use crate::refmodel::exec::{self as rx, BusCfg, Outcome, Quirk, RefState, Step};
use serde_json::{json, Value};
use std::collections::{BTreeMap, BTreeSet, HashMap};

#[derive(Clone, Debug, PartialEq)]
pub struct StepCase {
    pub code: Vec<u8>,
    pub pc: u32,
    pub er: [u32; 8],
    pub ccr: u8,
    pub patches: Vec<(u32, Vec<u8>)>,
    pub bus: BusCfg,
    /// Some(v): the action is "request interrupt v, then poll" (the acceptance of an interrupt at an
    /// instruction boundary) instead of executing the instruction at pc
    pub irq: Option<u8>,
    /// Some: before the case is set up, this step is executed on the same emulator (its result is ignored, its
    /// memory effects are undone): a step that *fails* (an instruction that fails must leave nothing behind that
    /// changes what the next instruction does) or a *sibling* of the case's instruction (same registers, the
    /// related encoding - e.g. the same displacement number in the other width - must not be confused with it).
    pub primer: Option<Primer>,
}

/// a step executed before the case on the same emulator: `code` at `pc` with the register file `er`
#[derive(Clone, Debug, PartialEq)]
pub struct Primer {
    pub pc: u32,
    pub code: Vec<u8>,
    pub er: [u32; 8],
}

impl StepCase {
    pub fn to_json(&self) -> Value {
        json!({
            "code": hex(&self.code),
            "pc": self.pc,
            "er": self.er.to_vec(),
            "ccr": self.ccr,
            "patches": self.patches.iter().map(|(a, b)| json!([a, hex(b)])).collect::<Vec<_>>(),
            "bus": [self.bus.abwcr, self.bus.astcr, self.bus.wcrh, self.bus.wcrl, self.bus.drcra],
            "irq": self.irq,
            "primer": self.primer.as_ref().map(|p| json!({"pc": p.pc, "code": hex(&p.code), "er": p.er.to_vec()})),
        })
    }
    pub fn from_json(v: &Value) -> Option<StepCase> {
        let er_v = v.get("er")?.as_array()?;
        let mut er = [0u32; 8];
        for (i, x) in er_v.iter().enumerate().take(8) {
            er[i] = x.as_u64()? as u32;
        }
        let b = v.get("bus")?.as_array()?;
        let g = |i: usize| b.get(i).and_then(|x| x.as_u64()).unwrap_or(0) as u8;
        Some(StepCase {
            code: unhex(v.get("code")?.as_str()?)?,
            pc: v.get("pc")?.as_u64()? as u32,
            er,
            ccr: v.get("ccr")?.as_u64()? as u8,
            patches: v
                .get("patches")?
                .as_array()?
                .iter()
                .filter_map(|p| Some((p.get(0)?.as_u64()? as u32, unhex(p.get(1)?.as_str()?)?)))
                .collect(),
            bus: BusCfg { abwcr: g(0), astcr: g(1), wcrh: g(2), wcrl: g(3), drcra: g(4) },
            irq: v.get("irq").and_then(|x| x.as_u64()).map(|x| x as u8),
            primer: v.get("primer").filter(|p| p.is_object()).and_then(|p| {
                let mut er = [0u32; 8];
                for (i, x) in p.get("er")?.as_array()?.iter().enumerate().take(8) {
                    er[i] = x.as_u64()? as u32;
                }
                Some(Primer { pc: p.get("pc")?.as_u64()? as u32, code: unhex(p.get("code")?.as_str()?)?, er })
            }),
        })
    }
    /// human-readable one-line rendering for evidence samples
    pub fn brief(&self) -> String {
        format!(
            "{}{}code={} @{:06x} er=[{}] ccr={:02x}{}",
            match &self.primer {
                Some(p) => format!("after-step[{} @{:06x} er=[{}]] ", hex(&p.code), p.pc, p.er.iter().map(|r| format!("{:08x}", r)).collect::<Vec<_>>().join(",")),
                None => String::new(),
            },
            match self.irq {
                Some(v) => format!("irq={} ", v),
                None => String::new(),
            },
            hex(&self.code),
            self.pc,
            self.er.iter().map(|r| format!("{:08x}", r)).collect::<Vec<_>>().join(","),
            self.ccr,
            if self.patches.is_empty() {
                String::new()
            } else {
                format!(" patches={}", self.patches.iter().map(|(a, b)| format!("{:06x}:{}", a, hex(b))).collect::<Vec<_>>().join(";"))
            }
        )
    }
}

pub fn hex(b: &[u8]) -> String {
    b.iter().map(|x| format!("{:02x}", x)).collect()
}
pub fn unhex(s: &str) -> Option<Vec<u8>> {
    if s.len() % 2 != 0 {
        return None;
    }
    (0..s.len() / 2).map(|i| u8::from_str_radix(&s[2 * i..2 * i + 2], 16).ok()).collect()
}

#[derive(Clone, Copy, Debug)]
pub struct Aspects {
    /// registers, CCR, PC, all memory, Ok/Err
    pub state: bool,
    /// returned state count == reference cycle mix x bus cost
    pub charge: bool,
    /// outgoing messages == reference events (TRAPA #0)
    pub events: bool,
    /// compare the whole DRAM instead of windows
    pub full_dram: bool,
}
impl Aspects {
    pub const STATE: Aspects = Aspects { state: true, charge: false, events: false, full_dram: false };
    pub const CHARGE: Aspects = Aspects { state: false, charge: true, events: false, full_dram: false };
}

#[derive(Clone, Debug, PartialEq)]
pub enum Verdict {
    Pass,
    /// equal to the reference with these open-finding quirks switched on
    Known(Vec<Quirk>),
    /// the reference does not constrain this case
    Skip(String),
    Fail(String),
}

pub struct Judged {
    pub verdict: Verdict,
    /// the pure reference's step
    pub step: Step,
    pub emu: EmuResult,
    pub ref_er: [u32; 8],
    pub ref_ccr: u8,
    pub ref_pc: u32,
    pub emu_er: [u32; 8],
    pub emu_ccr: u8,
    pub emu_pc: u32,
    pub msgs: Vec<String>,
    /// every byte of guest memory that differs from the baseline after the step (code and patches included)
    pub mem_diff: BTreeMap<u32, u8>,
}

pub struct PreImage {
    pub map: HashMap<u32, u8>,
}
impl rx::Base for PreImage {
    fn get(&self, addr: u32) -> u8 {
        match self.map.get(&addr) {
            Some(v) => *v,
            None => baseline_byte(addr),
        }
    }
}

fn pre_image(case: &StepCase) -> PreImage {
    let mut map = HashMap::new();
    for (a, bytes) in &case.patches {
        for (i, b) in bytes.iter().enumerate() {
            map.insert(a.wrapping_add(i as u32), *b);
        }
    }
    for (i, b) in case.code.iter().enumerate() {
        // bit 0 of PC is ignored by the fetch
        map.insert((case.pc & !1).wrapping_add(i as u32), *b);
    }
    map.insert(ABWCR, case.bus.abwcr);
    map.insert(ASTCR, case.bus.astcr);
    map.insert(WCRH, case.bus.wcrh);
    map.insert(WCRL, case.bus.wcrl);
    map.insert(DRCRA, case.bus.drcra);
    PreImage { map }
}

pub fn merge_windows(mut w: Vec<(u32, u32)>) -> Vec<(u32, u32)> {
    w.sort();
    let mut out: Vec<(u32, u32)> = Vec::with_capacity(w.len());
    for (lo, hi) in w {
        if let Some(last) = out.last_mut() {
            if lo <= last.1.saturating_add(1) {
                if hi > last.1 {
                    last.1 = hi;
                }
                continue;
            }
        }
        out.push((lo, hi));
    }
    out
}

pub fn win(a: u32) -> (u32, u32) {
    let a = a & rx::MASK24;
    (a.saturating_sub(64), a.saturating_add(64).min(rx::MASK24))
}

struct RefRun {
    step: Step,
    er: [u32; 8],
    ccr: u8,
    pc: u32,
    overlay: HashMap<u32, u8>,
}

fn run_ref(case: &StepCase, pre: &PreImage, quirks: &[Quirk]) -> RefRun {
    let mut s = RefState::new(pre);
    s.er = case.er;
    s.ccr = case.ccr;
    s.pc = case.pc;
    let step = match case.irq {
        Some(v) => rx::interrupt_entry(&mut s, v),
        None => rx::step(&mut s, quirks),
    };
    RefRun { step, er: s.er, ccr: s.ccr, pc: s.pc, overlay: s.overlay }
}

pub struct Observed {
    pub result: EmuResult,
    pub er: [u32; 8],
    pub ccr: u8,
    pub pc: u32,
    pub msgs: Vec<String>,
}

/// compare one reference run against the observation; None = equal
fn compare(case: &StepCase, pre: &PreImage, r: &RefRun, obs: &Observed, d_emu: &BTreeMap<u32, u8>, asp: &Aspects) -> Option<String> {
    match (&r.step.outcome, &obs.result) {
        (Outcome::Ok, EmuResult::Ok(n)) => {
            if asp.state {
                for i in 0..8 {
                    if (obs.er[i] ^ r.er[i]) & !r.step.dont_care_reg[i] != 0 {
                        return Some(format!("ER{}: expected {:08x} observed {:08x}", i, r.er[i], obs.er[i]));
                    }
                }
                if (obs.ccr ^ r.ccr) & !r.step.dont_care_ccr != 0 {
                    return Some(format!("CCR: expected {:02x} observed {:02x} (initial {:02x})", r.ccr, obs.ccr, case.ccr));
                }
                // after an instruction that started at an odd PC, bit 0 of PC is not constrained
                let pcmask = if case.pc & 1 != 0 { !1u32 } else { !0u32 };
                if (obs.pc ^ r.pc) & pcmask != 0 {
                    return Some(format!("PC: expected {:06x} observed {:06x}", r.pc, obs.pc));
                }
                // memory: expected diff set vs observed diff set
                let mut d_ref: BTreeMap<u32, u8> = BTreeMap::new();
                for (&a, &v) in pre.map.iter() {
                    if v != baseline_byte(a) {
                        d_ref.insert(a, v);
                    }
                }
                for (&a, &v) in r.overlay.iter() {
                    if v != baseline_byte(a) {
                        d_ref.insert(a, v);
                    } else {
                        d_ref.remove(&a);
                    }
                }
                let periph_touched = r.overlay.keys().any(|a| is_peripheral_reg(*a));
                let dc: BTreeSet<u32> = r.step.dont_care_mem.iter().copied().collect();
                let keys: BTreeSet<u32> = d_ref.keys().chain(d_emu.keys()).copied().collect();
                for a in keys {
                    if dc.contains(&a) || (periph_touched && is_peripheral_reg(a)) {
                        continue;
                    }
                    let e = d_ref.get(&a).copied().unwrap_or_else(|| baseline_byte(a));
                    let o = d_emu.get(&a).copied().unwrap_or_else(|| baseline_byte(a));
                    if e != o {
                        let was = pre.map.get(&a).copied().unwrap_or_else(|| baseline_byte(a));
                        return Some(format!("memory[{:06x}]: expected {:02x} observed {:02x} (before {:02x})", a, e, o, was));
                    }
                }
            }
            if asp.charge {
                if let Some(exp) = rx::total_cost(&r.step.cycles, &case.bus) {
                    if exp != *n {
                        return Some(format!("charge: expected {} states ({:?}) observed {}", exp, r.step.cycles, n));
                    }
                }
            }
            if asp.events {
                let exp: Vec<String> = r
                    .step
                    .events
                    .iter()
                    .map(|e| match e {
                        rx::Event::Stdout(b) => format!("stdout:{}", String::from_utf8_lossy(b)),
                    })
                    .collect();
                if exp != obs.msgs {
                    return Some(format!("messages: expected {:?} observed {:?}", exp, obs.msgs));
                }
            }
            None
        }
        // an implementation may refuse to execute at an odd PC
        (Outcome::Ok, EmuResult::Err(_)) if case.pc & 1 != 0 => None,
        (Outcome::Ok, other) => {
            if asp.state || asp.charge {
                Some(format!("expected successful execution, observed {:?}", other))
            } else {
                None
            }
        }
        (Outcome::AccessFault(a), EmuResult::Err(_)) => {
            let _ = a;
            None
        }
        (Outcome::Reject(_), EmuResult::Err(_)) => None,
        (Outcome::AccessFault(a), other) => {
            if asp.state {
                Some(format!("access to inaccessible address {:06x} must be an error, observed {:?}", a, other.kind()))
            } else {
                None
            }
        }
        (Outcome::Reject(m), other) => {
            if asp.state {
                Some(format!("{} must be rejected with an error, observed {:?}", m, other.kind()))
            } else {
                None
            }
        }
        (Outcome::Unspecified(_), _) | (Outcome::FetchFault, _) => None,
    }
}

/// Execute a step that fails (fetch fault, unimplemented opcode, access fault...) and undo its memory effects.
/// Whatever it returns is not judged here (C15 / C07 / C09 judge failing steps); what matters is that the
/// case that follows on the same emulator behaves as if the failing step had never happened.
pub fn run_primer(emu: &mut Emu, p: &Primer, case: &StepCase) {
    let addrs: Vec<u32> = (0..p.code.len() as u32).map(|i| p.pc.wrapping_add(i)).collect();
    for (i, b) in p.code.iter().enumerate() {
        emu.set_byte(p.pc.wrapping_add(i as u32), *b);
    }
    emu.set_bus_cfg(&case.bus);
    emu.cpu.er = p.er;
    emu.set_ccr(case.ccr);
    emu.set_pc(p.pc);
    emu.clear_write_log();
    let r = emu.step();
    let log: Vec<u32> = emu.cpu.bus.verif_write_log.clone();
    emu.restore(addrs.iter());
    emu.restore(log.iter());
    if matches!(r, EmuResult::Panic(_)) || log.iter().any(|a| is_peripheral_reg(*a)) || emu.dirty_hidden {
        emu.soft_reset();
    }
    let _ = emu.drain_msgs();
    emu.clear_write_log();
}

/// Execute `case` on the emulator and on the reference and judge it. Leaves the emulator's memory
/// equal to the baseline again (or rebuilt).
pub fn judge(emu: &mut Emu, case: &StepCase, asp: &Aspects, open_quirks: &[Quirk]) -> Judged {
    if let Some(p) = &case.primer {
        run_primer(emu, p, case);
    }
    let pre = pre_image(case);
    // --- set up the emulator
    for (&a, &v) in pre.map.iter() {
        emu.set_byte(a, v);
    }
    emu.set_bus_cfg(&case.bus);
    emu.cpu.er = case.er;
    emu.set_ccr(case.ccr);
    emu.set_pc(case.pc);
    let _ = emu.drain_msgs();
    emu.clear_write_log();
    // --- reference
    let pure = run_ref(case, &pre, &[]);
    // the loader's record of `___exit` is consulted by the run loop between instructions and by nothing else: what an
    // instruction does must not depend on it. It is set to values that coincide with this very case - where the
    // instruction is expected to go, what it accesses, a register's contents, its own address - or to zero.
    {
        let h = case.pc.wrapping_mul(0x9e37_79b9) ^ case.er[0].rotate_left(7) ^ (case.ccr as u32) << 13 ^ case.er[7];
        let h = h ^ (h >> 15);
        emu.cpu.exit_addr = match h % 8 {
            0 | 1 => pure.pc & 0xff_ffff,
            2 => pure.step.accesses.first().map(|a| a.addr).unwrap_or(case.pc) & 0xff_ffff,
            3 => case.er[((h >> 8) % 8) as usize] & 0xff_ffff,
            4 => case.pc & 0xff_ffff,
            5 => pure.pc,
            _ => 0,
        };
        // likewise the time base (the run loop's state sum and the copy the bus stamps on port messages): an
        // instruction's effect and charge do not depend on how long the machine has been running - zero, just below
        // 2^32, around a sync threshold, anything
        let t: u64 = match (h >> 4) % 4 {
            0 => 0,
            1 => 0xffff_ffff - ((h >> 8) % 64) as u64,
            2 => 1_999_990 + ((h >> 8) % 20) as u64,
            _ => (h as u64) << 13,
        };
        emu.cpu.bus.cpu_state_sum = t as usize;
        crate::cpu::verif_hooks::set_state_sum(&mut emu.cpu, t as usize);
    }
    // --- emulator
    let result = match case.irq {
        Some(v) => {
            crate::cpu::verif_hooks::request_interrupt(&mut emu.cpu, v);
            emu.try_interrupt()
        }
        None => emu.step(),
    };
    let obs = Observed { result, er: emu.cpu.er, ccr: emu.ccr(), pc: emu.pc(), msgs: emu.drain_msgs() };

    // --- observed memory diff
    let mut addrs: Vec<u32> = Vec::new();
    addrs.extend(pre.map.keys().copied());
    let mut collect = |r: &RefRun| {
        let mut v: Vec<u32> = r.overlay.keys().copied().collect();
        for acc in &r.step.accesses {
            v.push(acc.addr);
            for k in 8..24 {
                v.push(acc.addr ^ (1 << k));
            }
        }
        v
    };
    addrs.extend(collect(&pure));
    for i in 0..8 {
        addrs.push(case.er[i]);
        addrs.push(obs.er[i]);
    }
    for &(lo, hi, _) in rx::REGIONS.iter() {
        addrs.push(lo);
        addrs.push(hi);
    }
    let mut quirk_runs: Vec<(Vec<Quirk>, RefRun)> = Vec::new();
    let windows = merge_windows(addrs.iter().map(|a| win(*a)).collect());
    let d_emu = emu.diff(&windows, asp.full_dram);

    let skip = match &pure.step.outcome {
        Outcome::Unspecified(w) => Some(w.to_string()),
        Outcome::FetchFault => Some("instruction fetch outside mapped memory".to_string()),
        _ => None,
    };
    let mut verdict = if let (Outcome::FetchFault, true, EmuResult::Ok(_)) = (&pure.step.outcome, asp.state, &obs.result) {
        // the effects of an instruction that cannot be fetched completely are not constrained, its
        // outcome is: an error (C15)
        Verdict::Fail("instruction fetch outside mapped memory must be an error, the step succeeded".to_string())
    } else if let Some(w) = skip {
        Verdict::Skip(w)
    } else {
        match compare(case, &pre, &pure, &obs, &d_emu, asp) {
            None => Verdict::Pass,
            Some(why) => {
                // try the open findings' quirks
                let mut v = Verdict::Fail(why);
                if !open_quirks.is_empty() {
                    let all = run_ref(case, &pre, open_quirks);
                    let fired: Vec<Quirk> = {
                        let mut f = all.step.quirks_fired.clone();
                        f.sort();
                        f.dedup();
                        f
                    };
                    if !fired.is_empty() {
                        let n = fired.len();
                        for mask in 1u32..(1 << n) {
                            let subset: Vec<Quirk> = (0..n).filter(|i| mask & (1 << i) != 0).map(|i| fired[i]).collect();
                            let rr = run_ref(case, &pre, &subset);
                            // widen the windows for this candidate
                            let extra = merge_windows(
                                rr.overlay.keys().map(|a| win(*a)).chain(rr.step.accesses.iter().map(|a| win(a.addr))).chain(windows.iter().copied()).collect(),
                            );
                            let d2 = emu.diff(&extra, asp.full_dram);
                            if compare(case, &pre, &rr, &obs, &d2, asp).is_none() {
                                v = Verdict::Known(subset.clone());
                                quirk_runs.push((subset, rr));
                                break;
                            }
                        }
                    }
                }
                v
            }
        }
    };
    // a panic is never acceptable in a state check, whatever the reference says
    if let (EmuResult::Panic(p), true) = (&obs.result, asp.state) {
        if !matches!(verdict, Verdict::Fail(_)) && !matches!(pure.step.outcome, Outcome::FetchFault) {
            verdict = Verdict::Fail(format!("emulator panicked: {}", p));
        }
    }

    // --- restore
    let touched_periph = pure.overlay.keys().chain(d_emu.keys()).any(|a| is_peripheral_reg(*a))
        || quirk_runs.iter().any(|(_, r)| r.overlay.keys().any(|a| is_peripheral_reg(*a)));
    emu.restore(pre.map.keys());
    emu.restore(d_emu.keys());
    if matches!(obs.result, EmuResult::Panic(_)) || touched_periph || emu.dirty_hidden {
        // every bus write of this step is in the log: undo them all, then reset the peripherals in place
        let log: Vec<u32> = emu.cpu.bus.verif_write_log.clone();
        emu.restore(log.iter());
        emu.soft_reset();
    }

    Judged {
        verdict,
        step: pure.step,
        emu: obs.result,
        ref_er: pure.er,
        ref_ccr: pure.ccr,
        ref_pc: pure.pc,
        emu_er: obs.er,
        emu_ccr: obs.ccr,
        emu_pc: obs.pc,
        msgs: obs.msgs,
        mem_diff: d_emu,
    }
}
