//! Run context, deterministic sharding over worker threads, proptest driver, verdict reporting.

use super::emu::{Baseline, Emu};
use super::stats::*;
use super::stepcase::*;
use crate::refmodel::exec::Quirk;
use proptest::strategy::{Strategy, ValueTree};
use proptest::test_runner::{Config, RngAlgorithm, TestCaseError, TestError, TestRng, TestRunner};
use serde_json::{json, Map, Value};
use std::cell::{Cell, RefCell};
use std::sync::atomic::{AtomicUsize, Ordering};
use std::sync::{Arc, Mutex};
use std::time::Instant;

#[derive(Clone, Copy, PartialEq, Eq, Debug)]
pub enum Tier {
    Quick,
    Thorough,
}
impl Tier {
    pub fn name(self) -> &'static str {
        match self {
            Tier::Quick => "quick",
            Tier::Thorough => "thorough",
        }
    }
    /// pick by tier
    pub fn pick<T>(self, quick: T, thorough: T) -> T {
        match self {
            Tier::Quick => quick,
            Tier::Thorough => thorough,
        }
    }
}

pub struct Ctx {
    pub tier: Tier,
    pub seed: u64,
    pub threads: usize,
    pub findings: Findings,
    /// collect every distinct failure instead of stopping and shrinking (development aid)
    pub survey: bool,
    pub replay: Option<Value>,
    pub start: Instant,
    pub base: Arc<Baseline>,
    /// build profile this binary was compiled with ("release" / "checked")
    pub profile: &'static str,
}

pub fn profile_name() -> &'static str {
    if cfg!(debug_assertions) {
        "checked"
    } else {
        "release"
    }
}

pub fn mix(a: u64, b: u64) -> u64 {
    let mut x = a ^ b.wrapping_mul(0x9E37_79B9_7F4A_7C15);
    x ^= x >> 30;
    x = x.wrapping_mul(0xBF58_476D_1CE4_E5B9);
    x ^= x >> 27;
    x = x.wrapping_mul(0x94D0_49BB_1331_11EB);
    x ^ (x >> 31)
}

/// Run `n_shards` deterministic shards on `ctx.threads` threads; results are returned in shard order,
/// so the merged outcome does not depend on thread timing.
pub fn par_shards<F>(ctx: &Ctx, n_shards: usize, f: F) -> Stats
where
    F: Fn(usize) -> Stats + Sync,
{
    let next = AtomicUsize::new(0);
    let results: Mutex<Vec<Option<Stats>>> = Mutex::new((0..n_shards).map(|_| None).collect());
    std::thread::scope(|sc| {
        for _ in 0..ctx.threads.min(n_shards).max(1) {
            sc.spawn(|| loop {
                let i = next.fetch_add(1, Ordering::SeqCst);
                if i >= n_shards {
                    break;
                }
                let s = f(i);
                results.lock().unwrap()[i] = Some(s);
            });
        }
    });
    let mut total = Stats::new();
    for s in results.into_inner().unwrap().into_iter().flatten() {
        total.merge(s);
    }
    total
}

thread_local! {
    /// shrink budget of the next runners created on this thread (expensive checks lower it)
    pub static SHRINK_ITERS: Cell<u32> = Cell::new(4000);
}
pub fn set_shrink_iters(n: u32) {
    SHRINK_ITERS.with(|c| c.set(n));
}

pub fn proptest_runner(seed: u64, cases: u32) -> TestRunner {
    let mut cfg = Config::default();
    cfg.cases = cases;
    cfg.failure_persistence = None;
    cfg.max_shrink_iters = SHRINK_ITERS.with(|c| c.get());
    cfg.max_global_rejects = 1_000_000;
    cfg.max_local_rejects = 1_000_000;
    cfg.verbose = 0;
    let mut bytes = [0u8; 32];
    for i in 0..4 {
        bytes[8 * i..8 * i + 8].copy_from_slice(&mix(seed, i as u64 + 1).to_le_bytes());
    }
    TestRunner::new_with_rng(cfg, TestRng::from_seed(RngAlgorithm::ChaCha, &bytes))
}

/// Drive `strat` for `cases` cases through `f`. `f` returns Err(signature) on a violation; the
/// minimal (shrunk) failing value is returned.
pub fn run_prop<S, F>(seed: u64, cases: u32, strat: &S, f: F) -> Option<(S::Value, String)>
where
    S: Strategy,
    S::Value: Clone + std::fmt::Debug,
    F: Fn(&S::Value, bool) -> Result<(), String>,
{
    let mut runner = proptest_runner(seed, cases);
    let failed = Cell::new(false);
    let res = runner.run(strat, |v| {
        // after the first failure the closure is re-run for shrinking: tell it not to count
        let shrinking = failed.get();
        match f(&v, shrinking) {
            Ok(()) => Ok(()),
            Err(sig) => {
                failed.set(true);
                Err(TestCaseError::fail(sig))
            }
        }
    });
    match res {
        Ok(()) => None,
        Err(TestError::Fail(reason, v)) => Some((v, reason.message().to_string())),
        Err(TestError::Abort(reason)) => {
            eprintln!("proptest aborted: {}", reason.message());
            None
        }
    }
}

/// generate one value from a strategy with a given runner (for hybrid enumerate x random loops)
pub fn sample<S: Strategy>(runner: &mut TestRunner, strat: &S) -> S::Value {
    strat.new_tree(runner).expect("strategy").current()
}

pub fn quirk_sig(q: Quirk) -> String {
    format!("quirk:{:?}", q)
}

/// the quirks of the findings that are open for `property`
pub fn open_quirks(ctx: &Ctx, property: &str) -> Vec<Quirk> {
    crate::refmodel::exec::ALL_QUIRKS
        .iter()
        .copied()
        .filter(|q| ctx.findings.is_open(property, &quirk_sig(*q)))
        .collect()
}

pub fn fail_field(detail: &str) -> String {
    let head = detail.split(|c: char| c == ':' || c == '[').next().unwrap_or("").trim();
    let head = if head.starts_with("ER") { "ER" } else { head };
    head.chars().take(40).collect()
}

pub struct StepEval<'a> {
    pub ctx: &'a Ctx,
    pub property: &'a str,
    pub aspects: Aspects,
    pub quirks: Vec<Quirk>,
    /// accept (as a pass, with a class) cases that match a quirk which is an open finding of
    /// *another* property - for checks whose question is not the quirk's subject (C07, C20)
    pub foreign_quirks_ok: bool,
}

impl<'a> StepEval<'a> {
    pub fn new(ctx: &'a Ctx, property: &'a str, aspects: Aspects) -> Self {
        let quirks = open_quirks(ctx, property);
        StepEval { ctx, property, aspects, quirks, foreign_quirks_ok: false }
    }
    /// all quirks that are open findings of any property
    pub fn new_all_quirks(ctx: &'a Ctx, property: &'a str, aspects: Aspects) -> Self {
        let quirks = crate::refmodel::exec::ALL_QUIRKS
            .iter()
            .copied()
            .filter(|q| ctx.findings.all.iter().any(|f| f.status == "open" && f.signature == quirk_sig(*q)))
            .collect();
        StepEval { ctx, property, aspects, quirks, foreign_quirks_ok: true }
    }

    /// Judge one case, update `stats`, call `classify` for executed cases.
    /// Returns Err(signature) for a violation (unless survey mode).
    pub fn eval(
        &self,
        emu: &mut Emu,
        stats: &mut Stats,
        case: &StepCase,
        count: bool,
        classify: &mut dyn FnMut(&StepCase, &Judged, &mut Stats),
    ) -> Result<(), String> {
        let j = judge(emu, case, &self.aspects, &self.quirks);
        match &j.verdict {
            Verdict::Pass => {
                if count {
                    stats.evaluations += 1;
                    classify(case, &j, stats);
                }
                Ok(())
            }
            Verdict::Known(qs) => {
                if count {
                    stats.evaluations += 1;
                    for q in qs {
                        if self.ctx.findings.is_open(self.property, &quirk_sig(*q)) {
                            stats.known_hit(&quirk_sig(*q), || json!(case.brief()));
                        } else {
                            stats.class(&format!("matches open finding of another property: {:?}", q));
                        }
                    }
                    classify(case, &j, stats);
                }
                Ok(())
            }
            Verdict::Skip(why) => {
                if count {
                    stats.skipped += 1;
                    stats.class(&format!("skipped: {}", why));
                }
                Ok(())
            }
            Verdict::Fail(why) => {
                let form = match &j.step.decoded.class {
                    crate::refmodel::insn::Class::Impl(i) => i.form(),
                    _ if case.irq.is_some() => "interrupt acceptance".to_string(),
                    crate::refmodel::insn::Class::Unimpl(m) => format!("unimplemented {}", m),
                    _ => "undefined".to_string(),
                };
                let signature = format!("{} | {}", form, fail_field(why));
                let f = Failure {
                    signature: signature.clone(),
                    detail: format!("{} ; emulator returned {:?}", why, j.emu),
                    case: json!({"kind": "step", "aspects": aspects_name(&self.aspects), "step": case.to_json(), "brief": case.brief()}),
                };
                if self.ctx.survey {
                    if count {
                        stats.evaluations += 1;
                        stats.survey_fail(f);
                    }
                    Ok(())
                } else {
                    if count {
                        stats.evaluations += 1;
                    }
                    stats.fail(f);
                    Err(signature)
                }
            }
        }
    }
}

pub fn aspects_name(a: &Aspects) -> &'static str {
    if a.charge && !a.state {
        "charge"
    } else if a.events {
        "state+events"
    } else {
        "state"
    }
}

/// One worker's bundle: emulator + stats, usable from `Fn` closures.
pub struct Worker {
    pub emu: RefCell<Emu>,
    pub stats: RefCell<Stats>,
}
impl Worker {
    pub fn new(ctx: &Ctx) -> Worker {
        Worker { emu: RefCell::new(Emu::new(&ctx.base)), stats: RefCell::new(Stats::new()) }
    }
}

/// Print the verdict lines, write the evidence, return the process exit code.
pub fn finish(ctx: &Ctx, property: &str, mut stats: Stats, rule: &str, assumptions: Vec<String>, extra: Map<String, Value>) -> i32 {
    let mut violations: Vec<Failure> = Vec::new();
    // failures whose signature is listed as an open finding for this property are known findings
    for f in std::mem::take(&mut stats.failures) {
        if ctx.findings.is_open(property, &f.signature) {
            stats.known_hit(&f.signature.clone(), || f.case.clone());
        } else {
            violations.push(f);
        }
    }
    for (sig, (n, _)) in &stats.known {
        println!("KNOWN-FINDING: property={} {} [{} cases; {}]", property, ctx.findings.what(property, sig), n, sig);
    }
    let stale: Vec<String> = ctx
        .findings
        .open_for(property)
        .iter()
        .filter(|f| !stats.known.contains_key(&f.signature))
        .map(|f| f.signature.clone())
        .collect();
    let mut extra = extra;
    extra.insert("stale_findings".into(), json!(stale));
    extra.insert("profile".into(), json!(ctx.profile));
    if ctx.survey {
        println!("--- survey: {} distinct failure signatures", stats.survey.len());
        for (sig, (n, fs)) in &stats.survey {
            println!("{:>9}  {}", n, sig);
            for f in fs.iter().take(1) {
                println!("           {}", f.detail);
                println!("           {}", f.case.get("brief").and_then(|b| b.as_str()).unwrap_or(""));
            }
        }
    }
    let mut seen = std::collections::BTreeSet::new();
    let mut code = 0;
    for f in &violations {
        if !seen.insert(f.signature.clone()) {
            continue;
        }
        let path = write_replay(property, f);
        println!("VIOLATION property={} replay={}", property, path.display());
        println!("  what: {}", f.signature);
        println!("  detail: {}", f.detail);
        code = 1;
    }
    let wall = ctx.start.elapsed().as_secs_f64();
    extra.insert("emulator_panics_caught".into(), json!(super::emu::PANICS.load(std::sync::atomic::Ordering::Relaxed)));
    extra.insert("emulator_rebuilds".into(), json!(super::emu::REBUILDS.load(std::sync::atomic::Ordering::Relaxed)));
    println!(
        "{} {}: {} evaluations, {} distinct non-trivial, {} skipped (unconstrained), {} known-finding cases, {} violations, {:.1}s [{}]",
        property,
        ctx.tier.name(),
        stats.evaluations,
        stats.nontrivial_keys.len(),
        stats.skipped,
        stats.known.values().map(|v| v.0).sum::<u64>(),
        seen.len(),
        wall,
        ctx.profile
    );
    write_evidence(
        &stats,
        EvidenceMeta { property, tier: ctx.tier.name(), seed: ctx.seed, rule, assumptions, wall_s: wall, violations: seen.len() as u64, extra },
    );
    code
}
