//! Run context, deterministic sharding over worker threads, proptest driver, verdict reporting.

use super::emu::{Baseline, Emu};
use super::stats::*;
use super::stepcase::*;
use crate::refmodel::exec::Quirk;
use proptest::strategy::{Strategy, ValueTree};
use proptest::test_runner::{Config, RngAlgorithm, TestCaseError, TestError, TestRng, TestRunner};
use serde_json::{json, Map, Value};
use std::cell::{Cell, RefCell};
use std::sync::atomic::{AtomicUsize, Ordering};
use std::sync::{Arc, Mutex};
use std::time::Instant;

#[derive(Clone, Copy, PartialEq, Eq, Debug)]
pub enum Tier {
    Quick,
    Thorough,
}
impl Tier {
    pub fn name(self) -> &'static str {
        match self {
            Tier::Quick => "quick",
            Tier::Thorough => "thorough",
        }
    }
    /// pick by tier
    pub fn pick<T>(self, quick: T, thorough: T) -> T {
        match self {
            Tier::Quick => quick,
            Tier::Thorough => thorough,
        }
    }
}

pub struct Ctx {
    pub tier: Tier,
    pub seed: u64,
    pub threads: usize,
    pub findings: Findings,
    /// collect every distinct failure instead of stopping and shrinking (development aid)
    pub survey: bool,
    pub replay: Option<Value>,
    pub start: Instant,
    pub base: Arc<Baseline>,
    /// build profile this binary was compiled with ("release" / "checked")
    pub profile: &'static str,
}

pub fn profile_name() -> &'static str {
    if cfg!(debug_assertions) {
        "checked"
    } else {
        "release"
    }
}

pub fn mix(a: u64, b: u64) -> u64 {
    let mut x = a ^ b.wrapping_mul(0x9E37_79B9_7F4A_7C15);
    x ^= x >> 30;
    x = x.wrapping_mul(0xBF58_476D_1CE4_E5B9);
    x ^= x >> 27;
    x = x.wrapping_mul(0x94D0_49BB_1331_11EB);
    x ^ (x >> 31)
}

/// Run `n_shards` deterministic shards on `ctx.threads` threads; results are returned in shard order,
/// so the merged outcome does not depend on thread timing.
pub fn par_shards<F>(ctx: &Ctx, n_shards: usize, f: F) -> Stats
where
    F: Fn(usize) -> Stats + Sync,
{
    let next = AtomicUsize::new(0);
    let results: Mutex<Vec<Option<Stats>>> = Mutex::new((0..n_shards).map(|_| None).collect());
    std::thread::scope(|sc| {
        for _ in 0..ctx.threads.min(n_shards).max(1) {
            sc.spawn(|| loop {
                let i = next.fetch_add(1, Ordering::SeqCst);
                if i >= n_shards {
                    break;
                }
                let s = f(i);
                results.lock().unwrap()[i] = Some(s);
            });
        }
    });
    let mut total = Stats::new();
    for s in results.into_inner().unwrap().into_iter().flatten() {
        total.merge(s);
    }
    total
}

thread_local! {
    /// shrink budget of the next runners created on this thread (expensive checks lower it)
    pub static SHRINK_ITERS: Cell<u32> = Cell::new(4000);
}
pub fn set_shrink_iters(n: u32) {
    SHRINK_ITERS.with(|c| c.set(n));
}
thread_local! {
    /// wall-clock bound (ms, 0 = none) on the shrinking of one failure; never on the search itself
    pub static SHRINK_TIME_MS: Cell<u32> = Cell::new(0);
}
pub fn set_shrink_time_ms(n: u32) {
    SHRINK_TIME_MS.with(|c| c.set(n));
}

pub fn proptest_runner(seed: u64, cases: u32) -> TestRunner {
    let mut cfg = Config::default();
    cfg.cases = cases;
    cfg.failure_persistence = None;
    cfg.max_shrink_iters = SHRINK_ITERS.with(|c| c.get());
    cfg.max_shrink_time = SHRINK_TIME_MS.with(|c| c.get());
    cfg.max_global_rejects = 1_000_000;
    cfg.max_local_rejects = 1_000_000;
    cfg.verbose = 0;
    let mut bytes = [0u8; 32];
    for i in 0..4 {
        bytes[8 * i..8 * i + 8].copy_from_slice(&mix(seed, i as u64 + 1).to_le_bytes());
    }
    TestRunner::new_with_rng(cfg, TestRng::from_seed(RngAlgorithm::ChaCha, &bytes))
}

/// Drive `strat` for `cases` cases through `f`. `f` returns Err(signature) on a violation; the
/// minimal (shrunk) failing value is returned.
pub fn run_prop<S, F>(seed: u64, cases: u32, strat: &S, f: F) -> Option<(S::Value, String)>
where
    S: Strategy,
    S::Value: Clone + std::fmt::Debug,
    F: Fn(&S::Value, bool) -> Result<(), String>,
{
    let mut runner = proptest_runner(seed, cases);
    let failed = Cell::new(false);
    let res = runner.run(strat, |v| {
        // after the first failure the closure is re-run for shrinking: tell it not to count
        let shrinking = failed.get();
        if !shrinking {
            // the log level is part of the environment and varies with the case's position in the sequence; while
            // shrinking it stays what it was for the failing case
            super::logctl::next_case();
        }
        match f(&v, shrinking) {
            Ok(()) => Ok(()),
            Err(sig) => {
                failed.set(true);
                Err(TestCaseError::fail(sig))
            }
        }
    });
    match res {
        Ok(()) => None,
        Err(TestError::Fail(reason, v)) => {
            if !failed.get() {
                // the closure never reported a failure: proptest caught a panic of the harness itself.
                // That is a defect of the machinery, never a verdict about the code under test.
                eprintln!("HARNESS ERROR: the check's own code panicked: {} (case {:?})", reason.message(), v);
                std::process::exit(2);
            }
            Some((v, reason.message().to_string()))
        }
        Err(TestError::Abort(reason)) => {
            eprintln!("HARNESS ERROR: proptest aborted the run: {}", reason.message());
            std::process::exit(2)
        }
    }
}

/// generate one value from a strategy with a given runner (for hybrid enumerate x random loops)
pub fn sample<S: Strategy>(runner: &mut TestRunner, strat: &S) -> S::Value {
    super::logctl::next_case();
    strat.new_tree(runner).expect("strategy").current()
}

pub fn quirk_sig(q: Quirk) -> String {
    format!("quirk:{:?}", q)
}

/// the quirks of the findings that are open for `property`
pub fn open_quirks(ctx: &Ctx, property: &str) -> Vec<Quirk> {
    crate::refmodel::exec::ALL_QUIRKS
        .iter()
        .copied()
        .filter(|q| ctx.findings.is_open(property, &quirk_sig(*q)))
        .collect()
}

pub fn fail_field(detail: &str) -> String {
    let head = detail.split(|c: char| c == ':' || c == '[').next().unwrap_or("").trim();
    let head = if head.starts_with("ER") { "ER" } else { head };
    head.chars().take(40).collect()
}

pub struct StepEval<'a> {
    pub ctx: &'a Ctx,
    pub property: &'a str,
    pub aspects: Aspects,
    pub quirks: Vec<Quirk>,
    /// accept (as a pass, with a class) cases that match a quirk which is an open finding of
    /// *another* property - for checks whose question is not the quirk's subject (C07, C20)
    pub foreign_quirks_ok: bool,
}

impl<'a> StepEval<'a> {
    pub fn new(ctx: &'a Ctx, property: &'a str, aspects: Aspects) -> Self {
        let quirks = open_quirks(ctx, property);
        StepEval { ctx, property, aspects, quirks, foreign_quirks_ok: false }
    }
    /// all quirks that are open findings of any property
    pub fn new_all_quirks(ctx: &'a Ctx, property: &'a str, aspects: Aspects) -> Self {
        let quirks = crate::refmodel::exec::ALL_QUIRKS
            .iter()
            .copied()
            .filter(|q| ctx.findings.all.iter().any(|f| f.status == "open" && f.signature == quirk_sig(*q)))
            .collect();
        StepEval { ctx, property, aspects, quirks, foreign_quirks_ok: true }
    }

    /// Judge one case, update `stats`, call `classify` for executed cases.
    /// Returns Err(signature) for a violation (unless survey mode).
    pub fn eval(
        &self,
        emu: &mut Emu,
        stats: &mut Stats,
        case: &StepCase,
        count: bool,
        classify: &mut dyn FnMut(&StepCase, &Judged, &mut Stats),
    ) -> Result<(), String> {
        let j = judge(emu, case, &self.aspects, &self.quirks);
        match &j.verdict {
            Verdict::Pass => {
                if count {
                    stats.evaluations += 1;
                    classify(case, &j, stats);
                }
                Ok(())
            }
            Verdict::Known(qs) => {
                if count {
                    stats.evaluations += 1;
                    for q in qs {
                        if self.ctx.findings.is_open(self.property, &quirk_sig(*q)) {
                            stats.known_hit(&quirk_sig(*q), || json!(case.brief()));
                        } else {
                            stats.class(&format!("matches open finding of another property: {:?}", q));
                        }
                    }
                    classify(case, &j, stats);
                }
                Ok(())
            }
            Verdict::Skip(why) => {
                if count {
                    stats.skipped += 1;
                    stats.class(&format!("skipped: {}", why));
                }
                Ok(())
            }
            Verdict::Fail(why) => {
                let form = match &j.step.decoded.class {
                    crate::refmodel::insn::Class::Impl(i) => i.form(),
                    _ if case.irq.is_some() => "interrupt acceptance".to_string(),
                    crate::refmodel::insn::Class::Unimpl(m) => format!("unimplemented {}", m),
                    _ => "undefined".to_string(),
                };
                let signature = format!("{} | {}", form, fail_field(why));
                let f = Failure {
                    signature: signature.clone(),
                    detail: format!("{} ; emulator returned {:?}", why, j.emu),
                    case: json!({"kind": "step", "aspects": aspects_name(&self.aspects), "step": case.to_json(), "brief": case.brief()}),
                };
                if self.ctx.survey {
                    if count {
                        stats.evaluations += 1;
                        stats.survey_fail(f);
                    }
                    Ok(())
                } else {
                    if count {
                        stats.evaluations += 1;
                    }
                    stats.fail(f);
                    Err(signature)
                }
            }
        }
    }
}

/// guest-controlled text may contain control characters: never print it raw
pub fn printable(s: &str, max: usize) -> String {
    s.chars().take(max).flat_map(|c| if c.is_control() { c.escape_default().collect::<Vec<char>>() } else { vec![c] }).collect()
}

pub fn aspects_name(a: &Aspects) -> &'static str {
    if a.charge && !a.state {
        "charge"
    } else if a.events {
        "state+events"
    } else {
        "state"
    }
}

/// One worker's bundle: emulator + stats, usable from `Fn` closures.
pub struct Worker {
    pub emu: RefCell<Emu>,
    pub stats: RefCell<Stats>,
}
impl Worker {
    pub fn new(ctx: &Ctx) -> Worker {
        Worker { emu: RefCell::new(Emu::new(&ctx.base)), stats: RefCell::new(Stats::new()) }
    }
}

/// Print the verdict lines, write the evidence, return the process exit code.
/// what every generated step case / program of the instruction-level checks also varies
const STEP_COMMON: &str = " Common to all step cases and programs of this check: the bus controller is programmed through Bus::write and only the registers that change are rewritten (consecutive cases on one emulator differ by single-register transitions now and then); one case in three carries 'environment noise' (one or two bytes in on-chip I/O registers that no property gives a meaning to, set through the write path); one step case in 24 starts at an odd PC (oracle: same result as at pc & !1, PC compared without bit 0, or an error; control flow at an odd PC unconstrained); the emulator instance is reused across cases, so state that leaks from one case into the next shows up as a mismatch.";

pub fn finish(ctx: &Ctx, property: &str, mut stats: Stats, rule: &str, assumptions: Vec<String>, extra: Map<String, Value>) -> i32 {
    let rule_owned = if ["C01", "C02", "C03", "C04", "C05", "C06", "C07", "C08", "C14", "C20"].contains(&property) { format!("{}{}", rule, STEP_COMMON) } else { rule.to_string() };
    let rule: &str = &rule_owned;
    // the per-process scratch directory for ELF files (empty by now: every file is removed after use)
    let _ = std::fs::remove_dir(std::env::temp_dir().join(format!("h8verif-{}", std::process::id())));
    let mut violations: Vec<Failure> = Vec::new();
    // failures whose signature is listed as an open finding for this property are known findings
    for f in std::mem::take(&mut stats.failures) {
        if ctx.findings.is_open(property, &f.signature) {
            stats.known_hit(&f.signature.clone(), || f.case.clone());
        } else {
            violations.push(f);
        }
    }
    for (sig, (n, _)) in &stats.known {
        println!("KNOWN-FINDING: property={} {} [{} cases; {}]", property, ctx.findings.what(property, sig), n, sig);
    }
    let stale: Vec<String> = ctx
        .findings
        .open_for(property)
        .iter()
        .filter(|f| !stats.known.contains_key(&f.signature))
        .map(|f| f.signature.clone())
        .collect();
    let mut extra = extra;
    extra.insert("stale_findings".into(), json!(stale));
    extra.insert("profile".into(), json!(ctx.profile));
    if ctx.survey {
        println!("--- survey: {} distinct failure signatures", stats.survey.len());
        for (sig, (n, fs)) in &stats.survey {
            println!("{:>9}  {}", n, sig);
            for f in fs.iter().take(1) {
                println!("           {}", f.detail);
                println!("           {}", f.case.get("brief").and_then(|b| b.as_str()).unwrap_or(""));
            }
        }
    }
    let mut seen = std::collections::BTreeSet::new();
    let mut code = 0;
    for f in &violations {
        if !seen.insert(f.signature.clone()) {
            continue;
        }
        let path = write_replay(property, f);
        println!("VIOLATION property={} replay={}", property, path.display());
        println!("  what: {}", printable(&f.signature, 200));
        println!("  detail: {}", printable(&f.detail, 700));
        code = 1;
    }
    let wall = ctx.start.elapsed().as_secs_f64();
    extra.insert("emulator_panics_caught".into(), json!(super::emu::PANICS.load(std::sync::atomic::Ordering::Relaxed)));
    extra.insert("emulator_rebuilds".into(), json!(super::emu::REBUILDS.load(std::sync::atomic::Ordering::Relaxed)));
    println!(
        "{} {}: {} evaluations, {} distinct non-trivial, {} skipped (unconstrained), {} known-finding cases, {} violations, {:.1}s [{}]",
        property,
        ctx.tier.name(),
        stats.evaluations,
        stats.nontrivial_keys.len(),
        stats.skipped,
        stats.known.values().map(|v| v.0).sum::<u64>(),
        seen.len(),
        wall,
        ctx.profile
    );
    write_evidence(
        &stats,
        EvidenceMeta { property, tier: ctx.tier.name(), seed: ctx.seed, rule, assumptions, wall_s: wall, violations: seen.len() as u64, extra },
    );
    code
}

/// Thorough tier: a bounded coverage-guided campaign (libFuzzer through cargo-fuzz, nightly toolchain) of
/// `target`, `procs` processes x `runs` executions each on fresh corpus directories seeded from
/// /verif/corpus/<target>/. A crash whose stderr carries the target's "PROPERTY VIOLATION:" line (or any
/// other crash) becomes a failure with the crashing input as the replayable case. If the target cannot be
/// built (no nightly toolchain), the campaign is skipped and the evidence says so.
pub fn fuzz_campaign(ctx: &Ctx, target: &str, procs: usize, runs: u64, max_len: u32, stats: &mut Stats) {
    let root = verif_root();
    let fuzz_dir = root.join("harness").join("fuzz");
    let build = std::process::Command::new("cargo").args(["+nightly", "fuzz", "build", target]).current_dir(&fuzz_dir).env("CARGO_NET_OFFLINE", "true").output();
    match build {
        Ok(o) if o.status.success() => {}
        Ok(o) => {
            stats.notes.push(format!("fuzz campaign {} skipped: build failed: {}", target, String::from_utf8_lossy(&o.stderr).lines().last().unwrap_or("")));
            return;
        }
        Err(e) => {
            stats.notes.push(format!("fuzz campaign {} skipped: cargo fuzz not available: {}", target, e));
            return;
        }
    }
    let bin = root.join("target").join("harness").join("x86_64-unknown-linux-gnu").join("release").join(target);
    let seeds = root.join("corpus").join(target);
    let results: Vec<(u64, Option<(String, Vec<u8>)>, Option<String>)> = std::thread::scope(|sc| {
        let handles: Vec<_> = (0..procs)
            .map(|i| {
                let (bin, seeds, root) = (bin.clone(), seeds.clone(), root.clone());
                sc.spawn(move || {
                    let work = std::env::temp_dir().join(format!("h8verif-fuzz-{}-{}-{}", std::process::id(), target, i));
                    let _ = std::fs::remove_dir_all(&work);
                    let _ = std::fs::create_dir_all(work.join("corpus"));
                    let _ = std::fs::create_dir_all(work.join("artifacts"));
                    let mut cmd = std::process::Command::new(&bin);
                    cmd.arg(work.join("corpus"));
                    if seeds.is_dir() {
                        cmd.arg(&seeds);
                    }
                    cmd.arg(format!("-runs={}", runs))
                        .arg(format!("-seed={}", (mix(ctx.seed, 0xf022 + i as u64) % 0x7fff_fffe) + 1))
                        .arg(format!("-max_len={}", max_len))
                        .arg("-len_control=0")
                        .arg("-print_final_stats=1")
                        .arg("-timeout=60")
                        .arg("-rss_limit_mb=6000")
                        .arg("-malloc_limit_mb=4000")
                        .arg(format!("-artifact_prefix={}/", work.join("artifacts").display()))
                        .env("H8VERIF_ROOT", &root)
                        .env("RUST_LIB_BACKTRACE", "0")
                        .current_dir(&work);
                    let out = cmd.output();
                    let mut execs = 0u64;
                    let mut crash = None;
                    let mut inconclusive: Option<String> = None;
                    if let Ok(o) = out {
                        let err = String::from_utf8_lossy(&o.stderr).to_string();
                        for l in err.lines() {
                            if let Some(n) = l.strip_prefix("stat::number_of_executed_units:") {
                                execs = n.trim().parse().unwrap_or(0);
                            }
                        }
                        // resource limits of the fuzzing engine (memory, per-input time, its own I/O) are not verdicts
                        let resource = err.contains("out-of-memory") || err.contains("ERROR: libFuzzer: timeout") || err.contains("IO failure on output stream");
                        let violation_line = err.lines().any(|l| l.contains("PROPERTY VIOLATION:"));
                        if !o.status.success() && resource && !violation_line {
                            inconclusive = Some(err.lines().find(|l| l.contains("ERROR")).unwrap_or("resource limit").to_string());
                        } else if !o.status.success() {
                            let msg = err.lines().find(|l| l.contains("PROPERTY VIOLATION:")).map(|l| l.to_string()).unwrap_or_else(|| err.lines().rev().find(|l| l.contains("ERROR") || l.contains("panicked")).unwrap_or("fuzz target crashed").to_string());
                            let input = std::fs::read_dir(work.join("artifacts")).ok().and_then(|rd| rd.flatten().next()).and_then(|f| std::fs::read(f.path()).ok()).unwrap_or_default();
                            crash = Some((msg, input));
                        }
                    }
                    let _ = std::fs::remove_dir_all(&work);
                    (execs, crash, inconclusive)
                })
            })
            .collect();
        handles.into_iter().map(|h| h.join().unwrap_or((0, None, None))).collect()
    });
    let mut total = 0;
    for (execs, crash, inconclusive) in results {
        total += execs;
        if let Some(why) = inconclusive {
            stats.notes.push(format!("fuzz campaign {}: one process stopped at a resource limit of the fuzzing engine (inconclusive for its remainder, not a verdict): {}", target, why.chars().take(160).collect::<String>()));
        }
        if let Some((msg, input)) = crash {
            stats.fail(Failure {
                signature: format!("fuzz {} | {}", target, fail_field(&msg.replace("PROPERTY VIOLATION:", "").replace(|c: char| c.is_ascii_digit(), ""))),
                detail: msg.chars().take(600).collect(),
                case: json!({"kind": "fuzz", "target": target, "input": hex(&input)}),
            });
        }
    }
    stats.evaluations += total;
    stats.class_n(&format!("libFuzzer executions of {}", target), total);
}

/// `--replay` of a case saved by `fuzz_campaign`: run the target's entry point directly (no libFuzzer)
pub fn replay_fuzz(property: &str, v: &Value) -> Option<i32> {
    let case = v.get("case").unwrap_or(v);
    if case.get("kind").and_then(|k| k.as_str()) != Some("fuzz") {
        return None;
    }
    let target = case.get("target")?.as_str()?;
    let input = unhex(case.get("input")?.as_str()?)?;
    let r = match target {
        "fuzz_step" => crate::fuzzapi::step(&input),
        "fuzz_elf" => crate::fuzzapi::elf(&input),
        "fuzz_timer" => crate::fuzzapi::timer(&input),
        "fuzz_lines" => crate::fuzzapi::lines(&input),
        "fuzz_prog" => crate::fuzzapi::prog(&input),
        _ => return Some(2),
    };
    Some(match r {
        Ok(()) => {
            println!("replay {}: fuzz input passes ({} profile)", property, profile_name());
            0
        }
        Err(m) => {
            let f = Failure { signature: format!("fuzz {}", target), detail: m, case: case.clone() };
            let p = write_replay(property, &f);
            println!("VIOLATION property={} replay={}", property, p.display());
            println!("  detail: {}", f.detail);
            1
        }
    })
}
