//! Driver for the repository's real release binary (built by ./check from the current tree into
//! <verif>/target/repo-bin): the only way to cover src/main.rs (argument parsing, settings, socket set-up,
//! `elf::load(..)` + `run().unwrap()`) and what happens at process exit.
//!
//! Everything here is bounded by deadlines; a deadline hit is `Inconclusive` (exit 2 material), never a verdict.

use std::io::{BufRead, BufReader, Read, Write};
use std::path::PathBuf;
use std::process::{Child, Command, Stdio};
use std::time::{Duration, Instant};

pub fn real_binary() -> Option<PathBuf> {
    let p = PathBuf::from(std::env::var("H8VERIF_REALBIN").ok()?);
    if p.is_file() {
        Some(p)
    } else {
        None
    }
}

#[derive(Debug)]
pub enum RealErr {
    /// the machinery could not do its job (spawn failed, deadline): not a verdict
    Inconclusive(String),
}

pub struct RealOut {
    /// exit code (None = killed by a signal)
    pub status: Option<i32>,
    pub stdout: Vec<u8>,
    pub stderr: String,
    /// lines received over TCP (newline stripped, still escaped), TCP mode only
    pub lines: Vec<String>,
}

fn temp_elf(tag: &str, file: &[u8]) -> Result<PathBuf, RealErr> {
    let dir = std::env::temp_dir().join(format!("h8verif-{}", std::process::id()));
    let _ = std::fs::create_dir_all(&dir);
    let path = dir.join(format!("real-{}.elf", tag));
    std::fs::write(&path, file).map_err(|e| RealErr::Inconclusive(format!("cannot write {}: {}", path.display(), e)))?;
    Ok(path)
}

fn wait_deadline(child: &mut Child, deadline: Instant) -> Result<Option<i32>, RealErr> {
    loop {
        match child.try_wait() {
            Ok(Some(st)) => return Ok(st.code()),
            Ok(None) => {
                if Instant::now() > deadline {
                    let _ = child.kill();
                    let _ = child.wait();
                    return Err(RealErr::Inconclusive("the emulator process did not end before the deadline".into()));
                }
                std::thread::sleep(Duration::from_millis(2));
            }
            Err(e) => return Err(RealErr::Inconclusive(format!("wait: {}", e))),
        }
    }
}

/// `<bin> --elf <file> --args=<args> -m --log off`, stdout captured
pub fn run_stdout(bin: &PathBuf, tag: &str, file: &[u8], args: &str, timeout: Duration) -> Result<RealOut, RealErr> {
    let path = temp_elf(tag, file)?;
    let mut child = Command::new(bin)
        .arg("--elf")
        .arg(&path)
        .arg(format!("--args={}", args))
        .arg("-m")
        .arg("--log")
        // the log goes to stderr; what it says (and whether it says anything) must not change stdout or the status
        .arg(super::logctl::NAMES[super::logctl::current().min(5) as usize])
        .env_remove("RUST_LOG")
        .env("RUST_BACKTRACE", "0")
        .stdin(Stdio::null())
        .stdout(Stdio::piped())
        .stderr(Stdio::piped())
        .spawn()
        .map_err(|e| RealErr::Inconclusive(format!("spawn {}: {}", bin.display(), e)))?;
    let mut so = child.stdout.take().unwrap();
    let mut se = child.stderr.take().unwrap();
    let t1 = std::thread::spawn(move || {
        let mut v = vec![];
        let _ = so.read_to_end(&mut v);
        v
    });
    let t2 = std::thread::spawn(move || {
        let mut v = vec![];
        let _ = se.read_to_end(&mut v);
        String::from_utf8_lossy(&v).to_string()
    });
    let status = wait_deadline(&mut child, Instant::now() + timeout);
    let stdout = t1.join().unwrap_or_default();
    let stderr = t2.join().unwrap_or_default();
    let _ = std::fs::remove_file(&path);
    Ok(RealOut { status: status?, stdout, stderr, lines: vec![] })
}

/// A loopback TCP port reserved for one emulator run, from the moment it is handed out until the lease is dropped.
///
/// How the port is found matters for soundness (a connection that reaches anything but this case's emulator yields
/// observations that say nothing about it):
/// * **No trial listener.** An earlier version tested a candidate with `TcpListener::bind(..)` and closed the
///   listener again. A process that another thread forks at that moment (every real-binary run spawns one) holds a
///   duplicate of the listening socket until it execs, so the "closed" listener lived on for a moment: the emulator
///   started next on that port failed with `Address already in use`, the client's connect was accepted into the
///   stale listener's backlog and reset when the duplicate finally went away - zero lines received. The rig never
///   creates a TCP socket on a leased port now; whether the port is taken is read from /proc/net/tcp.
/// * **Kernel-arbitrated exclusion.** The lease is a UDP socket bound to the same number (UDP and TCP ports are
///   separate name spaces, so it does not get in the emulator's way; std sets no SO_REUSEADDR on it, so a second
///   bind fails). Two threads, or two check processes running side by side, can never hold the same port, and a
///   crashed process leaves nothing behind.
/// * **Outside the range of ephemeral ports** (/proc/sys/net/ipv4/ip_local_port_range): the source ports the kernel
///   gives to the rig's own outgoing connections cannot coincide with a leased port (the emulator's bind would
///   fail), and a connect() that is retried while the emulator is not listening yet cannot connect to itself.
pub struct PortLease {
    pub port: u16,
    _guard: Option<std::net::UdpSocket>,
}

impl PortLease {
    /// keep the port reserved until the process ends (an emulator thread that is left behind may still use it)
    pub fn leak(self) {
        std::mem::forget(self);
    }
}

/// candidate ports: `H8VERIF_PORT_POOL=lo-hi` if set (rig diagnosis), else 10000..=32767 without the kernel's
/// ephemeral range; if that leaves fewer than 2000 ports, everything from 1024 up outside the ephemeral range; if
/// that is still too little (a machine configured to use nearly all ports), 10000..=60000 as it is.
fn port_pool() -> &'static Vec<u16> {
    static POOL: std::sync::OnceLock<Vec<u16>> = std::sync::OnceLock::new();
    POOL.get_or_init(|| {
        if let Some((lo, hi)) = std::env::var("H8VERIF_PORT_POOL").ok().and_then(|v| {
            let (a, b) = v.split_once('-')?;
            Some((a.trim().parse::<u16>().ok()?, b.trim().parse::<u16>().ok()?))
        }) {
            if lo >= 1024 && hi >= lo {
                return (lo..=hi).collect();
            }
        }
        let eph: Option<(u32, u32)> = std::fs::read_to_string("/proc/sys/net/ipv4/ip_local_port_range").ok().and_then(|t| {
            let mut it = t.split_whitespace().map(|x| x.parse::<u32>().ok());
            Some((it.next()??, it.next()??))
        });
        // unknown range: assume Linux's default
        let (elo, ehi) = eph.unwrap_or((32768, 60999));
        let outside = |p: &u16| (*p as u32) < elo || (*p as u32) > ehi;
        let pool: Vec<u16> = (10000u16..=32767).filter(outside).collect();
        if pool.len() >= 2000 {
            return pool;
        }
        let pool: Vec<u16> = (1024u16..=65535).filter(outside).collect();
        if pool.len() >= 2000 {
            return pool;
        }
        (10000u16..=60000).collect()
    })
}

/// local TCP ports that are in use in any state but TIME_WAIT (a listener created with SO_REUSEADDR - Rust's - binds
/// over TIME_WAIT remains), read passively from /proc; None if /proc cannot be read
fn tcp_ports_in_use() -> Option<std::collections::HashSet<u16>> {
    let mut set = std::collections::HashSet::new();
    let v4 = std::fs::read_to_string("/proc/net/tcp").ok()?;
    let v6 = std::fs::read_to_string("/proc/net/tcp6").unwrap_or_default();
    for line in v4.lines().skip(1).chain(v6.lines().skip(1)) {
        let mut f = line.split_whitespace();
        let (Some(_), Some(local), Some(_), Some(state)) = (f.next(), f.next(), f.next(), f.next()) else { continue };
        if state == "06" {
            continue;
        }
        if let Some(p) = local.rsplit(':').next().and_then(|h| u16::from_str_radix(h, 16).ok()) {
            set.insert(p);
        }
    }
    Some(set)
}

/// Reserve a port (see `PortLease`). Candidates are tried in sequence from a process-dependent start, so check
/// processes running side by side rarely even compete for the same number.
pub fn free_port() -> PortLease {
    use std::sync::atomic::{AtomicU32, Ordering};
    static NEXT: AtomicU32 = AtomicU32::new(0);
    let pool = port_pool();
    let start = (std::process::id() as usize).wrapping_mul(7919);
    let mut in_use = tcp_ports_in_use();
    for round in 0..pool.len().max(1) * 2 {
        let k = NEXT.fetch_add(1, Ordering::SeqCst) as usize;
        let p = pool[start.wrapping_add(k) % pool.len()];
        if round > 0 && round % 64 == 0 {
            in_use = tcp_ports_in_use();
        }
        if in_use.as_ref().map_or(false, |s| s.contains(&p)) {
            continue;
        }
        if let Ok(guard) = std::net::UdpSocket::bind(("127.0.0.1", p)) {
            return PortLease { port: p, _guard: Some(guard) };
        }
    }
    // nothing could be reserved (no loopback UDP?): an unreserved number; whoever uses it reports rig failures
    // (cannot connect, the emulator could not bind) as inconclusive
    let k = NEXT.fetch_add(1, Ordering::SeqCst) as usize;
    PortLease { port: pool[start.wrapping_add(k) % pool.len()], _guard: None }
}

/// Did the emulator process end because it could not set up its listening socket (src/main.rs unwraps the result of
/// `connect_socket`, so the process panics: status 101, the OS error on stderr)? Then it never had a connection, and
/// whatever the client observed on that port came from somewhere else: a failure of the rig, not an observation.
fn listen_failed(status: Option<i32>, stderr: &str) -> bool {
    status == Some(101) && stderr.contains("Address already in use (os error 98)")
}

/// outcome of one attempt on one port
enum Attempt<T> {
    Done(T),
    /// the port turned out to be unusable (taken by something outside the rig's control): try another one
    PortTrouble(String),
}

const PORT_ATTEMPTS: usize = 3;

/// Is the connection one end of itself (same address and port on both sides)? TCP allows that when a connect() to a
/// port nobody listens on is given the same number as its source port. Cannot happen outside the ephemeral range;
/// checked because the port pool may have to include it on an unusually configured machine.
pub fn self_connected(s: &std::net::TcpStream) -> bool {
    matches!((s.local_addr(), s.peer_addr()), (Ok(a), Ok(b)) if a == b)
}

/// `<bin> --elf <file> --args=<args> -s -w -p <port> --log off`: connect, wait for `ready`, send `cmd:start`
/// followed by `extra_lines`, collect every line until the connection closes.
pub fn run_tcp(bin: &PathBuf, tag: &str, file: &[u8], args: &str, extra_lines: &[String], timeout: Duration) -> Result<RealOut, RealErr> {
    let mut why = String::new();
    for _ in 0..PORT_ATTEMPTS {
        match run_tcp_once(bin, tag, file, args, extra_lines, timeout)? {
            Attempt::Done(out) => return Ok(out),
            Attempt::PortTrouble(m) => why = m,
        }
    }
    Err(RealErr::Inconclusive(format!("{} ports in a row could not be used; last: {}", PORT_ATTEMPTS, why)))
}

fn run_tcp_once(bin: &PathBuf, tag: &str, file: &[u8], args: &str, extra_lines: &[String], timeout: Duration) -> Result<Attempt<RealOut>, RealErr> {
    let path = temp_elf(tag, file)?;
    // held until the emulator process is gone
    let lease = free_port();
    let port = lease.port;
    let mut child = Command::new(bin)
        .arg("--elf")
        .arg(&path)
        .arg(format!("--args={}", args))
        .arg("-s")
        .arg("-w")
        .arg("-p")
        .arg(port.to_string())
        .arg("--log")
        .arg(super::logctl::NAMES[super::logctl::current().min(5) as usize])
        // every other run also echoes the messages on the console (-m), one in four traces the instructions there
        // (-i): what goes over the socket is the same
        .args(if port % 2 == 1 { vec!["-m"] } else { vec![] })
        .args(if port % 4 >= 2 { vec!["-i"] } else { vec![] })
        .env_remove("RUST_LOG")
        .env("RUST_BACKTRACE", "0")
        .stdin(Stdio::null())
        .stdout(Stdio::null())
        .stderr(Stdio::piped())
        .spawn()
        .map_err(|e| RealErr::Inconclusive(format!("spawn {}: {}", bin.display(), e)))?;
    let deadline = Instant::now() + timeout;
    // the log (stderr) is drained while the run goes on: a talkative level must not fill the pipe and stall the child
    let se_thread = child.stderr.take().map(|mut se| {
        std::thread::spawn(move || {
            let mut v = vec![];
            let _ = se.read_to_end(&mut v);
            String::from_utf8_lossy(&v).to_string()
        })
    });
    let cleanup = |child: &mut Child, path: &PathBuf| {
        let _ = child.kill();
        let _ = child.wait();
        let _ = std::fs::remove_file(path);
    };
    let mut stream = loop {
        match std::net::TcpStream::connect(("127.0.0.1", port)) {
            Ok(s) if self_connected(&s) => {
                cleanup(&mut child, &path);
                return Ok(Attempt::PortTrouble(format!("the connection to port {} is connected to itself", port)));
            }
            Ok(s) => break s,
            Err(e) => {
                let exited = child.try_wait().ok().flatten();
                if Instant::now() > deadline || exited.is_some() {
                    cleanup(&mut child, &path);
                    let stderr = se_thread.and_then(|t| t.join().ok()).unwrap_or_default();
                    if exited.is_some() && listen_failed(exited.and_then(|s| s.code()), &stderr) {
                        return Ok(Attempt::PortTrouble(format!("the emulator could not listen on port {} (address already in use)", port)));
                    }
                    return Err(RealErr::Inconclusive(format!("cannot connect to the emulator on port {}: {}", port, e)));
                }
                std::thread::sleep(Duration::from_millis(2));
            }
        }
    };
    let _ = stream.set_read_timeout(Some(Duration::from_millis(200)));
    let mut reader = BufReader::new(stream.try_clone().map_err(|e| RealErr::Inconclusive(e.to_string()))?);
    let mut lines: Vec<String> = vec![];
    let mut buf: Vec<u8> = vec![];
    let mut started = false;
    loop {
        match reader.read_until(b'\n', &mut buf) {
            Ok(0) => break, // closed
            Ok(_) => {
                if buf.last() == Some(&b'\n') {
                    buf.pop();
                    let l = String::from_utf8_lossy(&buf).to_string();
                    buf.clear();
                    if !started && l == "ready" {
                        started = true;
                        let mut out = b"cmd:start\n".to_vec();
                        for x in extra_lines {
                            out.extend(x.as_bytes());
                            out.push(b'\n');
                        }
                        let _ = stream.write_all(&out);
                        let _ = stream.flush();
                    }
                    lines.push(l);
                }
                // else: partial line (timeout in the middle): keep reading into the same buffer
            }
            Err(e) if e.kind() == std::io::ErrorKind::WouldBlock || e.kind() == std::io::ErrorKind::TimedOut => {
                if Instant::now() > deadline {
                    cleanup(&mut child, &path);
                    return Err(RealErr::Inconclusive("the emulator did not close the connection before the deadline".into()));
                }
            }
            Err(_) => break, // reset by the exiting peer
        }
    }
    if !buf.is_empty() {
        lines.push(format!("{}<unterminated>", String::from_utf8_lossy(&buf)));
    }
    let status = wait_deadline(&mut child, deadline.max(Instant::now() + Duration::from_secs(2)));
    let stderr = se_thread.and_then(|t| t.join().ok()).unwrap_or_default();
    let _ = std::fs::remove_file(&path);
    let status = status?;
    drop(lease);
    if listen_failed(status, &stderr) {
        // the process never accepted a connection: the lines (if any) are somebody else's
        return Ok(Attempt::PortTrouble(format!("the emulator could not listen on port {} (address already in use), yet something accepted the connection", port)));
    }
    Ok(Attempt::Done(RealOut { status, stdout: vec![], stderr, lines }))
}


/// `-s -w` dialog around the start: connect, wait for `ready`, send `pre_lines` (while the emulator still waits for
/// its start), `cmd:start`, `post_lines`; then two sentinel rounds (`u8:<flag>:<nonce>`, each answered by the guest
/// with `ioport:b:<nonce>:`) so that the guest has gone round its loop at least once after the last line; then
/// `cmd:stop`. Returns every line received.
pub fn run_tcp_dialog(bin: &PathBuf, tag: &str, file: &[u8], pre_lines: &[String], post_lines: &[String], flag: u32, timeout: Duration) -> Result<Vec<String>, RealErr> {
    let mut why = String::new();
    for _ in 0..PORT_ATTEMPTS {
        match run_tcp_dialog_once(bin, tag, file, pre_lines, post_lines, flag, timeout)? {
            Attempt::Done(lines) => return Ok(lines),
            Attempt::PortTrouble(m) => why = m,
        }
    }
    Err(RealErr::Inconclusive(format!("{} ports in a row could not be used; last: {}", PORT_ATTEMPTS, why)))
}

fn run_tcp_dialog_once(bin: &PathBuf, tag: &str, file: &[u8], pre_lines: &[String], post_lines: &[String], flag: u32, timeout: Duration) -> Result<Attempt<Vec<String>>, RealErr> {
    let path = temp_elf(tag, file)?;
    // held until the emulator process is gone
    let lease = free_port();
    let port = lease.port;
    let mut child = Command::new(bin)
        .arg("--elf")
        .arg(&path)
        .arg("-s")
        .arg("-w")
        .arg("-p")
        .arg(port.to_string())
        .arg("--log")
        .arg(super::logctl::NAMES[super::logctl::current().min(5) as usize])
        .args(if port % 2 == 1 { vec!["-m"] } else { vec![] })
        .args(if port % 4 >= 2 { vec!["-i"] } else { vec![] })
        .env_remove("RUST_LOG")
        .env("RUST_BACKTRACE", "0")
        .stdin(Stdio::null())
        .stdout(Stdio::null())
        .stderr(Stdio::piped())
        .spawn()
        .map_err(|e| RealErr::Inconclusive(format!("spawn {}: {}", bin.display(), e)))?;
    let deadline = Instant::now() + timeout;
    // the log (stderr) is drained while the run goes on; it tells a port that could not be bound from anything else
    let se_thread = child.stderr.take().map(|mut se| {
        std::thread::spawn(move || {
            let mut v = vec![];
            let _ = se.read_to_end(&mut v);
            String::from_utf8_lossy(&v).to_string()
        })
    });
    let cleanup = |child: &mut Child, path: &PathBuf| {
        let _ = child.kill();
        let _ = child.wait();
        let _ = std::fs::remove_file(path);
    };
    let mut stream = loop {
        match std::net::TcpStream::connect(("127.0.0.1", port)) {
            Ok(s) if self_connected(&s) => {
                cleanup(&mut child, &path);
                return Ok(Attempt::PortTrouble(format!("the connection to port {} is connected to itself", port)));
            }
            Ok(s) => break s,
            Err(e) => {
                let exited = child.try_wait().ok().flatten();
                if Instant::now() > deadline || exited.is_some() {
                    cleanup(&mut child, &path);
                    let stderr = se_thread.and_then(|t| t.join().ok()).unwrap_or_default();
                    if exited.is_some() && listen_failed(exited.and_then(|s| s.code()), &stderr) {
                        return Ok(Attempt::PortTrouble(format!("the emulator could not listen on port {} (address already in use)", port)));
                    }
                    return Err(RealErr::Inconclusive(format!("cannot connect to the emulator on port {}: {}", port, e)));
                }
                std::thread::sleep(Duration::from_millis(2));
            }
        }
    };
    let _ = stream.set_read_timeout(Some(Duration::from_millis(100)));
    let mut lines: Vec<String> = vec![];
    let mut pending: Vec<u8> = vec![];
    let mut buf = [0u8; 4096];
    // stage 0 wait ready, 1 wait nonce 1, 2 wait nonce 2, 3 wait close
    let mut stage = 0;
    let mut closed = false;
    while !closed {
        match stream.read(&mut buf) {
            Ok(0) => closed = true,
            Ok(n) => pending.extend_from_slice(&buf[..n]),
            Err(e) if e.kind() == std::io::ErrorKind::WouldBlock || e.kind() == std::io::ErrorKind::TimedOut => {
                if Instant::now() > deadline {
                    cleanup(&mut child, &path);
                    return Err(RealErr::Inconclusive(format!("dialog stuck in stage {} until the deadline", stage)));
                }
            }
            Err(_) => closed = true,
        }
        while let Some(k) = pending.iter().position(|b| *b == b'\n') {
            let l = String::from_utf8_lossy(&pending[..k]).to_string();
            pending.drain(..=k);
            let mut out: Vec<u8> = vec![];
            if stage == 0 && l == "ready" {
                for x in pre_lines {
                    out.extend(x.as_bytes());
                    out.push(b'\n');
                }
                out.extend(b"cmd:start\n");
                for x in post_lines {
                    out.extend(x.as_bytes());
                    out.push(b'\n');
                }
                out.extend(format!("u8:{:x}:a1\n", flag).as_bytes());
                stage = 1;
            } else if stage == 1 && l.starts_with("ioport:b:a1:") {
                out.extend(format!("u8:{:x}:b2\n", flag).as_bytes());
                stage = 2;
            } else if stage == 2 && l.starts_with("ioport:b:b2:") {
                out.extend(b"cmd:stop\n");
                stage = 3;
            }
            if !out.is_empty() {
                let _ = stream.write_all(&out);
                let _ = stream.flush();
            }
            lines.push(l);
        }
    }
    let status = wait_deadline(&mut child, deadline.max(Instant::now() + Duration::from_secs(2)));
    let stderr = se_thread.and_then(|t| t.join().ok()).unwrap_or_default();
    let _ = std::fs::remove_file(&path);
    drop(lease);
    if let Ok(st) = status {
        if listen_failed(st, &stderr) {
            return Ok(Attempt::PortTrouble(format!("the emulator could not listen on port {} (address already in use), yet something accepted the connection", port)));
        }
    }
    if stage != 3 {
        return Err(RealErr::Inconclusive(format!("the connection closed in stage {} of the dialog", stage)));
    }
    Ok(Attempt::Done(lines))
}

/// the emulator's outgoing framing, inverted
pub fn unescape(line: &str) -> String {
    let mut out = String::new();
    let mut it = line.chars();
    while let Some(c) = it.next() {
        if c == '\\' {
            match it.next() {
                Some('n') => out.push('\n'),
                Some('\\') => out.push('\\'),
                Some(o) => {
                    out.push('\\');
                    out.push(o);
                }
                None => out.push('\\'),
            }
        } else {
            out.push(c);
        }
    }
    out
}

/// what `-m` prints for a message sequence: console text of every stdout message, then `msg: <message>`
pub fn expected_stdout(msgs: &[String]) -> Vec<u8> {
    let mut v = vec![];
    for m in msgs {
        if let Some(t) = m.strip_prefix("stdout:") {
            v.extend(t.as_bytes());
        }
        v.extend(format!("msg: {}\n", m).as_bytes());
    }
    v
}
