//! Driver for the repository's real release binary (built by ./check from the current tree into
//! <verif>/target/repo-bin): the only way to cover src/main.rs (argument parsing, settings, socket set-up,
//! `elf::load(..)` + `run().unwrap()`) and what happens at process exit.
//!
//! Everything here is bounded by deadlines; a deadline hit is `Inconclusive` (exit 2 material), never a verdict.

use std::io::{BufRead, BufReader, Read, Write};
use std::path::PathBuf;
use std::process::{Child, Command, Stdio};
use std::time::{Duration, Instant};

pub fn real_binary() -> Option<PathBuf> {
    let p = PathBuf::from(std::env::var("H8VERIF_REALBIN").ok()?);
    if p.is_file() {
        Some(p)
    } else {
        None
    }
}

#[derive(Debug)]
pub enum RealErr {
    /// the machinery could not do its job (spawn failed, deadline): not a verdict
    Inconclusive(String),
}

pub struct RealOut {
    /// exit code (None = killed by a signal)
    pub status: Option<i32>,
    pub stdout: Vec<u8>,
    pub stderr: String,
    /// lines received over TCP (newline stripped, still escaped), TCP mode only
    pub lines: Vec<String>,
}

fn temp_elf(tag: &str, file: &[u8]) -> Result<PathBuf, RealErr> {
    let dir = std::env::temp_dir().join(format!("h8verif-{}", std::process::id()));
    let _ = std::fs::create_dir_all(&dir);
    let path = dir.join(format!("real-{}.elf", tag));
    std::fs::write(&path, file).map_err(|e| RealErr::Inconclusive(format!("cannot write {}: {}", path.display(), e)))?;
    Ok(path)
}

fn wait_deadline(child: &mut Child, deadline: Instant) -> Result<Option<i32>, RealErr> {
    loop {
        match child.try_wait() {
            Ok(Some(st)) => return Ok(st.code()),
            Ok(None) => {
                if Instant::now() > deadline {
                    let _ = child.kill();
                    let _ = child.wait();
                    return Err(RealErr::Inconclusive("the emulator process did not end before the deadline".into()));
                }
                std::thread::sleep(Duration::from_millis(2));
            }
            Err(e) => return Err(RealErr::Inconclusive(format!("wait: {}", e))),
        }
    }
}

/// `<bin> --elf <file> --args=<args> -m --log off`, stdout captured
pub fn run_stdout(bin: &PathBuf, tag: &str, file: &[u8], args: &str, timeout: Duration) -> Result<RealOut, RealErr> {
    let path = temp_elf(tag, file)?;
    let mut child = Command::new(bin)
        .arg("--elf")
        .arg(&path)
        .arg(format!("--args={}", args))
        .arg("-m")
        .arg("--log")
        // the log goes to stderr; what it says (and whether it says anything) must not change stdout or the status
        .arg(super::logctl::NAMES[super::logctl::current().min(5) as usize])
        .env_remove("RUST_LOG")
        .env("RUST_BACKTRACE", "0")
        .stdin(Stdio::null())
        .stdout(Stdio::piped())
        .stderr(Stdio::piped())
        .spawn()
        .map_err(|e| RealErr::Inconclusive(format!("spawn {}: {}", bin.display(), e)))?;
    let mut so = child.stdout.take().unwrap();
    let mut se = child.stderr.take().unwrap();
    let t1 = std::thread::spawn(move || {
        let mut v = vec![];
        let _ = so.read_to_end(&mut v);
        v
    });
    let t2 = std::thread::spawn(move || {
        let mut v = vec![];
        let _ = se.read_to_end(&mut v);
        String::from_utf8_lossy(&v).to_string()
    });
    let status = wait_deadline(&mut child, Instant::now() + timeout);
    let stdout = t1.join().unwrap_or_default();
    let stderr = t2.join().unwrap_or_default();
    let _ = std::fs::remove_file(&path);
    Ok(RealOut { status: status?, stdout, stderr, lines: vec![] })
}

/// A port nobody in this process has been given before (atomic counter over a pid-dependent range, checked
/// by a trial bind). Asking the kernel for an ephemeral port and closing it again hands the same number to two
/// threads now and then, and then one emulator talks to the other's client.
pub fn free_port() -> u16 {
    use std::sync::atomic::{AtomicU32, Ordering};
    static NEXT: AtomicU32 = AtomicU32::new(0);
    // 40 disjoint ranges of 1000 ports: concurrently running check processes have neighbouring pids
    let base = 20000 + (std::process::id() % 40) * 1000;
    for _ in 0..4096 {
        // processes that share a range (pid equal modulo 40) start at different offsets in it
        let k = NEXT.fetch_add(1, Ordering::SeqCst) + (std::process::id() / 40) * 137;
        let p = (base + (k % 1000)) as u16;
        if p >= 20000 && std::net::TcpListener::bind(("127.0.0.1", p)).is_ok() {
            return p;
        }
    }
    std::net::TcpListener::bind("127.0.0.1:0").ok().and_then(|l| l.local_addr().ok()).map(|a| a.port()).unwrap_or(23456)
}

/// `<bin> --elf <file> --args=<args> -s -w -p <port> --log off`: connect, wait for `ready`, send `cmd:start`
/// followed by `extra_lines`, collect every line until the connection closes.
pub fn run_tcp(bin: &PathBuf, tag: &str, file: &[u8], args: &str, extra_lines: &[String], timeout: Duration) -> Result<RealOut, RealErr> {
    let path = temp_elf(tag, file)?;
    let port = free_port();
    let mut child = Command::new(bin)
        .arg("--elf")
        .arg(&path)
        .arg(format!("--args={}", args))
        .arg("-s")
        .arg("-w")
        .arg("-p")
        .arg(port.to_string())
        .arg("--log")
        .arg(super::logctl::NAMES[super::logctl::current().min(5) as usize])
        // every other run also echoes the messages on the console (-m), one in four traces the instructions there
        // (-i): what goes over the socket is the same
        .args(if port % 2 == 1 { vec!["-m"] } else { vec![] })
        .args(if port % 4 >= 2 { vec!["-i"] } else { vec![] })
        .env_remove("RUST_LOG")
        .env("RUST_BACKTRACE", "0")
        .stdin(Stdio::null())
        .stdout(Stdio::null())
        .stderr(Stdio::piped())
        .spawn()
        .map_err(|e| RealErr::Inconclusive(format!("spawn {}: {}", bin.display(), e)))?;
    let deadline = Instant::now() + timeout;
    // the log (stderr) is drained while the run goes on: a talkative level must not fill the pipe and stall the child
    let se_thread = child.stderr.take().map(|mut se| {
        std::thread::spawn(move || {
            let mut v = vec![];
            let _ = se.read_to_end(&mut v);
            String::from_utf8_lossy(&v).to_string()
        })
    });
    let cleanup = |child: &mut Child, path: &PathBuf| {
        let _ = child.kill();
        let _ = child.wait();
        let _ = std::fs::remove_file(path);
    };
    let mut stream = loop {
        match std::net::TcpStream::connect(("127.0.0.1", port)) {
            Ok(s) => break s,
            Err(e) => {
                if Instant::now() > deadline || child.try_wait().ok().flatten().is_some() {
                    cleanup(&mut child, &path);
                    return Err(RealErr::Inconclusive(format!("cannot connect to the emulator on port {}: {}", port, e)));
                }
                std::thread::sleep(Duration::from_millis(2));
            }
        }
    };
    let _ = stream.set_read_timeout(Some(Duration::from_millis(200)));
    let mut reader = BufReader::new(stream.try_clone().map_err(|e| RealErr::Inconclusive(e.to_string()))?);
    let mut lines: Vec<String> = vec![];
    let mut buf: Vec<u8> = vec![];
    let mut started = false;
    loop {
        match reader.read_until(b'\n', &mut buf) {
            Ok(0) => break, // closed
            Ok(_) => {
                if buf.last() == Some(&b'\n') {
                    buf.pop();
                    let l = String::from_utf8_lossy(&buf).to_string();
                    buf.clear();
                    if !started && l == "ready" {
                        started = true;
                        let mut out = b"cmd:start\n".to_vec();
                        for x in extra_lines {
                            out.extend(x.as_bytes());
                            out.push(b'\n');
                        }
                        let _ = stream.write_all(&out);
                        let _ = stream.flush();
                    }
                    lines.push(l);
                }
                // else: partial line (timeout in the middle): keep reading into the same buffer
            }
            Err(e) if e.kind() == std::io::ErrorKind::WouldBlock || e.kind() == std::io::ErrorKind::TimedOut => {
                if Instant::now() > deadline {
                    cleanup(&mut child, &path);
                    return Err(RealErr::Inconclusive("the emulator did not close the connection before the deadline".into()));
                }
            }
            Err(_) => break, // reset by the exiting peer
        }
    }
    if !buf.is_empty() {
        lines.push(format!("{}<unterminated>", String::from_utf8_lossy(&buf)));
    }
    let status = wait_deadline(&mut child, deadline.max(Instant::now() + Duration::from_secs(2)));
    let stderr = se_thread.and_then(|t| t.join().ok()).unwrap_or_default();
    let _ = std::fs::remove_file(&path);
    Ok(RealOut { status: status?, stdout: vec![], stderr, lines })
}


/// `-s -w` dialog around the start: connect, wait for `ready`, send `pre_lines` (while the emulator still waits for
/// its start), `cmd:start`, `post_lines`; then two sentinel rounds (`u8:<flag>:<nonce>`, each answered by the guest
/// with `ioport:b:<nonce>:`) so that the guest has gone round its loop at least once after the last line; then
/// `cmd:stop`. Returns every line received.
pub fn run_tcp_dialog(bin: &PathBuf, tag: &str, file: &[u8], pre_lines: &[String], post_lines: &[String], flag: u32, timeout: Duration) -> Result<Vec<String>, RealErr> {
    let path = temp_elf(tag, file)?;
    let port = free_port();
    let mut child = Command::new(bin)
        .arg("--elf")
        .arg(&path)
        .arg("-s")
        .arg("-w")
        .arg("-p")
        .arg(port.to_string())
        .arg("--log")
        .arg(super::logctl::NAMES[super::logctl::current().min(5) as usize])
        .args(if port % 2 == 1 { vec!["-m"] } else { vec![] })
        .args(if port % 4 >= 2 { vec!["-i"] } else { vec![] })
        .env_remove("RUST_LOG")
        .env("RUST_BACKTRACE", "0")
        .stdin(Stdio::null())
        .stdout(Stdio::null())
        .stderr(Stdio::null())
        .spawn()
        .map_err(|e| RealErr::Inconclusive(format!("spawn {}: {}", bin.display(), e)))?;
    let deadline = Instant::now() + timeout;
    let cleanup = |child: &mut Child, path: &PathBuf| {
        let _ = child.kill();
        let _ = child.wait();
        let _ = std::fs::remove_file(path);
    };
    let mut stream = loop {
        match std::net::TcpStream::connect(("127.0.0.1", port)) {
            Ok(s) => break s,
            Err(e) => {
                if Instant::now() > deadline || child.try_wait().ok().flatten().is_some() {
                    cleanup(&mut child, &path);
                    return Err(RealErr::Inconclusive(format!("cannot connect to the emulator on port {}: {}", port, e)));
                }
                std::thread::sleep(Duration::from_millis(2));
            }
        }
    };
    let _ = stream.set_read_timeout(Some(Duration::from_millis(100)));
    let mut lines: Vec<String> = vec![];
    let mut pending: Vec<u8> = vec![];
    let mut buf = [0u8; 4096];
    // stage 0 wait ready, 1 wait nonce 1, 2 wait nonce 2, 3 wait close
    let mut stage = 0;
    let mut closed = false;
    while !closed {
        match stream.read(&mut buf) {
            Ok(0) => closed = true,
            Ok(n) => pending.extend_from_slice(&buf[..n]),
            Err(e) if e.kind() == std::io::ErrorKind::WouldBlock || e.kind() == std::io::ErrorKind::TimedOut => {
                if Instant::now() > deadline {
                    cleanup(&mut child, &path);
                    return Err(RealErr::Inconclusive(format!("dialog stuck in stage {} until the deadline", stage)));
                }
            }
            Err(_) => closed = true,
        }
        while let Some(k) = pending.iter().position(|b| *b == b'\n') {
            let l = String::from_utf8_lossy(&pending[..k]).to_string();
            pending.drain(..=k);
            let mut out: Vec<u8> = vec![];
            if stage == 0 && l == "ready" {
                for x in pre_lines {
                    out.extend(x.as_bytes());
                    out.push(b'\n');
                }
                out.extend(b"cmd:start\n");
                for x in post_lines {
                    out.extend(x.as_bytes());
                    out.push(b'\n');
                }
                out.extend(format!("u8:{:x}:a1\n", flag).as_bytes());
                stage = 1;
            } else if stage == 1 && l.starts_with("ioport:b:a1:") {
                out.extend(format!("u8:{:x}:b2\n", flag).as_bytes());
                stage = 2;
            } else if stage == 2 && l.starts_with("ioport:b:b2:") {
                out.extend(b"cmd:stop\n");
                stage = 3;
            }
            if !out.is_empty() {
                let _ = stream.write_all(&out);
                let _ = stream.flush();
            }
            lines.push(l);
        }
    }
    let _ = wait_deadline(&mut child, deadline.max(Instant::now() + Duration::from_secs(2)));
    let _ = std::fs::remove_file(&path);
    if stage != 3 {
        return Err(RealErr::Inconclusive(format!("the connection closed in stage {} of the dialog", stage)));
    }
    Ok(lines)
}

/// the emulator's outgoing framing, inverted
pub fn unescape(line: &str) -> String {
    let mut out = String::new();
    let mut it = line.chars();
    while let Some(c) = it.next() {
        if c == '\\' {
            match it.next() {
                Some('n') => out.push('\n'),
                Some('\\') => out.push('\\'),
                Some(o) => {
                    out.push('\\');
                    out.push(o);
                }
                None => out.push('\\'),
            }
        } else {
            out.push(c);
        }
    }
    out
}

/// what `-m` prints for a message sequence: console text of every stdout message, then `msg: <message>`
pub fn expected_stdout(msgs: &[String]) -> Vec<u8> {
    let mut v = vec![];
    for m in msgs {
        if let Some(t) = m.strip_prefix("stdout:") {
            v.extend(t.as_bytes());
        }
        v.extend(format!("msg: {}\n", m).as_bytes());
    }
    v
}
