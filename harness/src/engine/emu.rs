//! Driver around the real `Cpu`: baseline memory image, raw (side-effect free) memory access,
//! diff of the whole guest-visible memory against the baseline, panic capture, message capture.

use crate::bus::Bus;
use crate::cpu::{verif_hooks as hooks, Cpu};
use crate::refmodel::exec::{BusCfg, REGIONS};
use crate::socket::Socket;
use std::cell::RefCell;
use std::collections::BTreeMap;
use std::panic::{catch_unwind, AssertUnwindSafe};
use std::sync::mpsc::{channel, Receiver, Sender};
use std::sync::{Arc, Once};

/// Address tag: every plain memory byte initially holds a hash of its own address, so a load reveals
/// which address was read and a stray write is visible.
#[inline]
pub fn tag(addr: u32) -> u8 {
    let x = addr.wrapping_mul(0x9E37_79B1) ^ (addr >> 7).wrapping_mul(0x85EB_CA6B);
    ((x >> 24) ^ (x >> 11)) as u8
}

pub const ABWCR: u32 = 0xfee020;
pub const ASTCR: u32 = 0xfee021;
pub const WCRH: u32 = 0xfee022;
pub const WCRL: u32 = 0xfee023;
pub const DRCRA: u32 = 0xfee026;
pub fn is_bus_reg(a: u32) -> bool {
    matches!(a, ABWCR | ASTCR | WCRH | WCRL | DRCRA)
}

/// baseline content: tag for vector/DRAM/RAM, zero for both I/O register blocks
#[inline]
pub fn baseline_byte(addr: u32) -> u8 {
    match addr {
        0xfee000..=0xfee0ff | 0xffff20..=0xffffe9 => 0,
        _ => tag(addr),
    }
}

pub struct Baseline {
    pub regions: Vec<(u32, Vec<u8>)>, // (start, bytes) in REGIONS order
}
impl Baseline {
    pub fn new() -> Arc<Baseline> {
        let regions = REGIONS
            .iter()
            .map(|&(lo, hi, _)| (lo, (lo..=hi).map(baseline_byte).collect::<Vec<u8>>()))
            .collect();
        Arc::new(Baseline { regions })
    }
}

pub fn region_index(addr: u32) -> Option<usize> {
    REGIONS.iter().position(|&(lo, hi, _)| addr >= lo && addr <= hi)
}

/// the emulator's backing store of a region, clipped to the region's architectural size (a buffer allocated a
/// little larger than the region is the emulator's own business and must not upset the machinery)
pub fn region_slice(bus: &Bus, idx: usize) -> &[u8] {
    let s = match idx {
        0 => &bus.exception_handling_vector[..],
        1 => &bus.dram[..],
        2 => &bus.io_registrs1[..],
        3 => &bus.memory[..],
        _ => &bus.io_registrs2[..],
    };
    let n = (REGIONS[idx.min(4)].1 - REGIONS[idx.min(4)].0 + 1) as usize;
    &s[..n.min(s.len())]
}
fn fill_region(dst: &mut [u8], src: &[u8]) {
    let n = dst.len().min(src.len());
    dst[..n].copy_from_slice(&src[..n]);
}
pub fn region_slice_mut(bus: &mut Bus, idx: usize) -> &mut [u8] {
    let s = match idx {
        0 => &mut bus.exception_handling_vector[..],
        1 => &mut bus.dram[..],
        2 => &mut bus.io_registrs1[..],
        3 => &mut bus.memory[..],
        _ => &mut bus.io_registrs2[..],
    };
    let n = (REGIONS[idx.min(4)].1 - REGIONS[idx.min(4)].0 + 1) as usize;
    let m = n.min(s.len());
    &mut s[..m]
}

pub fn raw_get(bus: &Bus, addr: u32) -> Option<u8> {
    let i = region_index(addr)?;
    region_slice(bus, i).get((addr - REGIONS[i].0) as usize).copied()
}
pub fn raw_set(bus: &mut Bus, addr: u32, v: u8) -> bool {
    match region_index(addr) {
        Some(i) => {
            match region_slice_mut(bus, i).get_mut((addr - REGIONS[i].0) as usize) {
                Some(b) => {
                    *b = v;
                    true
                }
                None => false,
            }
        }
        None => false,
    }
}

/// panics of the emulator's bus write path under the harness's own set-up stores (see `Emu::set_byte`)
pub static SETUP_PANICS: std::sync::atomic::AtomicU64 = std::sync::atomic::AtomicU64::new(0);
pub static LAST_SETUP_PANIC: std::sync::Mutex<Option<(u32, u8, String)>> = std::sync::Mutex::new(None);
/// the set-up panics as a failure of the running check (used by C09 and C15)
pub fn setup_panic_failure() -> Option<crate::engine::stats::Failure> {
    if SETUP_PANICS.load(std::sync::atomic::Ordering::SeqCst) == 0 {
        return None;
    }
    let (a, v, p) = LAST_SETUP_PANIC.lock().ok()?.clone()?;
    Some(crate::engine::stats::Failure {
        signature: "panic in the bus write path".into(),
        detail: format!("a byte store of {:02x} to {:06x} through Bus::write panicked: {} ({} such panics in this run)", v, a, p, SETUP_PANICS.load(std::sync::atomic::Ordering::SeqCst)),
        case: serde_json::json!({"kind": "setup-write", "addr": a, "value": v}),
    })
}
/// replay of a `setup-write` case: the store on a fresh Cpu (and on one whose byte already differs)
pub fn replay_setup_write(case: &serde_json::Value) -> Option<Result<(), String>> {
    if case.get("kind").and_then(|k| k.as_str()) != Some("setup-write") {
        return None;
    }
    let a = case.get("addr")?.as_u64()? as u32;
    let v = case.get("value")?.as_u64()? as u8;
    let r = guarded(|| {
        let mut cpu = crate::cpu::Cpu::new();
        let _ = cpu.bus.write(a, v);
        let _ = cpu.bus.write(a, !v);
        let _ = cpu.bus.write(a, v);
    });
    Some(r.map_err(|p| format!("a byte store of {:02x} to {:06x} through Bus::write panicked: {}", v, a, p)))
}

pub static PANICS: std::sync::atomic::AtomicU64 = std::sync::atomic::AtomicU64::new(0);
pub static REBUILDS: std::sync::atomic::AtomicU64 = std::sync::atomic::AtomicU64::new(0);

thread_local! {
    static LAST_PANIC: RefCell<Option<String>> = RefCell::new(None);
}
static HOOK: Once = Once::new();
/// panics in threads started by the emulator itself (outside every guarded call)
pub static EMU_THREAD_PANICS: std::sync::atomic::AtomicUsize = std::sync::atomic::AtomicUsize::new(0);
pub static LAST_EMU_THREAD_PANIC: std::sync::Mutex<String> = std::sync::Mutex::new(String::new());

/// Install a panic hook that records message + location per thread and prints nothing.
pub fn install_panic_hook() {
    HOOK.call_once(|| {
        std::panic::set_hook(Box::new(|info| {
            let msg = if let Some(s) = info.payload().downcast_ref::<&str>() {
                s.to_string()
            } else if let Some(s) = info.payload().downcast_ref::<String>() {
                s.clone()
            } else {
                "<non-string panic>".to_string()
            };
            let loc = info.location().map(|l| format!("{}:{}", l.file(), l.line())).unwrap_or_default();
            if GUARD_DEPTH.with(|d| d.get()) == 0 {
                let file = info.location().map(|l| l.file().to_string()).unwrap_or_default();
                let emulator_file = ["src/bus", "src/cpu", "src/elf", "src/ioport", "src/memory", "src/modules", "src/registers", "src/setting", "src/socket"].iter().any(|p| file.starts_with(p));
                if emulator_file {
                    // a thread the emulator started itself (socket workers) panicked: counted, judged by C15
                    EMU_THREAD_PANICS.fetch_add(1, std::sync::atomic::Ordering::SeqCst);
                    if let Ok(mut g) = LAST_EMU_THREAD_PANIC.lock() {
                        *g = format!("{} @ {}", msg, loc);
                    }
                    // (or the harness called into the emulator without a guard: then this thread unwinds and the
                    // check ends with exit 2 - said here so that it is never silent)
                    eprintln!("EMULATOR PANIC outside a guarded call (thread {:?}): {} @ {}", std::thread::current().name().unwrap_or("unnamed"), msg, loc);
                } else {
                    // not inside a guarded call into the emulator: the machinery itself panicked - never silent
                    eprintln!("HARNESS ERROR: the check's own code panicked: {} @ {}", msg, loc);
                }
            }
            LAST_PANIC.with(|p| *p.borrow_mut() = Some(format!("{} @ {}", msg, loc)));
        }));
    });
}
pub fn take_panic() -> String {
    LAST_PANIC.with(|p| p.borrow_mut().take()).unwrap_or_else(|| "<panic without message>".into())
}

/// run `f`, turning a panic into Err(message @ file:line)
thread_local! {
    static GUARD_DEPTH: std::cell::Cell<u32> = std::cell::Cell::new(0);
}

pub fn guarded<T>(f: impl FnOnce() -> T) -> Result<T, String> {
    install_panic_hook();
    GUARD_DEPTH.with(|d| d.set(d.get() + 1));
    let r = catch_unwind(AssertUnwindSafe(f));
    GUARD_DEPTH.with(|d| d.set(d.get() - 1));
    match r {
        Ok(v) => Ok(v),
        Err(_) => {
            PANICS.fetch_add(1, std::sync::atomic::Ordering::Relaxed);
            Err(take_panic())
        }
    }
}

#[derive(Clone, Debug, PartialEq)]
pub enum EmuResult {
    Ok(u32),
    Err(String),
    Panic(String),
}
impl EmuResult {
    pub fn kind(&self) -> &'static str {
        match self {
            EmuResult::Ok(_) => "Ok",
            EmuResult::Err(_) => "Err",
            EmuResult::Panic(_) => "Panic",
        }
    }
}

pub struct Emu {
    pub cpu: Cpu,
    pub base: Arc<Baseline>,
    /// far end of the outgoing message channel (everything Cpu/Bus::send_message emits)
    pub msg_rx: Receiver<String>,
    /// far end of the incoming control-line channel
    pub line_tx: Sender<String>,
    /// set when hidden peripheral state may have been disturbed; the next `fresh()` rebuilds
    pub dirty_hidden: bool,
}

impl Emu {
    pub fn new(base: &Arc<Baseline>) -> Emu {
        let _ = *crate::setting::ENABLE_PRINT_OPCODE.read().unwrap();
        *crate::setting::ENABLE_PRINT_OPCODE.write().unwrap() = false;
        let mut cpu = Cpu::new();
        for (i, (_, bytes)) in base.regions.iter().enumerate() {
            fill_region(region_slice_mut(&mut cpu.bus, i), bytes);
        }
        let (out_tx, out_rx) = channel::<String>();
        let (in_tx, in_rx) = channel::<String>();
        hooks::attach_socket(&mut cpu, Socket::from_channels(out_tx, in_rx));
        Emu { cpu, base: base.clone(), msg_rx: out_rx, line_tx: in_tx, dirty_hidden: false }
    }

    /// Replace the whole emulator (after a panic or after hidden peripheral state was touched).
    pub fn rebuild(&mut self) {
        REBUILDS.fetch_add(1, std::sync::atomic::Ordering::Relaxed);
        let base = self.base.clone();
        *self = Emu::new(&base);
    }

    /// Bring the peripherals back to their reset behaviour without reallocating the emulator:
    /// I/O register bytes to the baseline, pin levels to 0, timer control decoded from TCR = 0.
    /// (The timer's sub-tick residue survives; it is invisible unless `update_modules` runs, which
    /// callers that use this function never do.) Falls back to a rebuild if a panic left the
    /// module manager borrowed.
    pub fn soft_reset(&mut self) {
        let ok = match self.cpu.bus.module_manager.upgrade() {
            Some(m) => m.try_borrow_mut().is_ok(),
            None => false,
        };
        if !ok {
            self.rebuild();
            return;
        }
        let cfg = self.bus_cfg();
        for idx in [2usize, 4] {
            let bytes = self.base.regions[idx].1.clone();
            fill_region(region_slice_mut(&mut self.cpu.bus, idx), &bytes);
        }
        // the bus-controller registers are only ever changed through the write path
        self.poke_bus_cfg(&cfg);
        self.set_bus_cfg(&BusCfg::ZERO);
        self.cpu.bus.io_port_in = [0; 11];
        for p in 0..11u32 {
            // internal port latches back to 0 through the public write path
            let _ = self.cpu.bus.write(0xffffd0 + p, 0xff);
            let _ = self.cpu.bus.write(0xffffd0 + p, 0);
            raw_set(&mut self.cpu.bus, 0xffffd0 + p, 0);
        }
        let _ = self.cpu.bus.write(0xffff80, 0);
        hooks::reset_modules(&mut self.cpu);
        self.drain_pending();
        let _ = self.drain_msgs();
        self.dirty_hidden = false;
    }

    /// accept (and thereby discard) every pending interrupt request
    pub fn drain_pending(&mut self) {
        let mut guard = 0;
        let sp = 0xffe800u32;
        while hooks::pending_interrupts(&self.cpu) > 0 && guard < 1_000_000 {
            self.set_ccr(0);
            self.cpu.er[7] = sp;
            let cpu = &mut self.cpu;
            let _ = guarded(|| hooks::try_interrupt(cpu));
            guard += 1;
        }
        for i in 0..4 {
            raw_set(&mut self.cpu.bus, sp - 4 + i, baseline_byte(sp - 4 + i));
        }
    }

    pub fn drain_msgs(&mut self) -> Vec<String> {
        self.msg_rx.try_iter().collect()
    }

    /// Program the bus controller the way a guest does: through `Bus::write`, and only the registers whose
    /// value changes. The harness never pokes these five registers behind the emulator's back (an emulator
    /// is free to cache what it derives from them as long as it follows the writes), and because unchanged
    /// registers are not rewritten, consecutive cases see every kind of single-register transition.
    pub fn set_bus_cfg(&mut self, c: &BusCfg) {
        for (a, v) in [(ABWCR, c.abwcr), (ASTCR, c.astcr), (WCRH, c.wcrh), (WCRL, c.wcrl), (DRCRA, c.drcra)] {
            if raw_get(&self.cpu.bus, a) != Some(v) {
                let _ = self.cpu.bus.write(a, v);
            }
        }
    }
    pub fn bus_cfg(&self) -> BusCfg {
        let g = |a: u32| raw_get(&self.cpu.bus, a).unwrap_or(0);
        BusCfg { abwcr: g(ABWCR), astcr: g(ASTCR), wcrh: g(WCRH), wcrl: g(WCRL), drcra: g(DRCRA) }
    }
    /// poke the five registers (only to undo a poke of the whole register block)
    fn poke_bus_cfg(&mut self, c: &BusCfg) {
        for (a, v) in [(ABWCR, c.abwcr), (ASTCR, c.astcr), (WCRH, c.wcrh), (WCRL, c.wcrl), (DRCRA, c.drcra)] {
            raw_set(&mut self.cpu.bus, a, v);
        }
    }

    pub fn step(&mut self) -> EmuResult {
        let cpu = &mut self.cpu;
        match guarded(|| hooks::step(cpu)) {
            Ok(Ok(n)) => EmuResult::Ok(n as u32),
            Ok(Err(e)) => EmuResult::Err(format!("{:#}", e).lines().next().unwrap_or("").to_string()),
            Err(p) => EmuResult::Panic(p),
        }
    }

    pub fn try_interrupt(&mut self) -> EmuResult {
        let cpu = &mut self.cpu;
        match guarded(|| hooks::try_interrupt(cpu)) {
            Ok(Ok(())) => EmuResult::Ok(0),
            Ok(Err(e)) => EmuResult::Err(format!("{:#}", e).lines().next().unwrap_or("").to_string()),
            Err(p) => EmuResult::Panic(p),
        }
    }

    /// All bytes of region `idx` (optionally restricted to windows) that differ from the baseline.
    fn diff_region(&self, idx: usize, windows: Option<&[(u32, u32)]>, out: &mut BTreeMap<u32, u8>) {
        let (lo, ref basebytes) = self.base.regions[idx];
        let cur = region_slice(&self.cpu.bus, idx);
        let mut scan = |a: usize, b: usize| {
            // [a, b) indices
            const CH: usize = 64;
            let mut i = a;
            while i < b {
                let e = (i + CH).min(b);
                if cur[i..e] != basebytes[i..e] {
                    for k in i..e {
                        if cur[k] != basebytes[k] {
                            out.insert(lo + k as u32, cur[k]);
                        }
                    }
                }
                i = e;
            }
        };
        match windows {
            None => scan(0, cur.len()),
            Some(ws) => {
                let hi = lo + cur.len() as u32 - 1;
                for &(wlo, whi) in ws {
                    if whi < lo || wlo > hi {
                        continue;
                    }
                    let a = wlo.max(lo) - lo;
                    let b = whi.min(hi) - lo + 1;
                    scan(a as usize, b as usize);
                }
            }
        }
    }

    /// Diff of the guest-visible memory against the baseline: the four small regions completely,
    /// DRAM either completely (`full_dram`) or inside `dram_windows`.
    pub fn diff(&self, dram_windows: &[(u32, u32)], full_dram: bool) -> BTreeMap<u32, u8> {
        let mut out = BTreeMap::new();
        for idx in [0usize, 2, 3, 4] {
            self.diff_region(idx, None, &mut out);
        }
        if full_dram || self.cpu.bus.verif_write_log.len() >= (1 << 20) {
            self.diff_region(1, None, &mut out);
        } else {
            self.diff_region(1, Some(dram_windows), &mut out);
            // every address the bus was asked to write since the log was cleared
            let (lo, ref basebytes) = self.base.regions[1];
            let cur = region_slice(&self.cpu.bus, 1);
            for &a in &self.cpu.bus.verif_write_log {
                if a >= lo && ((a - lo) as usize) < cur.len().min(basebytes.len()) {
                    let k = (a - lo) as usize;
                    if cur[k] != basebytes[k] {
                        out.insert(a, cur[k]);
                    }
                }
            }
        }
        out
    }
    pub fn clear_write_log(&mut self) {
        self.cpu.bus.verif_write_log.clear();
    }

    pub fn dram_equals_baseline(&self) -> bool {
        let cur = region_slice(&self.cpu.bus, 1);
        let n = cur.len().min(self.base.regions[1].1.len());
        cur[..n] == self.base.regions[1].1[..n]
    }

    /// Set one byte of the pre-image of a case. Plain on-chip I/O registers go through the bus write path (as
    /// a guest would set them), storage is poked; the bus-controller registers are left to `set_bus_cfg`.
    pub fn set_byte(&mut self, a: u32, v: u8) {
        if is_bus_reg(a) {
            return;
        }
        // Everything except the peripheral registers goes through the bus write path - the path every writer
        // outside the CPU core uses (the `u8:` control line, the MES services): an implementation that keeps
        // copies of memory (prefetched words, decoded instructions, cached vectors) must notice these writes, and
        // one that does is not accused of staleness the harness itself created by poking the arrays.
        // (the 8-bit timer's registers too: the timer learns its enable bits and clock from the write path; the
        // ports keep the array path - their write path announces outputs and C16 drives it explicitly)
        let timer = (0xffff80..=0xffff99).contains(&a);
        if !is_peripheral_reg(a) || timer {
            if raw_get(&self.cpu.bus, a) != Some(v) {
                let bus = &mut self.cpu.bus;
                match guarded(|| bus.write(a, v)) {
                    Ok(Ok(())) => {}
                    Ok(Err(_)) => {
                        raw_set(&mut self.cpu.bus, a, v);
                    }
                    Err(p) => {
                        // a plain store of the pre-image panicked inside the emulator: counted (C15 and C09 report it:
                        // "no memory content can make the emulator panic", "a write to an accessible address
                        // succeeds"); for every other check the case goes on with the byte poked
                        SETUP_PANICS.fetch_add(1, std::sync::atomic::Ordering::SeqCst);
                        if let Ok(mut g) = LAST_SETUP_PANIC.lock() {
                            if g.is_none() {
                                *g = Some((a, v, p));
                            }
                        }
                        raw_set(&mut self.cpu.bus, a, v);
                        self.dirty_hidden = true;
                    }
                }
                if timer {
                    self.dirty_hidden = true;
                }
            }
        } else {
            raw_set(&mut self.cpu.bus, a, v);
        }
    }
    /// restore the given addresses to the baseline
    pub fn restore<'a>(&mut self, addrs: impl Iterator<Item = &'a u32>) {
        for &a in addrs {
            // bus-controller registers: left as they are, the next case programs them (see set_bus_cfg)
            self.set_byte(a, baseline_byte(a));
        }
    }
    pub fn restore_all(&mut self) {
        let cfg = self.bus_cfg();
        for (i, (_, bytes)) in self.base.clone().regions.iter().enumerate() {
            fill_region(region_slice_mut(&mut self.cpu.bus, i), bytes);
        }
        self.poke_bus_cfg(&cfg);
        self.set_bus_cfg(&BusCfg::ZERO);
        self.cpu.bus.io_port_in = [0; 11];
    }

    pub fn pc(&self) -> u32 {
        hooks::pc(&self.cpu)
    }
    pub fn ccr(&self) -> u8 {
        hooks::ccr(&self.cpu)
    }
    pub fn set_pc(&mut self, pc: u32) {
        hooks::set_pc(&mut self.cpu, pc)
    }
    pub fn set_ccr(&mut self, c: u8) {
        hooks::set_ccr(&mut self.cpu, c)
    }
}

/// addresses whose writes have peripheral side effects (ports, timers)
pub fn is_peripheral_reg(addr: u32) -> bool {
    matches!(addr, 0xfee000..=0xfee00a | 0xffffd0..=0xffffda | 0xffff80..=0xffff99)
}
