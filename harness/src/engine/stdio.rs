//! The emulator prints guest console output with `print!` to the process's stdout. Checks that
//! execute such guests redirect file descriptor 1 while the emulator runs, so that guest text can
//! never be mistaken for a verdict line, and (for C14) so that the console stream can be compared.

use std::io::Write;
use std::path::PathBuf;

extern "C" {
    fn dup(fd: i32) -> i32;
    fn dup2(oldfd: i32, newfd: i32) -> i32;
    fn close(fd: i32) -> i32;
}

pub struct Redirect {
    saved: i32,
    file: Option<PathBuf>,
}

impl Redirect {
    /// redirect stdout to /dev/null (capture = false) or to a scratch file (capture = true)
    pub fn start(capture: bool) -> Redirect {
        use std::os::unix::io::AsRawFd;
        let _ = std::io::stdout().flush();
        let (f, path) = if capture {
            let p = std::env::temp_dir().join(format!("h8verif-stdout-{}-{:?}.txt", std::process::id(), std::thread::current().id()));
            (std::fs::File::create(&p).expect("scratch file"), Some(p))
        } else {
            (std::fs::OpenOptions::new().write(true).open("/dev/null").expect("/dev/null"), None)
        };
        let saved = unsafe { dup(1) };
        unsafe {
            dup2(f.as_raw_fd(), 1);
        }
        Redirect { saved, file: path }
    }
    /// restore stdout; returns what was captured (empty when not capturing)
    pub fn finish(mut self) -> Vec<u8> {
        self.restore();
        match self.file.take() {
            Some(p) => {
                let d = std::fs::read(&p).unwrap_or_default();
                let _ = std::fs::remove_file(&p);
                d
            }
            None => vec![],
        }
    }
    fn restore(&mut self) {
        if self.saved >= 0 {
            let _ = std::io::stdout().flush();
            unsafe {
                dup2(self.saved, 1);
                close(self.saved);
            }
            self.saved = -1;
        }
    }
}
impl Drop for Redirect {
    fn drop(&mut self) {
        self.restore();
        if let Some(p) = self.file.take() {
            let _ = std::fs::remove_file(&p);
        }
    }
}
