#![allow(dead_code)]
#![allow(unused_imports)]
#![allow(clippy::all)]
// The emulator's sources, compiled from /repo's working tree through symlinks (see build.rs).
include!("emu_mods.rs");

pub mod checks;
pub mod engine;
pub mod fuzzapi;
pub mod gen;
pub mod refmodel;
