//! `check <Cxx> [--tier quick|thorough] [--seed N] [--replay FILE] [--survey] [--threads N]`
use h8verif::engine::emu::Baseline;
use h8verif::engine::run::{profile_name, Ctx, Tier};
use h8verif::engine::stats::{verif_root, Findings};
use std::time::Instant;

fn main() {
    // anyhow captures a backtrace for every Err when RUST_BACKTRACE is set: that is a global lock and
    // milliseconds per error; the emulator's errors are ordinary outcomes here
    std::env::set_var("RUST_LIB_BACKTRACE", "0");
    let args: Vec<String> = std::env::args().skip(1).collect();
    let mut id: Option<String> = None;
    let mut tier = match std::env::var("VERIF_TIER").ok().as_deref() {
        Some("thorough") => Tier::Thorough,
        _ => Tier::Quick,
    };
    let mut seed: u64 = std::env::var("VERIF_SEED").ok().and_then(|s| s.trim().parse::<i64>().ok()).map(|v| v as u64).unwrap_or(0);
    let mut replay = None;
    let mut survey = false;
    let mut threads = std::thread::available_parallelism().map(|n| n.get()).unwrap_or(8).min(16);
    let mut i = 0;
    while i < args.len() {
        match args[i].as_str() {
            "--tier" => {
                i += 1;
                tier = if args.get(i).map(|s| s.as_str()) == Some("thorough") { Tier::Thorough } else { Tier::Quick };
            }
            "--seed" => {
                i += 1;
                seed = args.get(i).and_then(|s| s.parse::<i64>().ok()).map(|v| v as u64).unwrap_or(0);
            }
            "--replay" => {
                i += 1;
                let path = args.get(i).cloned().unwrap_or_default();
                match std::fs::read_to_string(&path).ok().and_then(|t| serde_json::from_str::<serde_json::Value>(&t).ok()) {
                    Some(v) => replay = Some(v),
                    None => {
                        eprintln!("cannot read replay file {}", path);
                        std::process::exit(2);
                    }
                }
            }
            "--survey" => survey = true,
            "--threads" => {
                i += 1;
                threads = args.get(i).and_then(|s| s.parse().ok()).unwrap_or(threads);
            }
            s if !s.starts_with("--") && id.is_none() => id = Some(s.to_string()),
            other => {
                eprintln!("unknown argument {}", other);
                std::process::exit(2);
            }
        }
        i += 1;
    }
    let Some(id) = id else {
        eprintln!("usage: check <Cxx> [--tier quick|thorough] [--seed N] [--replay FILE]");
        std::process::exit(2);
    };
    h8verif::engine::emu::install_panic_hook();
    let ctx = Ctx {
        tier,
        seed,
        threads,
        findings: Findings::load(&verif_root().join("known_findings.json")),
        survey,
        replay,
        start: Instant::now(),
        base: Baseline::new(),
        profile: profile_name(),
    };
    match h8verif::checks::dispatch(&id, &ctx) {
        Some(code) => std::process::exit(code),
        None => {
            eprintln!("unknown property {}", id);
            std::process::exit(2);
        }
    }
}
