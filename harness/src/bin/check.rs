//! `check <Cxx> [--tier quick|thorough] [--seed N] [--replay FILE] [--survey] [--threads N]`
use h8verif::engine::emu::Baseline;
use h8verif::engine::run::{profile_name, Ctx, Tier};
use h8verif::engine::stats::{verif_root, Findings};
use std::time::Instant;

fn main() {
    // anyhow captures a backtrace for every Err when RUST_BACKTRACE is set: that is a global lock and
    // milliseconds per error; the emulator's errors are ordinary outcomes here
    std::env::set_var("RUST_LIB_BACKTRACE", "0");
    let args: Vec<String> = std::env::args().skip(1).collect();
    let mut id: Option<String> = None;
    let mut tier = match std::env::var("VERIF_TIER").ok().as_deref() {
        Some("thorough") => Tier::Thorough,
        _ => Tier::Quick,
    };
    let mut seed: u64 = std::env::var("VERIF_SEED").ok().and_then(|s| s.trim().parse::<i64>().ok()).map(|v| v as u64).unwrap_or(0);
    let mut replay = None;
    let mut survey = false;
    let mut threads = std::thread::available_parallelism().map(|n| n.get()).unwrap_or(8).min(16);
    let mut i = 0;
    while i < args.len() {
        match args[i].as_str() {
            "--tier" => {
                i += 1;
                tier = if args.get(i).map(|s| s.as_str()) == Some("thorough") { Tier::Thorough } else { Tier::Quick };
            }
            "--seed" => {
                i += 1;
                seed = args.get(i).and_then(|s| s.parse::<i64>().ok()).map(|v| v as u64).unwrap_or(0);
            }
            "--replay" => {
                i += 1;
                let path = args.get(i).cloned().unwrap_or_default();
                match std::fs::read_to_string(&path).ok().and_then(|t| serde_json::from_str::<serde_json::Value>(&t).ok()) {
                    Some(v) => replay = Some(v),
                    None => {
                        eprintln!("cannot read replay file {}", path);
                        std::process::exit(2);
                    }
                }
            }
            "--survey" => survey = true,
            "--threads" => {
                i += 1;
                threads = args.get(i).and_then(|s| s.parse().ok()).unwrap_or(threads);
            }
            s if !s.starts_with("--") && id.is_none() => id = Some(s.to_string()),
            other => {
                eprintln!("unknown argument {}", other);
                std::process::exit(2);
            }
        }
        i += 1;
    }
    let Some(id) = id else {
        eprintln!("usage: check <Cxx> [--tier quick|thorough] [--seed N] [--replay FILE]");
        std::process::exit(2);
    };
    h8verif::engine::emu::install_panic_hook();
    h8verif::engine::logctl::install();
    let base = Baseline::new();
    // --- the seconds-long tier: saved (shrunk) failing inputs of earlier findings and of seeded changes
    // (/verif/corpus/regress/<id>/*.json) are re-judged first, directly, without any generator. On a tree where the
    // property holds every one of them passes; one that fails is reported like any other violation.
    if replay.is_none() && id.starts_with('C') && id.len() == 3 && std::env::var("H8VERIF_NO_REGRESS").is_err() {
        let dir = verif_root().join("corpus").join("regress").join(&id);
        let mut files: Vec<std::path::PathBuf> = std::fs::read_dir(&dir).map(|rd| rd.flatten().map(|e| e.path()).filter(|p| p.extension().map(|x| x == "json").unwrap_or(false)).collect()).unwrap_or_default();
        files.sort();
        let mut failed = 0;
        let n = files.len();
        std::env::set_var("H8VERIF_QUIET_REPLAY", "1");
        for f in files {
            let Some(v) = std::fs::read_to_string(&f).ok().and_then(|t| serde_json::from_str::<serde_json::Value>(&t).ok()) else { continue };
            let c = Ctx { tier, seed, threads, findings: Findings::load(&verif_root().join("known_findings.json")), survey: false, replay: Some(v), start: Instant::now(), base: base.clone(), profile: profile_name() };
            print!("regress {}: ", f.file_name().and_then(|x| x.to_str()).unwrap_or(""));
            // a saved input is judged with logging at the binary's default level and at the most talkative one
            for level in [3u8, 5] {
                h8verif::engine::logctl::freeze(level);
                let r = std::panic::catch_unwind(std::panic::AssertUnwindSafe(|| h8verif::checks::dispatch(&id, &c)));
                let Ok(r) = r else {
                    eprintln!("HARNESS ERROR: {} did not complete the replay of a saved input (see above); this is not a verdict about the property", id);
                    std::process::exit(2);
                };
                match r {
                    Some(1) => {
                        failed += 1;
                        break;
                    }
                    Some(0) | None => {}
                    Some(_) => {
                        println!("(not replayable here: skipped)");
                        break;
                    }
                }
            }
            h8verif::engine::logctl::FROZEN.store(false, std::sync::atomic::Ordering::Relaxed);
        }
        std::env::remove_var("H8VERIF_QUIET_REPLAY");
        if failed == 0 && std::env::var("H8VERIF_REGRESS_ONLY").is_ok() {
            println!("{} regress: {} saved regression inputs pass", id, n);
            std::process::exit(0);
        }
        if failed > 0 {
            println!("{} {}: {} of {} saved regression inputs fail", id, tier.name(), failed, n);
            std::process::exit(1);
        }
    }
    let ctx = Ctx {
        tier,
        seed,
        threads,
        findings: Findings::load(&verif_root().join("known_findings.json")),
        survey,
        replay,
        start: Instant::now(),
        base,
        profile: profile_name(),
    };
    // a panic of the machinery itself (outside the guarded calls into the emulator) is exit 2, never a verdict
    let r = std::panic::catch_unwind(std::panic::AssertUnwindSafe(|| {
        if ctx.replay.is_some() {
            // a replay is judged at every log level a case may have been generated with; the first failing one decides
            let mut r = None;
            for level in [3u8, 5, 0, 4, 2] {
                h8verif::engine::logctl::freeze(level);
                r = h8verif::checks::dispatch(&id, &ctx);
                if r != Some(0) {
                    break;
                }
            }
            r
        } else {
            h8verif::checks::dispatch(&id, &ctx)
        }
    }));
    let r = match r {
        Ok(r) => r,
        Err(_) => {
            eprintln!("HARNESS ERROR: {} did not complete (see above); this is not a verdict about the property", id);
            std::process::exit(2);
        }
    };
    match r {
        Some(code) => std::process::exit(code),
        None => {
            eprintln!("unknown property {}", id);
            std::process::exit(2);
        }
    }
}
