//! Generators. All randomness comes from proptest: a case is a pure function of a vector of raw
//! 32-bit draws ("entropy"), read sequentially by `Ent`. Index choices are mapped monotonically so
//! that shrinking the raw draws towards zero shrinks the case.

use crate::refmodel::exec::{BusCfg, MASK24};
use crate::refmodel::insn::*;
use proptest::prelude::*;

pub const RAM_LO: u32 = 0xffbf20;
pub const RAM_HI: u32 = 0xffff1f;
pub const DRAM_LO: u32 = 0x400000;
pub const DRAM_HI: u32 = 0x5fffff;
pub const VEC_LO: u32 = 0x000000;
pub const VEC_HI: u32 = 0x0000ff;
pub const LOAD_BASE: u32 = 0x416900;

pub const ENT_LEN: usize = 64;

pub fn entropy() -> impl Strategy<Value = Vec<u32>> {
    proptest::collection::vec(any::<u32>(), ENT_LEN..=ENT_LEN)
}
/// a longer draw vector for programs / histories
pub fn entropy_n(n: usize) -> impl Strategy<Value = Vec<u32>> {
    proptest::collection::vec(any::<u32>(), n..=n)
}

pub const B32: [u32; 44] = [
    0,
    1,
    2,
    3,
    4,
    7,
    8,
    0xf,
    0x10,
    0x7f,
    0x80,
    0x81,
    0xfe,
    0xff,
    0x100,
    0xfff,
    0x1000,
    0x7fff,
    0x8000,
    0x8001,
    0xfffe,
    0xffff,
    0x10000,
    0xfffff,
    0x7fffff,
    0x800000,
    0xffffff,
    0x1000000,
    0x0fffffff,
    0x10000000,
    0x7ffffffe,
    0x7fffffff,
    0x80000000,
    0x80000001,
    0xfffffffc,
    0xfffffffe,
    0xffffffff,
    0x55555555,
    0xaaaaaaaa,
    0x0f0f0f0f,
    0xf0f0f0f0,
    0x00ff00ff,
    0xff00ff00,
    0x12345678,
];

#[derive(Clone, Copy, Debug, PartialEq, Eq, Hash)]
pub enum Region {
    Ram,
    Dram,
    Vector,
}
impl Region {
    pub fn bounds(self) -> (u32, u32) {
        match self {
            Region::Ram => (RAM_LO, RAM_HI),
            Region::Dram => (DRAM_LO, DRAM_HI),
            Region::Vector => (VEC_LO, VEC_HI),
        }
    }
    pub fn of(addr: u32) -> Option<Region> {
        let a = addr & MASK24;
        [Region::Ram, Region::Dram, Region::Vector].into_iter().find(|r| {
            let (lo, hi) = r.bounds();
            a >= lo && a <= hi
        })
    }
}

pub struct Ent<'a> {
    v: &'a [u32],
    i: usize,
}

impl<'a> Ent<'a> {
    pub fn new(v: &'a [u32]) -> Ent<'a> {
        Ent { v, i: 0 }
    }
    pub fn u32(&mut self) -> u32 {
        let x = if self.i < self.v.len() { self.v[self.i] } else { 0 };
        self.i += 1;
        x
    }
    /// number of draws consumed so far (generators assert they stay within the vector)
    pub fn used(&self) -> usize {
        self.i
    }
    pub fn exhausted(&self) -> bool {
        self.i > self.v.len()
    }
    /// monotone map to 0..n
    pub fn below(&mut self, n: u32) -> u32 {
        ((self.u32() as u64 * n as u64) >> 32) as u32
    }
    pub fn chance(&mut self, num: u32, den: u32) -> bool {
        self.below(den) >= den - num
    }
    pub fn pick<T: Copy>(&mut self, xs: &[T]) -> T {
        xs[self.below(xs.len() as u32) as usize]
    }
    pub fn u8(&mut self) -> u8 {
        (self.u32() >> 24) as u8
    }
    pub fn u16(&mut self) -> u16 {
        (self.u32() >> 16) as u16
    }
    /// 32-bit value mixture: boundary values, boundary +/- small, single bits, uniform
    pub fn val32(&mut self) -> u32 {
        match self.below(12) {
            8 => {
                // a run of ones (bit field mask) or its complement
                let len = 1 + self.below(31);
                let pos = self.below(33 - len);
                let m = (((1u64 << len) - 1) as u32) << pos;
                if self.chance(1, 2) { m } else { !m }
            }
            9 => {
                // repeated patterns: all bytes equal, both halves equal, byte-swapped halves
                let x = self.u32();
                match self.below(4) {
                    0 => (x & 0xff) * 0x0101_0101,
                    1 => (x & 0xffff) * 0x0001_0001,
                    2 => (x & 0xffff) << 16 | (x & 0xffff).swap_bytes() >> 16,
                    _ => (x & 0xffff) << 16 | (!x & 0xffff),
                }
            }
            10 => {
                // one half (or one byte) at a boundary, the rest random: carries between the parts
                let x = self.u32();
                let h = self.pick(&[0u32, 1, 0x7fff, 0x8000, 0xffff, 0xfffe, 0x00ff, 0xff00, 0x0100]);
                match self.below(4) {
                    0 => (x & 0xffff_0000) | h,
                    1 => (x & 0x0000_ffff) | (h << 16),
                    2 => (x & 0xffff_ff00) | (h & 0xff),
                    _ => (x & 0x00ff_ffff) | ((h & 0xff) << 24),
                }
            }
            11 => {
                // sparse / dense bit populations
                let (x, y) = (self.u32(), self.u32());
                match self.below(4) {
                    0 => x & y,
                    1 => x | y,
                    2 => x & y & x.rotate_left(7),
                    _ => x | y | x.rotate_left(7),
                }
            }
            0 | 1 => self.pick(&B32),
            2 => {
                let b = self.pick(&B32);
                let d = self.below(5) as i32 - 2;
                b.wrapping_add(d as u32)
            }
            3 => 1u32 << self.below(32),
            4 => !(1u32 << self.below(32)),
            _ => self.u32(),
        }
    }
    pub fn val(&mut self, sz: Sz) -> u32 {
        match sz {
            Sz::L => self.val32(),
            Sz::W => match self.below(4) {
                0 => self.pick(&[0u32, 1, 2, 0xf, 0x10, 0x7f, 0x80, 0xff, 0x100, 0xfff, 0x1000, 0x7ffe, 0x7fff, 0x8000, 0x8001, 0xfffe, 0xffff, 0x5555, 0xaaaa]),
                1 => 1u32 << self.below(16),
                _ => self.u16() as u32,
            },
            Sz::B => self.u8() as u32,
        }
    }
    pub fn regfile(&mut self) -> [u32; 8] {
        let mut r = [0u32; 8];
        for x in r.iter_mut() {
            *x = self.val32();
        }
        r
    }
    pub fn upper_byte(&mut self) -> u32 {
        match self.below(4) {
            0 | 1 => 0,
            2 => self.pick(&[0x01u32, 0x12, 0x7f, 0x80, 0xff, 0xfe, 0x40]) << 24,
            _ => (self.u8() as u32) << 24,
        }
    }
    pub fn region(&mut self, allowed: &[Region]) -> Region {
        // RAM and DRAM weighted equally, vector area less often
        let mut pool: Vec<Region> = Vec::new();
        for r in allowed {
            let w = match r {
                Region::Vector => 1,
                _ => 4,
            };
            for _ in 0..w {
                pool.push(*r);
            }
        }
        self.pick(&pool)
    }
    /// an address of an operand of `size` bytes (aligned to `align`) completely inside `region`,
    /// weighted towards the region's first and last bytes
    pub fn addr_in(&mut self, region: Region, size: u32, align: u32) -> u32 {
        let (lo, hi) = region.bounds();
        let last = (hi + 1 - size) & !(align - 1);
        let first = (lo + align - 1) & !(align - 1);
        let a = match self.below(11) {
            0 | 1 => first,
            2 | 3 => last,
            4 => first + align * self.below(8),
            5 => last - align * self.below(8),
            6 => {
                // carry boundaries of the address arithmetic inside the region: low 8/12/16/20 bits zero,
                // +/- a few bytes (pointer updates and multi-byte accesses cross them)
                let span = (last - first) / align + 1;
                let r = first + align * self.below(span);
                let bits = self.pick(&[8u32, 12, 16, 16, 20]);
                let b = r & !((1u32 << bits) - 1);
                let d = self.pick(&[0i64, 0, -1, 1, -2, 2, -4, 4, -(size as i64), size as i64]);
                let x = (b as i64 + d).clamp(first as i64, last as i64) as u32;
                x & !(align - 1)
            }
            _ => {
                let span = (last - first) / align + 1;
                first + align * self.below(span)
            }
        };
        a.clamp(first, last)
    }
    pub fn data_addr(&mut self, allowed: &[Region], size: u32, align: u32) -> u32 {
        let r = self.region(allowed);
        self.addr_in(r, size, align)
    }
    /// code address (even) with `len` bytes + 2 spare inside RAM or DRAM, at least 48 bytes away from
    /// every address in `avoid`
    pub fn code_addr(&mut self, len: u32, avoid: &[u32]) -> u32 {
        let region = if self.chance(1, 2) { Region::Ram } else { Region::Dram };
        let (lo, hi) = region.bounds();
        let mut a = match self.below(8) {
            0 => lo,
            1 => (hi + 1 - len) & !1,
            2 => {
                if region == Region::Dram {
                    LOAD_BASE + 2 * self.below(0x1000)
                } else {
                    0xffcf20
                }
            }
            _ => {
                let span = (hi + 1 - len - lo) / 2;
                lo + 2 * self.below(span)
            }
        };
        let clash = |a: u32| avoid.iter().any(|&x| {
            let x = x & MASK24;
            a < x.saturating_add(48) && x < a.saturating_add(len + 48)
        });
        let mut tries = 0;
        while clash(a) && tries < 64 {
            a = a.wrapping_add(0x100);
            if a + len > hi + 1 || a < lo {
                a = lo + 0x200 + 0x100 * tries;
            }
            tries += 1;
        }
        a
    }
    /// an even address that can be a branch / vector target: RAM, DRAM and (less often) the vector area,
    /// including address 0 (a vector whose low 24 bits are zero is a legitimate value)
    pub fn jump_target(&mut self) -> u32 {
        match self.below(10) {
            0 => self.pick(&[0x000000u32, 0x000002, 0x0000fe, 0x000004, 0x000080]),
            1 => 2 * self.below(0x80),
            _ => self.data_addr(&[Region::Ram, Region::Dram], 2, 2),
        }
    }
    /// "Environment noise": values in on-chip I/O registers that no listed property gives a meaning to (not the
    /// bus controller, not the ports, not the 8-bit timers). The reference treats them as plain storage; an
    /// implementation whose instruction semantics or exception entry secretly depends on one of them shows up
    /// as a mismatch. One case in three gets one or two such bytes.
    pub fn env_noise(&mut self) -> Vec<(u32, Vec<u8>)> {
        let mut out = vec![];
        if !self.chance(1, 3) {
            return out;
        }
        // now and then the 8-bit timer is "armed but stopped": enable bits and a counter-clear source in TCR with no
        // clock selected (so nothing ever counts), flags standing in TCSR. Instruction semantics, exception entry and
        // charges have nothing to do with it - the registers must come out as they went in.
        if self.chance(1, 4) {
            let tcr = self.u8() & 0xf8;
            let tcsr = (self.pick(&[0xe0u8, 0x40, 0x80, 0x20, 0xc0, 0x00]) | (self.u8() & 0x1f)) as u8;
            out.push((0xffff80, vec![tcr]));
            out.push((0xffff82, vec![tcsr]));
            return out;
        }
        for _ in 0..1 + self.below(2) {
            let a = loop {
                let a = if self.chance(1, 2) { 0xfee000 + self.below(0x100) } else { 0xffff20 + self.below(0xca) };
                let reserved = matches!(a, 0xfee000..=0xfee00a | 0xfee020..=0xfee027 | 0xffff80..=0xffff99 | 0xffffd0..=0xffffda);
                if !reserved {
                    break a;
                }
            };
            let v = match self.below(3) {
                0 => 1u8 << self.below(8),
                1 => 0xff,
                _ => self.u8(),
            };
            out.push((a, vec![v]));
        }
        out
    }
    pub fn bus_cfg(&mut self) -> BusCfg {
        match self.below(6) {
            0 => BusCfg::RUN_DEFAULT,
            1 => BusCfg::ZERO,
            2 | 3 => {
                // a common setting with exactly one register changed: consecutive cases on one emulator then
                // differ by a single-register transition (only changed registers are rewritten)
                let mut c = if self.chance(1, 2) { BusCfg::RUN_DEFAULT } else { BusCfg::ZERO };
                let v = if self.chance(1, 2) { self.u8() } else { 1u8 << self.below(8) };
                match self.below(5) {
                    0 => c.abwcr ^= v,
                    1 => c.astcr ^= v,
                    2 => c.wcrh ^= v,
                    3 => c.wcrl ^= v,
                    _ => c.drcra = (c.drcra ^ 0x20) | (v & 0x1f),
                }
                c
            }
            _ => BusCfg { abwcr: self.u8(), astcr: self.u8(), wcrh: self.u8(), wcrl: self.u8(), drcra: (self.below(2) as u8) << 5 },
        }
    }
}

/// Solve for the base register value such that `ea` (with the given mode) is the effective address.
/// Returns the addressing mode and the register's low 24 bits.
pub fn reg_for_ea(ea_kind: &Ea, target: u32, sz: Sz) -> u32 {
    let t = target & MASK24;
    match *ea_kind {
        Ea::Ind(_) => t,
        Ea::D16(_, d) => t.wrapping_sub((d as i16) as i32 as u32) & MASK24,
        Ea::D24(_, d) => {
            let d = if d & 0x80_0000 != 0 { d | 0xff00_0000 } else { d & MASK24 };
            t.wrapping_sub(d) & MASK24
        }
        Ea::Post(_) => t,
        Ea::Pre(_) => t.wrapping_add(sz.bytes()) & MASK24,
        _ => 0,
    }
}

pub fn value_class(sz: Sz, v: u32) -> &'static str {
    let v = v & sz.mask();
    if v == 0 {
        "zero"
    } else if v == sz.mask() {
        "ones"
    } else if v == sz.msb() {
        "min"
    } else if v & sz.msb() != 0 {
        "neg"
    } else {
        "pos"
    }
}

pub fn region_class(addr: u32, size: u32) -> String {
    match Region::of(addr) {
        None => "other".into(),
        Some(r) => {
            let (lo, hi) = r.bounds();
            let a = addr & MASK24;
            let pos = if a < lo + 8 {
                "first"
            } else if a + size + 8 > hi + 1 {
                "last"
            } else {
                "mid"
            };
            format!("{:?}/{}", r, pos)
        }
    }
}
