#![no_main]
use libfuzzer_sys::fuzz_target;

fuzz_target!(|data: &[u8]| {
    if let Err(m) = h8verif::fuzzapi::timer(data) {
        eprintln!("PROPERTY VIOLATION: {}", m);
        std::process::abort();
    }
});
