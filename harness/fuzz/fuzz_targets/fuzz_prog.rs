#![no_main]
use libfuzzer_sys::fuzz_target;

fuzz_target!(|data: &[u8]| {
    h8verif::fuzzapi::quiet_forever();
    if let Err(m) = h8verif::fuzzapi::prog(data) {
        eprintln!("PROPERTY VIOLATION: {}", m);
        std::process::abort();
    }
});
