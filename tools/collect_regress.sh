#!/bin/sh
# Re-evaluates every stored seed against the checks that caught it (isolated copy, /repo untouched) and keeps the
# shrunk failing inputs as /verif/corpus/regress/<check>/<seed>.json (the seconds-long replay tier).
cd /verif
for d in seeded/*/; do
  sid=$(basename $d)
  [ -f $d/patch.diff ] || continue
  checks=$(python3 -c "import json;m=json.load(open('$d/meta.json'));print(' '.join(m.get('caught_by') or [m['property']]))")
  [ -n "$checks" ] || continue
  prop=$(echo $checks | cut -d' ' -f1); rest=$(echo $checks | cut -s -d' ' -f2-)
  SKIP_CONFIRM=1 python3 tools/seed_eval.py /verif/$d $sid $prop $rest 2>&1 | grep -E "check|stored" | cut -c1-160
done
