#!/usr/bin/env python3
"""seed_eval.py <src_dir> <seed_id> <property> [more checks...]
The checks run from an isolated copy of /verif (/tmp/verif_eval, own build output) against the scratch worktree with
the patch applied (H8VERIF_REPO), so that /repo itself - which background runs also build from - is never touched.
Confirms a seeded change produced by a sub-agent in a scratch worktree (/tmp/wt/confirm):
  patch.diff alone  -> existing suite passes (226)
  patch + demo      -> the demo test fails
  demo alone        -> everything passes
then applies patch.diff to /repo (git apply), runs the given quick checks, undoes it (git checkout -- .),
and stores the seed under /verif/seeded/<seed_id>/ with meta.json."""
import fcntl, json, os, re, shutil, subprocess, sys, time
_lock = open('/tmp/wt/seed_eval.lock', 'w')
fcntl.flock(_lock, fcntl.LOCK_EX)   # one evaluation at a time (shared scratch worktree and build copy)
src, sid, prop = sys.argv[1], sys.argv[2], sys.argv[3]
checks = [prop] + sys.argv[4:]
WT = '/tmp/wt/confirm'
def sh(cmd, cwd=None, timeout=3000):
    return subprocess.run(cmd, shell=True, cwd=cwd, capture_output=True, text=True, timeout=timeout)
if not os.path.isdir(WT):
    sh('git -C /repo worktree add -q --detach %s HEAD' % WT)
sh('git checkout -q --detach $(git -C /repo rev-parse HEAD) && git checkout -- . && git clean -fdq -e target', cwd=WT)
def tests(label):
    r = sh('cargo test --offline --no-fail-fast 2>&1 | grep -E "^test result|FAILED|failed" | head -12', cwd=WT)
    ms = re.findall(r'(\d+) passed; (\d+) failed', r.stdout)
    return (sum(int(a) for a, _ in ms), sum(int(b) for _, b in ms)) if ms else (None, r.stdout[-300:])
conf = {}
patch, demo = os.path.join(src, 'patch.diff'), os.path.join(src, 'demo.diff')
SKIP = os.environ.get('SKIP_CONFIRM') == '1'   # re-evaluation of a seed that was confirmed before
old_meta = {}
if os.path.exists('/verif/seeded/%s/meta.json' % sid):
    old_meta = json.load(open('/verif/seeded/%s/meta.json' % sid))
a = sh('git apply %s' % patch, cwd=WT)
if a.returncode != 0:
    print('patch does not apply:', a.stderr[:300]); sys.exit(1)
if SKIP and old_meta.get('confirmed', {}).get('ok'):
    sh('git checkout -- . && git clean -fdq -e target', cwd=WT)
    c0 = old_meta['confirmed']
    conf = {'patch_only': tuple(c0.get('patch_only_tests', (226, 0))), 'patch_plus_demo': tuple(c0.get('patch_plus_demo_tests', (226, 1))), 'demo_only': tuple(c0.get('demo_only_tests', (227, 0)))}
else:
    conf['patch_only'] = tests('patch')
    b = sh('git apply %s' % demo, cwd=WT)
    conf['patch_plus_demo'] = tests('both') if b.returncode == 0 else ('demo does not apply', b.stderr[:200])
    sh('git checkout -- . && git clean -fdq -e target', cwd=WT)
    sh('git apply %s' % demo, cwd=WT)
    conf['demo_only'] = tests('demo')
    sh('git checkout -- . && git clean -fdq -e target', cwd=WT)
ok = conf['patch_only'][1] == 0 and conf['patch_only'][0] >= 226 and isinstance(conf['patch_plus_demo'][1], int) and conf['patch_plus_demo'][1] >= 1 and conf['demo_only'][1] == 0
print('confirmation:', conf, 'OK' if ok else 'NOT CONFIRMED')
results = {}
EV = '/tmp/verif_eval'
if ok:
    sh('mkdir -p %s && rsync -a --delete --exclude target --exclude replays --exclude .git /verif/ %s/' % (EV, EV))
    sh('git apply %s' % patch, cwd=WT)
    try:
        for c in checks:
            t0 = time.time()
            p = sh('H8VERIF_REPO=%s %s/check %s --tier quick' % (WT, EV, c), timeout=3000)
            lines = [l.strip() for l in p.stdout.splitlines() if l.startswith('VIOLATION') or l.strip().startswith('what:') or l.strip().startswith('detail:')]
            results[c] = {'exit': p.returncode, 'seconds': round(time.time() - t0), 'report': lines[:3]}
            print(' check', c, '-> exit', p.returncode, lines[1][:150] if len(lines) > 1 else '')
            # keep the (shrunk) failing input as a regression replay for the seconds-long tier
            if p.returncode == 1 and lines:
                m = re.search(r'replay=(\S+)', lines[0])
                if m and os.path.exists(m.group(1)):
                    d = '/verif/corpus/regress/%s' % c
                    os.makedirs(d, exist_ok=True)
                    shutil.copy(m.group(1), os.path.join(d, '%s.json' % sid))
    finally:
        sh('git checkout -- . && git clean -fdq -e target', cwd=WT)
dst = '/verif/seeded/%s' % sid
os.makedirs(dst, exist_ok=True)
for f in ['patch.diff', 'demo.diff', 'notes.md']:
    if os.path.exists(os.path.join(src, f)) and os.path.abspath(src) != os.path.abspath(dst):
        shutil.copy(os.path.join(src, f), dst)
notes = open(os.path.join(src, 'notes.md')).read() if os.path.exists(os.path.join(src, 'notes.md')) else ''
meta = {'property': prop, 'origin': 'independent sub-agent given only the property text and a scratch worktree',
        'needs_to_manifest': notes[:1200],
        'confirmed': {'patch_only_tests': conf['patch_only'], 'patch_plus_demo_tests': conf['patch_plus_demo'], 'demo_only_tests': conf['demo_only'], 'ok': ok,
                      'how': 'scratch worktree /tmp/wt/confirm at /repo HEAD: git apply patch.diff; cargo test --offline; git apply demo.diff; cargo test --offline; revert; demo.diff alone; cargo test --offline; the checks run from a copy of /verif with H8VERIF_REPO pointing at the patched worktree'},
        'checks_run': results,
        'caught_by': [c for c, r in results.items() if r['exit'] == 1],
        'repo_head': sh('git -C /repo rev-parse --short HEAD').stdout.strip()}
if SKIP and old_meta:
    # keep the record of the first evaluation; add what was run now
    old_meta.setdefault('checks_run', {}).update(results)
    old_meta['caught_by'] = sorted(set(old_meta.get('caught_by', [])) | set(meta['caught_by']))
    meta = old_meta
elif 'history' in old_meta:
    meta['history'] = old_meta['history']
json.dump(meta, open(os.path.join(dst, 'meta.json'), 'w'), indent=1)
print('stored', dst, 'caught_by', meta['caught_by'])
