#!/bin/sh
# confirm a seed whose demonstration is a script (out/1/demo.sh): HEAD -> 0, patch -> tests pass and demo non-zero
# usage: tools/confirm_sh_seed.sh /verif/seeded/<id>
S="$1"
exec flock /tmp/wt/seed_eval.lock sh -c '
cd /tmp/wt/confirm && git checkout -q --detach $(git -C /repo rev-parse HEAD) && git checkout -- . && git clean -fdq -e target
mkdir -p out/1 && cp '"$S"'/demo.* out/1/ && chmod +x out/1/demo.sh
sh out/1/demo.sh >/tmp/q/demo_head.log 2>&1; echo "HEAD demo exit $?"
git apply '"$S"'/patch.diff || exit 3
cargo test --offline 2>&1 | grep "^test result" | head -2
sh out/1/demo.sh >/tmp/q/demo_patch.log 2>&1; echo "patched demo exit $?"
git checkout -- . ; rm -rf out; tail -2 /tmp/q/demo_patch.log | cut -c1-200'
