#!/usr/bin/env python3
"""mutants.py <n> <seed> [minutes] [file regex]
A small mutation campaign as a sensitivity measurement of the checks (complements the hand-made and agent-made changes
under /verif/seeded): one-token changes of the emulator's non-test code (operator swaps, off-by-one constants, a dropped
statement) are applied in a scratch worktree (/tmp/wt/mut); a mutant that still compiles and passes the 226 tests is
handed to the quick tiers of the checks its file is relevant to (from a copy of /verif, /tmp/verif_mut, with H8VERIF_REPO
pointing at the worktree - /repo itself is never touched).  Every mutant's fate goes to /verif/mutants/log.jsonl:
  not-compiling | killed-by-tests | caught (first check that reported it) | SURVIVED (equivalent, or a gap: read it).
The choice of mutants is a pure function of <seed>."""
import json, os, random, re, subprocess, sys, time, glob

N, SEED = int(sys.argv[1]), int(sys.argv[2])
BUDGET = float(sys.argv[3]) * 60 if len(sys.argv) > 3 else 1e9
WT, EV, LOG = '/tmp/wt/mut', '/tmp/verif_mut', '/verif/mutants/log.jsonl'
os.makedirs('/verif/mutants', exist_ok=True)
T0 = time.time()


def sh(cmd, cwd=None, timeout=3000):
    try:
        return subprocess.run(cmd, shell=True, cwd=cwd, capture_output=True, text=True, timeout=timeout)
    except subprocess.TimeoutExpired:
        class R: returncode, stdout, stderr = 124, '', 'timeout'
        return R()


if not os.path.isdir(WT):
    sh('git -C /repo worktree add -q --detach %s HEAD' % WT)
sh('git checkout -q --detach $(git -C /repo rev-parse HEAD) && git checkout -- . && git clean -fdq -e target', cwd=WT)
sh('mkdir -p %s && rsync -a --delete --exclude target --exclude replays --exclude .git --exclude mutants /verif/ %s/' % (EV, EV))

FAM = {
    'C01': ['mov_b', 'mov_w', 'mov_l'],
    'C02': ['add_b', 'add_w', 'add_l', 'addx', 'adds', 'subs', 'sub_b', 'sub_w', 'sub_l', 'cmp_b', 'cmp_w', 'cmp_l', 'inc', 'dec', 'neg', 'mulxu', 'divxu', 'extu'],
    'C03': ['and', 'or', 'xor', 'not', 'shll', 'shlr', 'shal', 'shar', 'rotl', 'rotr', 'rotxl', 'rotxr'],
    'C04': ['bld', 'bild', 'bist', 'bst', 'biand', 'band', 'bior', 'bixor', 'bor', 'bxor', 'bset', 'bclr', 'bnot', 'btst'],
    'C05': ['jmp', 'jsr', 'bsr', 'rts', 'bcc'],
    'C06': ['trapa', 'rte'],
    'C08': ['stc'],
}


def checks_for(path):
    b = os.path.basename(path)[:-3]
    if '/cpu/instruction/' in path:
        for c, names in FAM.items():
            if b in names:
                extra = {'C01': ['C08', 'C09'], 'C06': ['C14', 'C10'], 'C05': ['C06'], 'C08': ['C07']}.get(c, [])
                return [c] + extra + ['C07', 'C20', 'C15']
        return ['C07', 'C20', 'C15']
    if '/cpu/addressing_mode/' in path:
        return ['C01', 'C08', 'C04', 'C09', 'C05', 'C20', 'C15']
    if path.endswith('cpu/instruction.rs'):
        return ['C07', 'C02', 'C03', 'C08', 'C20', 'C15']
    if path.endswith('bus.rs') or path.endswith('memory.rs'):
        return ['C09', 'C19', 'C20', 'C16', 'C01', 'C17', 'C15']
    if path.endswith('timer8.rs') or path.endswith('modules.rs'):
        return ['C17', 'C10', 'C13', 'C15']
    if path.endswith('interrupt_controller.rs'):
        return ['C10', 'C06', 'C17', 'C13']
    if path.endswith('ioport.rs'):
        return ['C16', 'C18', 'C13']
    if '/elf' in path:
        return ['C11', 'C12', 'C13']
    if path.endswith('messages.rs') or path.endswith('socket.rs'):
        return ['C18', 'C13', 'C16', 'C15']
    if path.endswith('cpu.rs'):
        return ['C13', 'C18', 'C20', 'C19', 'C06', 'C10', 'C05', 'C08', 'C07', 'C15', 'C14']
    return ['C13', 'C15']


SWAPS = [(' + ', ' - '), (' - ', ' + '), (' < ', ' <= '), (' <= ', ' < '), (' > ', ' >= '), (' >= ', ' > '), (' == ', ' != '), (' != ', ' == '),
         (' & ', ' | '), (' | ', ' & '), (' && ', ' || '), (' || ', ' && '), (' << ', ' >> '), (' >> ', ' << '), ('true', 'false'), ('false', 'true'),
         ('wrapping_add', 'wrapping_sub'), ('wrapping_sub', 'wrapping_add'), (' ^ ', ' | '), ('!(', '('), (' as u8', ' as u16'), ('..=', '..'),
         ('|= ', '&= '), ('&= ', '|= '), ('+= ', '-= '), ('-= ', '+= ')]
NUM = re.compile(r'(?<![\w.])(0x[0-9a-fA-F_]+|\d+)(?![\w.])')


def sites(path):
    """(line index, description, new line) for every applicable one-token change of the file's non-test code"""
    lines = open(path).read().split('\n')
    end = len(lines)
    for i, l in enumerate(lines):
        if re.match(r'\s*mod tests\b', l) or (l.strip() == '#[cfg(test)]' and i + 1 < len(lines) and 'mod ' in lines[i + 1]):
            end = i
            break
    out = []
    hook = False
    block = False
    for i in range(end):
        l = lines[i]
        s = l.strip()
        if '/*' in l and '*/' not in l:
            block = True
        if block:
            if '*/' in l:
                block = False
            continue
        if 'koge29_verif' in l:
            hook = True      # a hook item follows: skip until the next blank line
        if hook:
            if s == '':
                hook = False
            continue
        if not s or s.startswith('//') or s.startswith('#[') or s.startswith('use ') or 'log::' in l or 'print' in l or 'panic!' in l or 'bail!' in l or 'format!' in l or 'anyhow!' in l:
            continue
        code = l.split('//')[0]
        for a, b in SWAPS:
            for m in re.finditer(re.escape(a), code):
                out.append((i, '%r -> %r' % (a.strip(), b.strip()), l[:m.start()] + b + l[m.end():]))
        for m in NUM.finditer(code):
            t = m.group(1)
            try:
                v = int(t.replace('_', ''), 16 if t.startswith('0x') else 10)
            except ValueError:
                continue
            for nv in ([v + 1, v - 1] if v > 0 else [1]):
                nt = ('0x%x' % nv) if t.startswith('0x') else str(nv)
                out.append((i, '%s -> %s' % (t, nt), l[:m.start(1)] + nt + l[m.end(1):]))
        if s.endswith(';') and not s.startswith('let ') and not s.startswith('return') and not s.startswith('pub ') and not s.startswith('const ') and '{' not in s and '}' not in s:
            out.append((i, 'statement dropped', re.match(r'\s*', l).group(0) + '// ' + s[:0]))
    return lines, out


files = [f for f in glob.glob(WT + '/src/**/*.rs', recursive=True) if not f.endswith(('testhelper.rs', 'verif_hooks.rs', 'main.rs', 'setting.rs', 'registers.rs'))]
if len(sys.argv) > 4:
    files = [f for f in files if re.search(sys.argv[4], f)]
files.sort()
rng = random.Random(SEED)
# weight per file: sqrt of its number of sites, so that the big mov files do not take everything
allsites = {f: sites(f) for f in files}
weights = [max(1.0, len(allsites[f][1]) ** 0.5) for f in files]
done = 0
k = 0
while done < N and time.time() - T0 < BUDGET:
    k += 1
    f = rng.choices(files, weights)[0]
    lines, ss = allsites[f]
    if not ss:
        continue
    i, what, newline = rng.choice(ss)
    rel = os.path.relpath(f, WT)
    rec = {'n': k, 'seed': SEED, 'file': rel, 'line': i + 1, 'change': what, 'old': lines[i].strip(), 'new': newline.strip()}
    mutated = lines[:]
    mutated[i] = newline
    open(f, 'w').write('\n'.join(mutated))
    try:
        b = sh('cargo build --offline 2>&1 | tail -3', cwd=WT)
        if 'error' in b.stdout or 'could not compile' in b.stdout:
            rec['fate'] = 'not-compiling'
            continue
        t = sh('cargo test --offline --no-fail-fast 2>&1 | grep -E "^test result|could not compile"', cwd=WT, timeout=1200)
        ms = re.findall(r'(\d+) passed; (\d+) failed', t.stdout)
        passed, failed = (sum(int(a) for a, _ in ms), sum(int(b) for _, b in ms)) if ms else (0, -1)
        if failed != 0 or passed < 226:
            rec['fate'] = 'killed-by-tests' if failed > 0 else 'not-compiling'
            rec['tests'] = [passed, failed]
            continue
        done += 1
        rec['patch'] = sh('git diff', cwd=WT).stdout
        rec['checks'] = {}
        rec['fate'] = 'SURVIVED'
        for c in checks_for(rel):
            t1 = time.time()
            p = sh('H8VERIF_REPO=%s %s/check %s --tier quick' % (WT, EV, c), timeout=2400)
            rep = [l.strip()[:200] for l in p.stdout.splitlines() if l.strip().startswith(('what:', 'detail:'))][:2]
            rec['checks'][c] = {'exit': p.returncode, 'seconds': round(time.time() - t1), 'report': rep}
            if p.returncode == 1:
                rec['fate'] = 'caught'
                rec['caught_by'] = c
                break
            if p.returncode != 0:
                rec['fate'] = 'inconclusive (exit %d)' % p.returncode
    finally:
        open(f, 'w').write('\n'.join(lines))
        with open(LOG, 'a') as g:
            g.write(json.dumps(rec) + '\n')
        print(rec['n'], rec['file'], rec['line'], rec['change'], '=>', rec.get('fate'), rec.get('caught_by', ''), flush=True)
sh('git checkout -- . && git clean -fdq -e target', cwd=WT)
