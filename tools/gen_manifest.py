#!/usr/bin/env python3
"""Regenerates /verif/MANIFEST.json from the table below (run after adding a check)."""
import json, subprocess, os
ROOT = os.path.dirname(os.path.dirname(os.path.abspath(__file__)))
hooks = subprocess.check_output(['git', '-C', '/repo', 'log', '--format=%H %s']).decode().splitlines()
hook_commits = [l.split()[0] for l in hooks if l.split(' ', 1)[1].startswith('verif hook:')]

STEP_NOTE = ("Trusted base: the harness's reference model (decode table, instruction semantics, cycle table), "
             "transcribed from the H8/300H programming manual from memory (no manual or second simulator is available offline) and "
             "cross-checked against the repository's unit-test expectations and example ELFs; rustc/proptest; the cfg-guarded accessor hooks. "
             "Search never establishes absence: finite sub-spaces named in the text are enumerated completely, the rest is sampled.")

CHECKS = {
 "C01": ("differential testing of single MOV steps against a reference model: enumerated form x register x CCR x data-value sub-spaces + proptest-generated product, full-state comparison",
         "Every MOV form is executed once per case on the real Cpu (fetch+exec through the hook) and on an independent reference model from the same generated pre-state; registers, CCR, PC and the whole guest memory (small regions completely, DRAM in windows around every touched/aliased address plus a whole-DRAM compare per shard) must agree. Register fields, all 256 CCR values and all 8-bit (thorough: 16-bit) data values are enumerated per form; addresses, displacements, upper bytes, code placement are generated. Exploration is the right level: the space is a huge product with a cheap exact oracle.", "2 C01"),
 "C02": ("differential testing against a reference model: exhaustive 8-bit (a,b,carry-in) triples per form, enumerated register pairs / CCR / 16-bit boundary pairs + proptest-generated product",
         "Arithmetic instructions are single-stepped on the real Cpu and compared with the reference model's result and H,N,Z,V,C (written from the manual's formulas) plus the complete rest of the state. 8-bit operand spaces are enumerated completely for every form; DIVXU operands are constructed inside the stated domain.", "2 C02"),
 "C03": ("differential testing against a reference model: exhaustive 8-bit operands and all 16-bit unary operands x carry-in, 32-bit bit-pattern set, enumerated registers / CCR + proptest-generated product",
         "Logic/shift/rotate instructions single-stepped and compared bit for bit (result, N,Z,V,C, untouched H,U,UI,I, all other state) with the reference model. The SHAL overflow rule deviates in the emulator and is locked by unit tests: recorded as an open known finding and matched through a quirk variant of the reference, so every other aspect of those cases is still checked.", "2 C03"),
 "C04": ("differential testing against a reference model: exhaustive (operand byte, bit number, C) per form, all operand / bit-number / address registers, all bit-number register values + proptest-generated placement",
         "All 14 bit instructions in all operand forms are single-stepped; the complete post-state is compared, so 'exactly the addressed bit / exactly that flag, nothing else' is decided by a full comparison rather than spot checks. The 4096-triple core is enumerated for each of the 54 forms.", "2 C04"),
 "C05": ("differential + history testing: complete Bcc truth table (16 conditions x 256 CCR x every even d:8 displacement), enumerated jump/call/return kinds x CCR x register, proptest-generated placements, generated call-tree programs in lockstep with a reference model and a shadow call stack",
         "Single steps of every branch/jump/call/return form are compared with the reference's full post-state; generated call-tree programs (BSR/JSR mixes, depth up to 8, SP with arbitrary upper byte, stacks in RAM and DRAM) run in lockstep with the reference while a shadow call stack checks that every RTS resumes right after its call with SP restored.", "2 C05"),
 "C06": ("differential + round-trip history testing: TRAPA #1-3 x all CCR, interrupt acceptance for vectors 1-63 x all CCR with I clear, RTE on crafted frames, proptest-generated nested entry/return histories with a shadow context stack",
         "Exception entry is exercised through TRAPA and through the real interrupt controller (request + the run loop's poll, via the hook); frames, SP, I, PC are compared with the reference and every entry;RTE pair must restore registers, CCR and PC exactly (round trip, independent of the reference's frame layout), to nesting depth 16.", "2 C06"),
 "C07": ("enumeration against an independent decode table: all 65,536 first words, all second words per multi-word prefix, third words of the d:24 forms, reserved bytes; three-way oracle (implemented -> executed exactly / valid-unimplemented -> error / undefined -> unconstrained)",
         "The decode table (exact encodings from the manual's instruction-code table) is the independent artefact; every first word and every second word after each multi-word prefix is executed on the real Cpu under generated register files and compared: implemented encodings must execute as that instruction with its length (full-state comparison), valid encodings of unimplemented instructions must return an error. The table itself is self-tested against the 289 encodings of the unit tests and the printf example's trace.", "2 C07"),
 "C08": ("differential + metamorphic testing on address-tagged memory: every memory-operand form x wrap classes x all 256 upper bytes, all @aa:8/@aa:16 values, every @@aa:8 vector; upper-byte invariance checked emulator-against-emulator",
         "Memory holds a hash of each byte's address, so which location an instruction accessed is observable; effective addresses are generated to cross 0 / 2^24 / 2^32 and to sit at region edges and in inaccessible holes. The reference computes the architectural EA; additionally the same case is re-run with another upper byte in the address register and both emulator runs must agree. STC.W CCR,@-ERd is an open known finding (unit test asserts the post-increment behaviour).", "2 C08"),
 "C09": ("exhaustive enumeration of all 2^24 addresses (classification + write/read-back under three address hashes) and model-based history testing of byte/word/long accesses through real MOV instructions",
         "The finite address map is enumerated completely through Bus::read/Bus::write (plus boundary/strided addresses to 2^32); aliasing is excluded by writing an address hash to every storage byte and reading all back; multi-byte composition and error behaviour at all ten region edges are checked by generated histories against a byte-map model.", "2 C09"),
 "C19": ("exhaustive enumeration of the per-area setting space against the cost rule of the statement, with sampled + one-bit-flip settings of all other areas for independence",
         "Every (area, width, access-state, wait field, DRAM select, kind, count, address position) tuple is evaluated through calc_state and calc_state_with_addr and compared with a 10-line transcription of the stated rule; each tuple is repeated under all-zero, all-one, random and one-bit-flipped settings of the other areas.", "2 C19"),
 "C20": ("differential testing of the returned state count against the manual's advanced-mode cycle table x cost rule, every instruction form x placement x bus settings constructed to make every area's cost distinct",
         "For every implemented form the charge returned by a single step must equal sum(count x cost(kind, address actually accessed)) with counts from an independently transcribed cycle table; settings are constructed so that on-chip RAM, area 0 and area 2 differ for byte and word cycles, otherwise a wrong kind/count/address is invisible (the reason the unit tests cannot see it).", "2 C20"),
 "C10": ("model-based history testing: proptest-generated guest programs (main + handlers) x injection schedules, driven in the run loop's poll/step order in lockstep with a reference model; pending-multiset invariant, exactly-once counters, metamorphic comparison with the interrupt-free run",
         "Programs with handlers that count their own invocations are run with up to 64 scheduled requests (bursts, requests while masked, nested handlers). Every entry must be legal (I clear, vector pending), every instruction equals the reference step, at the end nothing is pending and each handler ran exactly as often as requested, and the program's result equals the run without interrupts.", "2 C10"),
 "C11": ("round-trip / inverse testing: proptest-generated ELF32-BE specs rendered by the harness's builder (the inverse of the loader), loaded by the real elf::load, DRAM compared with the spec",
         "The generated spec is the expected image: segment bytes at base+vaddr, zeros where not file-backed, GOT words relocated exactly once, nothing outside the image. Layouts cover unordered/unaligned file offsets, interleaved non-load headers, shuffled sections, GOT anywhere in a file-backed extent, carries into the top byte.", "2 C11"),
 "C12": ("property testing of the loader's start environment on generated ELF layouts, stack sizes, symbol tables and argument strings; oracle = interval arithmetic on the observed pointers computed from the statement",
         "After elf::load the registers and the DRAM above the image are checked against the statement: ER2/ER5/ER7 relations, argc/argv with byte-exact NUL-terminated strings (words recovered by an independent splitter), all blocks inside DRAM above stack+TCB and pairwise disjoint, image intact, exit address from ___exit at any symbol index.", "2 C12"),
 "C13": ("differential testing of whole executions: the real Cpu::run() against the statement's accounting re-implemented over single steps, in lockstep with the reference model; repeated runs (also under CPU contention) must be byte-identical",
         "Generated ELF programs (delay loops around the sync thresholds, port writes, console output, timer with interrupt handler, slow-bus prologue, failing endings) are run through the real run loop with all messages captured; final registers, all memory regions (incl. timer/port registers = what peripherals saw), the cumulative state count and the exact message sequence must equal the stepped re-implementation of the statement; success iff no failing instruction; re-runs under host load are identical.", "2 C13"),
 "C14": ("differential testing of TRAPA #0 single steps against the reference (full state + emitted messages), generated call sequences in lockstep incl. set_handler followed by an interrupt, and comparison of the captured console stream",
         "Write calls with buffers/argument blocks anywhere in RAM/DRAM, lengths 0-4096 and adversarial valid UTF-8 must emit exactly one stdout message with identical bytes and leave registers, CCR and memory unchanged; set_handler is tested for every vector number 0-255 and verified through a later interrupt of that vector; other call numbers must fail; the process's console is captured and compared with the concatenation of the buffers.", "2 C14"),
 "C15": ("fuzz-style generated-input search with a panic oracle (catch_unwind + panic hook) in two build profiles: adversarial single steps from every region edge, short programs and fuzzed control-line batches through the real run loop",
         "Any panic is a violation; Ok and Err are both acceptable. The harness is built twice (release; overflow-checks + debug-assertions) because several defects are panics in one arithmetic mode and silent wrap-around in the other; the verdict is the union. A logger at the binary's default level is installed so that log-argument arithmetic is evaluated as in the real program.", "2 C15"),
 "C16": ("bounded-exhaustive enumeration (all histories to depth 4-6 over a covering value set, per port) + proptest-generated long histories against the latch/direction/pins model of the statement, incl. writes by real instructions and control lines",
         "After every step DR of all 11 ports must read (L&D)|(P&~D), output changes must be announced by an ioport message with the right port, value and time stamp, and other ports must be unaffected. The depth-bounded space per port is enumerated completely.", "2 C16"),
 "C17": ("model-based history testing with an existential-phase tick model and a metamorphic partition relation (same elapsed time split differently)",
         "Histories of elapse steps and register writes run on the real timer (through the run loop's update_modules hook); a tick-by-tick reference keeps the set of phases 0 <= p < divisor that explain every observed TCNT/TCSR/interrupt multiset so far - an empty set is a violation (lost, gained or bunched ticks, residue carried across a clock change). Each history is re-run with a different partition of the same elapsed time and both must agree at every write.", "2 C17"),
 "C18": ("model-based testing of line sequences under three delivery schedules (one deterministic batch, trickle, random bursts) against a reference interpreter, plus round-trip testing of the outgoing framing over a real TCP connection",
         "Generated sequences of well-formed and malformed lines are delivered to a running guest; final memory cells, pin levels, DDR/DR and the sequence of announced output changes must equal the reference interpreter for every schedule, and the final cmd:stop must end the run (watchdog: a stop that is not acted on is a lost line). Over TCP the wire bytes must split into one line per emitted message and unescape to the original text.", "2 C18"),
}
NOTES = {
 "C09": "Trusted base: the five-interval predicate transcribed from the statement; rustc. Port DDR/DR are excluded (C16). Histories interleave instruction fetches (a read path too) with the loads and stores.",
 "C10": "Trusted base: reference model (as C01-C08), the guest-program generator (handlers must be race-free by construction), the cfg-guarded hooks for poll/step/request. The emulator has no real asynchrony, so injection points between instructions are the whole schedule space.",
 "C11": "Trusted base: the harness's ELF builder (the spec is the oracle); generated files are structurally valid by construction. Search, not proof.",
 "C12": "Trusted base: the ELF builder and the statement's arithmetic re-implemented in the check. Search, not proof.",
 "C13": "Also runs the repository's real release binary (built from the current tree) on a subset: exit status and the exact stdout stream of -m must equal the in-process run (covers src/main.rs). Some runs start at the last sync multiple below 2^32. Trusted base: the stepped re-implementation of the statement's accounting, the hooks, the reference model. 'Independent of host speed' is sampled under CPU contention, never proved; no wall-clock value is asserted.",
 "C14": "Trusted base: reference model of the two MES calls; the per-vector GOT save word and the installed entry's top byte are masked. Console capture redirects file descriptor 1 of the check process.",
 "C15": "Absence of panics is never established by search; the evidence lists what was exercised per class and profile. Aborts (stack overflow) would kill the check process: reported as exit 2.",
 "C16": "Trusted base: the three-field port model written from the statement. Extra messages repeating the current value are allowed.",
 "C17": "Trusted base: the tick model; both readings of 'cleared by the compare match' (same tick / next tick) are accepted; clock selections 4-7 are not generated.",
 "C18": "Also runs the real release binary over TCP (-s -w): every message of generated programs (a quarter end with a burst of port messages) must arrive before the connection closes; failures of the TCP rig itself are inconclusive (exit 2 from 8 on), never a verdict: loopback ports are leased (kernel-arbitrated, outside the ephemeral range, no trial listener; DESIGN.md section 11), and an emulator process that could not bind its port never had a connection - the run is repeated on another port. Trusted base: the reference interpreter of the line protocol (hex fields = non-empty strings of hex digits that fit). Thread interleavings of the socket workers are sampled by the OS; the one-batch schedule is deterministic.",
 "C19": "Trusted base: the 10-line cost function transcribed from the statement. Complete enumeration of the per-area tuple space; other areas' settings sampled + one-bit flips; plus a transition walk (one register changes at a time, registers written through Bus::write) for history-dependent costs.",
}

# round 2: what every run additionally contains (DESIGN.md section 10)
SOUP = " Plus instruction soups: 300,000 (quick) model-guided straight-line programs of 4-48 instructions of every form, run back to back in lockstep with the reference (state after every instruction, memory at the end), and primers: 1 case in 16 preceded by a failing step, 1 memory-operand case in 6 by a sibling encoding, on the same emulator. Saved failing inputs of seeded changes (corpus/regress) are re-judged first."
ENVDIM = " The log level, the loader's record of the exit address and the time base are generated dimensions of every case (an instruction's behaviour must not depend on them)."
ROUND2 = {
 "C01": SOUP + ENVDIM, "C02": SOUP + ENVDIM, "C03": SOUP + ENVDIM, "C04": SOUP + " Operands inside the instruction itself are a class." + ENVDIM, "C08": SOUP + ENVDIM,
 "C07": SOUP + " A form-balanced phase (2M cases from every family's structured builder) complements the uniform word enumeration; thorough: libFuzzer over raw instruction streams in lockstep (fuzz_prog)." + ENVDIM,
 "C20": SOUP + " In the soups every instruction's charge is compared - also with interrupts accepted between the instructions; thorough: fuzz_prog." + ENVDIM,
 "C05": " Primers as in C01-C04; saved failing inputs of seeded changes are re-judged first; one stack frame in eight at an odd address." + ENVDIM,
 "C06": " Histories also rewrite vector-table entries on the way (MES set_handler, guest stores); soups with interrupts raised between arbitrary instruction forms (each vector its own RTE stub); one stack frame in eight at an odd address." + ENVDIM,
 "C09": " Histories store and load through every addressing mode, place the instruction right next to the word it accesses, and interleave instruction fetches; all harness set-up writes go through Bus::write (guarded: a panicking store is a violation). Time passes inside the histories (timer counting, or quiet ticks with nothing written); plain locations that mirror owned registers are an address class.",
 "C10": " Bursts of 255-65537 requests; soups with interrupts raised between arbitrary instruction forms.",
 "C11": " GOT values related to the table, the load base and each other; string tables with shared tails.",
 "C12": " Symbol-table fields over their whole range (reserved section indices), string tables with shared tails and unreferenced strings.",
 "C13": " Re-runs suspended and resumed over the control channel from a second thread must give byte-identical results; timer events placed in the program's last instruction (request pending at the exit address); programs constructed so that one instruction crosses a sync threshold and completes a pacing period of the loop. The real binary runs with --log at the case's level.",
 "C14": " Newline-structure classes (a newline-free tail of 2^10-2^12 bytes behind the last newline) and texts up to 4096 bytes in the console sequences.",
 "C15": " The interrupt poll after each step keeps the step's flags and PC; lines over real TCP (early stops, over-long lines, non-UTF-8) with panics of the emulator's own threads counted; run()-level programs with the stack in on-chip register space, at region edges or unmapped while timer requests arrive; panics under the harness's own set-up stores are reported.",
 "C16": " Word stores over two ports' DRs and stray writes to aliases of the port registers (incl. the same offset in the other register block); the empty history on a fresh Cpu.",
 "C17": " Writes to the other channels' registers and to aliases; the re-partitioned run reaches the registers through guest instructions (every addressing mode); masked windows with acknowledgements on the way; the empty history on a fresh Cpu.",
 "C18": " TCP phase: ignored lines of 2^12-2^17 bytes whose tail reads like a command, lines that are not UTF-8; a loop that keeps emitting sync messages but acts on no line is reported as deaf (also when it never acts on the handshake line); real-binary runs with -m, -i and --log <level> varied.",
 "C19": " Transition walk with silent bursts of 255-65537 register writes and stray writes to aliases; both neighbours of every excluded address block; the rest of the machine (other registers, pin levels) changes on the way and no cost may follow; costs at power-on follow what the settings registers read.",
}
ALL = ["C%02d" % i for i in range(1, 21)]
manifest = {
  "version": 1,
  "setup_cmd": "./check --setup",
  "hooks": {
    "guard": "--cfg koge29_verif",
    "enable": "the harness crate /verif/harness compiles /repo/src/* (symlinked by its build.rs) as its own modules and its build.rs emits cargo:rustc-cfg=koge29_verif; the repository's own Cargo build never sets the cfg",
    "baseline_off_cmd": "cd /repo && cargo test --workspace --no-fail-fast --offline",
    "source_commits": hook_commits,
    "add_only": True,
  },
  "engines": [
    {"name": "h8verif", "path": "harness", "serves_properties": sorted(CHECKS.keys()),
     "kind_free_text": "Rust crate: the emulator's sources compiled from /repo's working tree + independent reference model + proptest-driven generators (enumeration for finite sub-spaces) + replay; cargo-fuzz targets under harness/fuzz for the thorough tier"}
  ],
  "checks": [],
  "not_applicable": [],
  "notes": "All checks: exit 0 = held, 1 = VIOLATION line, 2 = build failure/hang (not a verdict). Known findings live in known_findings.json (read-only at run time).",
}
for pid in ALL:
    if pid in CHECKS:
        tech, text, ref = CHECKS[pid]
        manifest["checks"].append({
          "property_id": pid,
          "quick_cmd": "./check %s --tier quick" % pid,
          "thorough_cmd": "./check %s --tier thorough" % pid,
          "evidence_file": "evidence/%s.json" % pid,
          "replay_cmd_template": "./check %s --replay {path}" % pid,
          "engine": "h8verif",
          "level_claimed": {"category": "exploration", "text": text + ROUND2.get(pid, ""), "design_ref": "DESIGN.md section " + ref + " and section 10"},
          "level_note": NOTES.get(pid, STEP_NOTE),
          "technique": "property-based testing: " + tech,
        })
    else:
        manifest["not_applicable"].append({"property_id": pid, "reason": "check not built yet in this round (planned: property-based, see DESIGN.md section 2); not claimed until it runs clean"})
json.dump(manifest, open(os.path.join(ROOT, 'MANIFEST.json'), 'w'), indent=1)
print("checks:", len(manifest["checks"]), "not_applicable:", len(manifest["not_applicable"]))
