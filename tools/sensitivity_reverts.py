#!/usr/bin/env python3
"""For every repair recorded in known_findings.json: revert it in /repo's working tree (no commit), run the
property's quick check, expect exit 1, restore. Writes the table to stdout (pasted into SENSITIVITY.md)."""
import json, subprocess, sys, time
d = json.load(open('/verif/known_findings.json'))
rows = []
extra = {"C01": ["C08"], "C08": ["C01"], "C05": ["C08"], "C15": []}
for f in d['findings']:
    if f['status'] != 'fixed':
        continue
    c = f['commit']
    r = subprocess.run(['git', '-C', '/repo', 'revert', '--no-commit', c], capture_output=True, text=True)
    if r.returncode != 0:
        subprocess.run(['git', '-C', '/repo', 'revert', '--abort'], capture_output=True)
        subprocess.run(['git', '-C', '/repo', 'reset', '-q', '--hard'])
        rows.append((f['property'], c, 'revert does not apply cleanly (later commit touches the same lines)', '-', f['what'][:70]))
        continue
    try:
        t0 = time.time()
        p = subprocess.run(['/verif/check', f['property'], '--tier', 'quick'], capture_output=True, text=True, timeout=1500)
        dt = time.time() - t0
        viol = [l for l in p.stdout.splitlines() if l.startswith('VIOLATION')]
        what = [l.strip() for l in p.stdout.splitlines() if l.strip().startswith('what:') or l.strip().startswith('detail:')]
        rows.append((f['property'], c, 'exit %d%s' % (p.returncode, ' CAUGHT' if p.returncode == 1 and viol else ' MISSED'), '%.0fs' % dt, (what[0] if what else '')[:110]))
    except subprocess.TimeoutExpired:
        rows.append((f['property'], c, 'timeout', '-', ''))
    finally:
        subprocess.run(['git', '-C', '/repo', 'revert', '--abort'], capture_output=True)
        subprocess.run(['git', '-C', '/repo', 'reset', '-q', '--hard'])
    print(rows[-1], flush=True)
print()
print('| property | reverted fix | result | time | first violation |')
print('|---|---|---|---|---|')
for r in rows:
    print('| %s | %s | %s | %s | %s |' % r)
