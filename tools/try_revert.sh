#!/bin/sh
# usage: tools/try_revert.sh <repo-commit-subject-prefix> <check ids...>
# Temporarily reverts one of the fix commits in /repo's working tree (nothing is committed), runs the
# given quick checks, and restores the tree. Exit codes of the checks are printed: 1 = caught.
PREFIX="$1"; shift
C=$(git -C /repo log --format='%h %s' | grep -F "$PREFIX" | head -1 | cut -d' ' -f1)
[ -n "$C" ] || { echo "no commit matching $PREFIX"; exit 2; }
git -C /repo revert --no-commit "$C" >/dev/null 2>&1 || { echo "revert of $C does not apply"; git -C /repo revert --abort 2>/dev/null; git -C /repo reset -q --hard; exit 2; }
for id in "$@"; do
  out=$(/verif/check "$id" --tier quick 2>&1); code=$?
  echo "revert[$C $PREFIX] $id -> exit $code: $(echo "$out" | grep -m1 -A1 VIOLATION | tr '\n' ' ' | cut -c1-260)"
done
git -C /repo revert --abort 2>/dev/null
git -C /repo reset -q --hard
git -C /repo status --short | head -3
